(* C19 driver.  Requests (one per line; byte strings hex, "-" = empty):
     psvc <name> <type> <addrs> <port> <txt>   addrs = "-" | 4:<hex>,6:<hex>,...
        -> ok name=.. id=.. md=.. cn=.. sn=.. ff=.. sf=.. ci=.. pv=.. type=.. addr=.. addrs=.. port=.. | err value | crash
     padv <hex|none>   -> ok id=.. cat=.. sf=.. cn=.. sn=.. sh=.. | err value | crash
     pnot <hex|none>   -> ok id=.. advid=.. payload=.. | err value | crash
     int <hex>         -> some <z> | none                       (python int(str))
     rtxt <u|l> <id> <md> <cn> <sn> <ff> <sf> <ci> <pv>  -> <hex>   (render_txt)
     radv <x> <sf> <dev> <cat> <sn> <cn> <cv> <sh>       -> <hex>   (render_adv)
     defm <sym> <name> <type> <addrs> <port> <txt>  -> ok    (remember an mDNS service info)
     defb <sym> <hex|none>                          -> ok    (remember BLE manufacturer data)
     nseq <guard 0|1> <pairs> ev ...   complete scanner callback incl. encrypted notifications
        pairs = - | idhex:key01:sn|none:db;..   db = none | empty | iid=fmt,..
        ev = <mdhex|none>~<opens>   opens = . | n=pthex,..   (state numbers at which the payload decrypts)
        -> per event  <notification result>/<raised 0|1>/<state number of every pairing>
     utf8 <hex> -> 1 | 0
     sched <mdns|ble|bleorig|blenoguard|agg> ev ...
        one group per harness event, group = ev+ev+..,
        ev = F.<k>.<idhex>.<tau> | A.<sym> | AM.<sym> | AB.<sym> | C.<k> | T.<delta> | L.<idhex>.<0|1>
        -> <k>=<outcome>;.. (sorted by k) | groups in which a callback raised | discoveries
           outcome = found:<idhex>:<cn>:<sn>:<t> | notfound:<t> | cancelled:<t> *)
open Drv
let ni s = n_of_int (int_of_string s)
let addr_of tok = match Stdlib.String.split_on_char ':' tok with
  | ["4"; h] -> Find.V4 (bytes_of_hex h) | ["6"; h] -> Find.V6 (bytes_of_hex h) | _ -> failwith "addr"
let addrs_of s = if s = "-" then [] else Stdlib.List.map addr_of (Stdlib.String.split_on_char ',' s)
let addr_str = function Find.V4 b -> "4:" ^ hex_of_bytes b | Find.V6 b -> "6:" ^ hex_of_bytes b
let addrs_str l = if l = [] then "-" else Stdlib.String.concat "," (Stdlib.List.map addr_str l)
let res_str f = function
  | Res.Ok x -> "ok " ^ f x | Res.Err Find.ValueError -> "err value"
  | Res.Crash -> "crash" | Res.OutOfFuel -> "fuel"
let svc_of name ty addrs port txt =
  { Find.si_name = bytes_of_hex name; si_type = bytes_of_hex ty; si_addrs = addrs_of addrs;
    si_port = ni port; si_text = bytes_of_hex txt }
let svc_str (h : Find.hksvc) =
  Printf.sprintf "name=%s id=%s md=%s cn=%s sn=%s ff=%s sf=%s ci=%s pv=%s type=%s addr=%s addrs=%s port=%d"
    (hex_of_bytes h.hs_name) (hex_of_bytes h.hs_id) (hex_of_bytes h.hs_model)
    (dec_of_z h.hs_cn) (dec_of_z h.hs_sn) (dec_of_z h.hs_ff) (dec_of_z h.hs_sf) (dec_of_z h.hs_ci)
    (hex_of_bytes h.hs_pv) (hex_of_bytes h.hs_type) (addr_str h.hs_address) (addrs_str h.hs_addresses)
    (int_of_n h.hs_port)
let adv_str (a : Find.hkadv) =
  Printf.sprintf "id=%s cat=%d sf=%d cn=%d sn=%d sh=%s" (hex_of_bytes a.ha_id) (int_of_n a.ha_cat)
    (int_of_n a.ha_sf) (int_of_n a.ha_cn) (int_of_n a.ha_sn) (hex_of_bytes a.ha_sh)
let not_str (n : Find.hknotif) =
  Printf.sprintf "id=%s advid=%s payload=%s" (hex_of_bytes n.hn_id) (hex_of_bytes n.hn_advid) (hex_of_bytes n.hn_payload)
let md_of s = if s = "none" then None else Some (bytes_of_hex s)

let msyms : (string, Find.svcinfo) Hashtbl.t = Hashtbl.create 16
let bsyms : (string, BinNums.coq_N list option) Hashtbl.t = Hashtbl.create 16

let out_str = function
  | Find.Raised -> "raised"
  | Find.Done (k, o, t) ->
    (match o with
     | Find.Found d -> Printf.sprintf "%d:found:%s:%s:%s:%d" (int_of_nat k) (hex_of_bytes d.d_id) (dec_of_z d.d_cn) (dec_of_z d.d_sn) (int_of_n t)
     | Find.NotFound -> Printf.sprintf "%d:notfound:%d" (int_of_nat k) (int_of_n t)
     | Find.Cancelled -> Printf.sprintf "%d:cancelled:%d" (int_of_nat k) (int_of_n t))
let outs_str l = if l = [] then "-" else Stdlib.String.concat "," (Stdlib.List.map out_str l)
let discs_str (l : (BinNums.coq_N list * Find.descr) list) =
  if l = [] then "-" else
  Stdlib.String.concat "," (Stdlib.List.sort compare (Stdlib.List.map (fun (k, (d : Find.descr)) ->
      Printf.sprintf "%s:%s:%s" (hex_of_bytes k) (dec_of_z d.d_cn) (dec_of_z d.d_sn)) l))

(* a schedule is a list of groups "tok+tok+..": one group per harness event; the answer is canonical:
   <k>=<outcome>;... sorted by k | indexes of the groups in which a callback raised | discoveries *)
let canon_answer (cells : (int * string) list) (raised : int list) (discs : string) =
  let cells = Stdlib.List.sort compare cells in
  Stdlib.String.concat ";" (Stdlib.List.map (fun (k, o) -> string_of_int k ^ "=" ^ o) cells)
  ^ "|" ^ Stdlib.String.concat "," (Stdlib.List.map string_of_int (Stdlib.List.rev raised)) ^ "|" ^ discs
let cell_of = function
  | Find.Raised -> None
  | Find.Done (k, o, t) ->
    Some (int_of_nat k, (match o with
     | Find.Found d -> Printf.sprintf "found:%s:%s:%s:%d" (hex_of_bytes d.d_id) (dec_of_z d.d_cn) (dec_of_z d.d_sn) (int_of_n t)
     | Find.NotFound -> Printf.sprintf "notfound:%d" (int_of_n t)
     | Find.Cancelled -> Printf.sprintf "cancelled:%d" (int_of_n t)))
let run_groups (stepf : string list -> Find.out list) groups =
  let cells = ref [] and raised = ref [] in
  Stdlib.List.iteri (fun gi g ->
      Stdlib.List.iter (fun tok ->
          Stdlib.List.iter (fun o -> match cell_of o with
              | None -> if not (Stdlib.List.mem gi !raised) then raised := gi :: !raised
              | Some (k, c) ->
                if Stdlib.List.mem_assoc k !cells
                then cells := (k, "twice(" ^ Stdlib.List.assoc k !cells ^ "," ^ c ^ ")") :: Stdlib.List.remove_assoc k !cells
                else cells := (k, c) :: !cells)
            (stepf (Stdlib.String.split_on_char '.' tok)))
        (Stdlib.String.split_on_char '+' g)) groups;
  (!cells, !raised)

let sched_single (c : Find.cfg) groups =
  let s = ref Find.st0 in
  let stepf tok =
    let (s', o) = match tok with
      | ["F"; k; i; tau] -> Find.step c !s (Find.Find (nat_of_int (int_of_string k), bytes_of_hex i, ni tau))
      | ["A"; sym] ->
        (match c.ckind with
         | Find.MDNS -> Find.mdns_callback c !s (Hashtbl.find msyms sym)
         | Find.BLE -> Find.ble_callback c !s (Hashtbl.find bsyms sym))
      | ["C"; k] -> Find.step c !s (Find.Cancel (nat_of_int (int_of_string k)))
      | ["T"; d] -> Find.step c !s (Find.Advance (ni d))
      | ["L"; i; b] -> Find.step c !s (Find.Load (bytes_of_hex i, b = "1"))
      | _ -> failwith "event" in
    s := s'; o in
  let (cells, raised) = run_groups stepf groups in
  canon_answer cells raised (discs_str !s.discs)

let sched_agg groups =
  let a = ref Find.agg0 in
  let stepf tok =
    let (a', o) = match tok with
      | ["F"; k; i; tau] -> Find.astep !a (Find.AFind (nat_of_int (int_of_string k), bytes_of_hex i, ni tau))
      | ["AM"; sym] ->
        let d = (match Find.from_service_info (Hashtbl.find msyms sym) with
            | Res.Ok h -> Some (Find.svc_descr h) | _ -> None) in
        Find.astep !a (Find.AAdvM d)
      | ["AB"; sym] ->
        let md = Hashtbl.find bsyms sym in
        let d = (match md with
            | Some (t :: _) when int_of_n t = 6 ->
              (match Find.adv_parse md with Res.Ok x -> Some (Find.adv_descr x) | _ -> None)
            | _ -> None) in
        Find.astep !a (Find.AAdvB d)
      | ["C"; k] -> Find.astep !a (Find.ACancel (nat_of_int (int_of_string k)))
      | ["T"; d] -> Find.astep !a (Find.AAdvance (ni d))
      | _ -> failwith "event" in
    a := a'; o in
  let (cells, raised) = run_groups stepf groups in
  canon_answer cells raised (discs_str !a.a_ip.discs ^ " / " ^ discs_str !a.a_ble.discs)

(* ---- encrypted notifications through the complete scanner callback *)
let fmt_of = function
  | "bool" -> Find.FBool | "u8" -> Find.FU8 | "u16" -> Find.FU16 | "u32" -> Find.FU32 | "u64" -> Find.FU64
  | "int" -> Find.FInt | "float" -> Find.FFloat | "string" -> Find.FString | _ -> Find.FOther
let npair_of tok = match Stdlib.String.split_on_char ':' tok with
  | [i; k; sn; db] ->
    (bytes_of_hex i,
     { Find.np_key = (k = "1"); np_sn = (if sn = "none" then None else Some (n_of_dec sn));
       np_db = (if db = "none" then None else if db = "empty" then Some [] else
                  Some (Stdlib.List.map (fun c -> match Stdlib.String.split_on_char '=' c with
                      | [a; f] -> (ni a, fmt_of f) | _ -> failwith "db") (Stdlib.String.split_on_char ',' db))) })
  | _ -> failwith "npair"
let opens_of s = if s = "." then [] else
    Stdlib.List.map (fun c -> match Stdlib.String.split_on_char '=' c with
        | [n; h] -> (n_of_dec n, bytes_of_hex h) | _ -> failwith "opens") (Stdlib.String.split_on_char ',' s)
let nres_str = function
  | None -> "x"
  | Some r -> (match r with
      | Find.NNoKey -> "nokey" | Find.NNoDescription -> "nodesc" | Find.NUndecryptable -> "undec"
      | Find.NStale -> "stale" | Find.NMismatch -> "mismatch"
      | Find.NDelivered i -> "deliv:" ^ dec_of_n i | Find.NPoll i -> "poll:" ^ dec_of_n i
      | Find.NDropped i -> "drop:" ^ dec_of_n i | Find.NRaisedOut -> "raised")
let nseq guard pairs evs =
  let s = ref Find.st0 and nps = ref (if pairs = "-" then [] else Stdlib.List.map npair_of (Stdlib.String.split_on_char ';' pairs)) in
  Stdlib.String.concat " " (Stdlib.List.map (fun ev ->
      match Stdlib.String.split_on_char '~' ev with
      | [md; op] ->
        let (((s', nps'), outs), r) = Find.ble_callback_full Find.ble_cfg (guard = "1") !s !nps (opens_of op) (md_of md) in
        s := s'; nps := nps';
        Printf.sprintf "%s/%d/%s" (nres_str r) (if Stdlib.List.mem Find.Raised outs then 1 else 0)
          (Stdlib.String.concat "," (Stdlib.List.map (fun (_, (p : Find.npair)) ->
               match p.np_sn with None -> "none" | Some n -> dec_of_n n) !nps))
      | _ -> failwith "nseq event") evs)

let handle = function
  | "nseq" :: guard :: pairs :: evs -> nseq guard pairs evs
  | ["utf8"; h] -> if Find.utf8_ok (bytes_of_hex h) then "1" else "0"
  | ["psvc"; name; ty; addrs; port; txt] -> res_str svc_str (Find.from_service_info (svc_of name ty addrs port txt))
  | ["padv"; h] -> res_str adv_str (Find.adv_parse (md_of h))
  | ["pnot"; h] -> res_str not_str (Find.notif_parse (md_of h))
  | ["int"; h] -> (match Find.py_int (bytes_of_hex h) with Some z -> "some " ^ dec_of_z z | None -> "none")
  | ["rtxt"; u; i; md; cn; sn; ff; sf; ci; pv] ->
    let up = if u = "u" then Find.upper else (fun x -> x) in
    hex_of_bytes (Find.render_txt up { Find.f_id = bytes_of_hex i; f_md = bytes_of_hex md; f_cn = n_of_dec cn;
                                       f_sn = n_of_dec sn; f_ff = n_of_dec ff; f_sf = n_of_dec sf;
                                       f_ci = n_of_dec ci; f_pv = bytes_of_hex pv })
  | ["radv"; x; sf; dev; cat; sn; cn; cv; sh] ->
    hex_of_bytes (Find.render_adv { Find.af_x = ni x; af_sf = ni sf; af_dev = bytes_of_hex dev; af_cat = ni cat;
                                    af_sn = ni sn; af_cn = ni cn; af_cv = ni cv; af_sh = bytes_of_hex sh })
  | ["defm"; sym; name; ty; addrs; port; txt] -> Hashtbl.replace msyms sym (svc_of name ty addrs port txt); "ok"
  | ["defb"; sym; h] -> Hashtbl.replace bsyms sym (md_of h); "ok"
  | "sched" :: "mdns" :: evs -> sched_single Find.mdns_cfg evs
  | "sched" :: "ble" :: evs -> sched_single Find.ble_cfg evs
  | "sched" :: "bleorig" :: evs -> sched_single Find.ble_orig_cfg evs
  | "sched" :: "blenoguard" :: evs -> sched_single Find.ble_noguard_cfg evs
  | "sched" :: "agg" :: evs -> sched_agg evs
  | _ -> "bad-request"
let () = main_loop handle
