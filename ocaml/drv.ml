(* Shared glue for the correspondence drivers: conversions between OCaml
   ints/strings and the extracted inductive numbers, hex codecs, main loop.
   Part of the trusted base (listed in DESIGN.md section 4). *)
open BinNums
open Datatypes

let rec pos_of_int (i : int) : positive =
  if i = 1 then Coq_xH
  else if i land 1 = 0 then Coq_xO (pos_of_int (i lsr 1))
  else Coq_xI (pos_of_int (i lsr 1))
let rec int_of_pos (p : positive) : int =
  match p with Coq_xH -> 1 | Coq_xO q -> 2 * int_of_pos q | Coq_xI q -> 2 * int_of_pos q + 1
let n_of_int (i : int) : coq_N = if i = 0 then N0 else Npos (pos_of_int i)
let int_of_n (n : coq_N) : int = match n with N0 -> 0 | Npos p -> int_of_pos p
let z_of_int (i : int) : coq_Z =
  if i = 0 then Z0 else if i > 0 then Zpos (pos_of_int i) else Zneg (pos_of_int (-i))
let int_of_z (z : coq_Z) : int = match z with Z0 -> 0 | Zpos p -> int_of_pos p | Zneg p -> - (int_of_pos p)
let rec nat_of_int (i : int) : nat = if i <= 0 then O else S (nat_of_int (i - 1))
let int_of_nat (n : nat) : int = let rec go acc = function O -> acc | S m -> go (acc + 1) m in go 0 n

(* arbitrary-size numbers travel as decimal strings; positive built by repeated halving on a digit list *)
let pos_of_dec (s : string) : positive option =
  (* digits little-endian base 10 -> bits *)
  let digits = ref (Stdlib.List.rev (Stdlib.List.init (Stdlib.String.length s) (fun i -> Char.code s.[i] - 48))) in
  let is_zero l = Stdlib.List.for_all (fun d -> d = 0) l in
  let halve l = (* l little-endian; returns (quotient, remainder) *)
    let be = Stdlib.List.rev l in
    let (q, r) = Stdlib.List.fold_left (fun (acc, carry) d -> let v = carry * 10 + d in (v / 2 :: acc, v mod 2)) ([], 0) be in
    (q, r) in
  let bits = ref [] in
  while not (is_zero !digits) do
    let (q, r) = halve !digits in
    bits := r :: !bits; digits := q
  done;
  (* !bits is most-significant first *)
  match !bits with
  | [] -> None
  | _ :: rest -> Some (Stdlib.List.fold_left (fun p b -> if b = 1 then Coq_xI p else Coq_xO p) Coq_xH rest)
let n_of_dec s = match pos_of_dec s with None -> N0 | Some p -> Npos p
let z_of_dec s =
  if Stdlib.String.length s > 0 && s.[0] = '-' then
    (match pos_of_dec (Stdlib.String.sub s 1 (Stdlib.String.length s - 1)) with None -> Z0 | Some p -> Zneg p)
  else (match pos_of_dec s with None -> Z0 | Some p -> Zpos p)
let dec_of_pos (p : positive) : string =
  (* bits most-significant first *)
  let rec bits p acc = match p with Coq_xH -> 1 :: acc | Coq_xO q -> bits q (0 :: acc) | Coq_xI q -> bits q (1 :: acc) in
  let bl = bits p [] in
  (* little-endian decimal digits, double-and-add *)
  let dbl_add l b =
    let rec go l carry = match l with
      | [] -> if carry = 0 then [] else [carry]
      | d :: r -> let v = d * 2 + carry in (v mod 10) :: go r (v / 10) in
    go l b in
  let ds = Stdlib.List.fold_left dbl_add [] bl in
  Stdlib.String.concat "" (Stdlib.List.rev_map string_of_int ds)
let dec_of_n = function N0 -> "0" | Npos p -> dec_of_pos p
let dec_of_z = function Z0 -> "0" | Zpos p -> dec_of_pos p | Zneg p -> "-" ^ dec_of_pos p

(* byte strings: lowercase hex, "-" for the empty string *)
let bytes_of_hex (h : string) : coq_N list =
  if h = "-" then [] else
  let n = Stdlib.String.length h / 2 in
  Stdlib.List.init n (fun i -> n_of_int (int_of_string ("0x" ^ Stdlib.String.sub h (2 * i) 2)))
let hex_of_bytes (l : coq_N list) : string =
  if l = [] then "-" else
  let b = Buffer.create (2 * Stdlib.List.length l) in
  Stdlib.List.iter (fun x -> Buffer.add_string b (Printf.sprintf "%02x" (int_of_n x))) l;
  Buffer.contents b

let split_on c s = if s = "" then [] else Stdlib.String.split_on_char c s
let words s = Stdlib.List.filter (fun w -> w <> "") (Stdlib.String.split_on_char ' ' s)

(* one request per input line, one answer line per request *)
let main_loop (handle : string list -> string) : unit =
  (try
     while true do
       let line = input_line stdin in
       let out = (try handle (words line) with e -> "driver-exception " ^ Printexc.to_string e) in
       print_string out; print_char '\n'
     done
   with End_of_file -> ());
  flush stdout
