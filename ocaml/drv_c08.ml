(* C08 driver.  Request:  run <cap> <T30> <ev> <ev> ...
     ev ::= I | D:<m>,<m>,... | D: | F | C<r> | A<dt> | PC | PE | LC        m ::= H<n> | E<n> | O<n>
   Answer: per-step outputs joined by '|' (tokens joined by ','), then
     " # open=<0|1> clock=<t> next=<n> infl=<r>:<wt>,... wait=<r>,..." *)
open Drv
let msg_of_tok t =
  let n = n_of_int (int_of_string (Stdlib.String.sub t 1 (Stdlib.String.length t - 1))) in
  match t.[0] with
  | 'H' -> (Disp.KHttp, n) | 'E' -> (Disp.KEvent, n) | 'O' -> (Disp.KOther, n)
  | _ -> failwith "msg"
let ev_of_tok t =
  let rest () = Stdlib.String.sub t 1 (Stdlib.String.length t - 1) in
  if t = "I" then Disp.Issue
  else if t = "F" then Disp.Frag
  else if t = "PC" then Disp.PeerClose
  else if t = "PE" then Disp.PeerEof
  else if t = "LC" then Disp.LocalClose
  else match t.[0] with
    | 'D' -> Disp.Data (Stdlib.List.map msg_of_tok (split_on ',' (Stdlib.String.sub t 2 (Stdlib.String.length t - 2))))
    | 'C' -> Disp.Cancel (nat_of_int (int_of_string (rest ())))
    | 'A' -> Disp.Advance (n_of_dec (rest ()))
    | _ -> failwith "event"
let outcome_str = function
  | Disp.Resp n -> "resp" ^ dec_of_n n | Disp.Disconnected -> "disc"
  | Disp.Cancelled -> "canc" | Disp.TimedOut -> "tout"
let out_str = function
  | Disp.OWrote (r, t) -> Printf.sprintf "w%d@%s" (int_of_nat r) (dec_of_n t)
  | Disp.ODone (r, o, t) -> Printf.sprintf "d%d:%s@%s" (int_of_nat r) (outcome_str o) (dec_of_n t)
  | Disp.OEvent (n, t) -> Printf.sprintf "e%s@%s" (dec_of_n n) (dec_of_n t)
  | Disp.OCrash t -> "c@" ^ dec_of_n t
  | Disp.OClosed t -> "x@" ^ dec_of_n t
let handle = function
  | "run" :: cap :: t30 :: evs ->
      let cap = nat_of_int (int_of_string cap) and t30 = n_of_dec t30 in
      let (s, steps) = Disp.run_steps cap t30 Disp.init (Stdlib.List.map ev_of_tok evs) in
      let st = Stdlib.String.concat "|" (Stdlib.List.map (fun os -> Stdlib.String.concat "," (Stdlib.List.map out_str os)) steps) in
      Printf.sprintf "%s # open=%d clock=%s next=%d infl=%s wait=%s" st
        (if s.Disp.opened then 1 else 0) (dec_of_n s.Disp.clock) (int_of_nat s.Disp.next)
        (Stdlib.String.concat "," (Stdlib.List.map (fun (r, w) -> Printf.sprintf "%d:%s" (int_of_nat r) (dec_of_n w)) s.Disp.inflight))
        (Stdlib.String.concat "," (Stdlib.List.map (fun r -> string_of_int (int_of_nat r)) s.Disp.waiters))
  | "crun" :: cap :: t30 :: evs ->
      (* long-lived connection (Model/DispConn.v): tokens as above plus R (Reconnect) and LL (LateLost);
         a step that starts a new epoch is shown with the extra token o@<clock> *)
      let cap = nat_of_int (int_of_string cap) and t30 = n_of_dec t30 in
      let cev t = if t = "R" then DispConn.Reconnect else if t = "LL" then DispConn.LateLost else DispConn.Ev (ev_of_tok t) in
      let (c, steps) = DispConn.crun_steps cap t30 DispConn.cinit (Stdlib.List.map cev evs) in
      let prev = ref 0 in
      let show ((os, ep), clk) =
        let ep = int_of_nat ep in
        let toks = Stdlib.List.map out_str os in
        let toks = if ep > !prev then toks @ ["o@" ^ dec_of_n clk] else toks in
        prev := ep; Stdlib.String.concat "," toks in
      let st = Stdlib.String.concat "|" (Stdlib.List.map show steps) in
      let s = c.DispConn.base in
      Printf.sprintf "%s # open=%d clock=%s next=%d infl=%s wait=%s epoch=%d" st
        (if s.Disp.opened then 1 else 0) (dec_of_n s.Disp.clock) (int_of_nat s.Disp.next)
        (Stdlib.String.concat "," (Stdlib.List.map (fun (r, w) -> Printf.sprintf "%d:%s" (int_of_nat r) (dec_of_n w)) s.Disp.inflight))
        (Stdlib.String.concat "," (Stdlib.List.map (fun r -> string_of_int (int_of_nat r)) s.Disp.waiters))
        (int_of_nat c.DispConn.epoch)
  | _ -> "bad-request"
let () = main_loop handle
