(* C07 driver.
   feed <hex> <hex> ...   feed the reads in order from the initial state
   cuts1 <hex>            one-piece result + number of single cuts whose result differs
   cuts2 <hex>            same over all single and double cuts
   int10b|int10s|int16 <hex>   the int() models: "none" | decimal
   title|strips|stripb <hex>   str.title() / strip() models
   wire <version> <code> <reason> <hdrs> <framing>   the grammar of hfeed_correct:
       hdrs = . | name=value,...   framing = N | F:<body> | C:<size=data,...|.>:<last>
       answer: <wf_wire> <render> <interp as msg>
   sfeed <ctr> <n> <n table entries nonce:aad:ct:pt> <read> ...   the secure protocol (Model/HttpSecure.v):
       reads of ciphertext in order on one object; open = the finite table
       answer: <dead|live:buffered:ctr> <result> # <messages delivered by read 1>,<by read 2>,...
   scuts1|scuts2 <ctr> <n> <entries> <ciphertext>   all single (and double) cuts of the ciphertext:
       answer: <bad> <total> <dead|live..> <result of the one-piece read>
   result: <state> <digest-of-parser-state> <n> msg...   msg = K:code:version:reason:headers:body *)
open Drv
let kind_str = function Http.KHttp -> "H" | Http.KEvent -> "E"
let hdrs_str l = if l = [] then "." else
  Stdlib.String.concat "," (Stdlib.List.map (fun (n, v) -> hex_of_bytes n ^ "=" ^ hex_of_bytes v) l)
let msg_str (m : Http.msg) =
  Printf.sprintf "%s:%s:%s:%s:%s:%s" (kind_str m.Http.m_kind) (dec_of_z m.Http.m_code)
    (hex_of_bytes m.Http.m_version) (hex_of_bytes m.Http.m_reason) (hdrs_str m.Http.m_headers)
    (hex_of_bytes m.Http.m_body)
let phase_str = function Http.PreStatus -> "pre" | Http.Headers -> "hdr" | Http.Body -> "body"
let state_str = function
  | Http.Run (p, raw) ->
      Printf.sprintf "run %s/%s/%s/%d/%d/%s" (phase_str p.Http.ph) (if p.Http.chunked then "c" else "n")
        (dec_of_z p.Http.clen) (Stdlib.List.length p.Http.hdrs) (Stdlib.List.length p.Http.body) (hex_of_bytes raw)
  | Http.Halt Http.Crashed -> "crash -"
  | Http.Halt Http.Illformed -> "illformed -"
  | Http.Halt Http.Unmodelled -> "unmodelled -"
  | Http.HFuel -> "fuel -"
let res_str (s, ms) =
  Stdlib.String.concat " " (state_str s :: string_of_int (Stdlib.List.length ms) :: Stdlib.List.map msg_str ms)
let rec take n l = if n = 0 then [] else match l with [] -> [] | x :: r -> x :: take (n - 1) r
let rec drop n l = if n = 0 then l else match l with [] -> [] | _ :: r -> drop (n - 1) r
let optz = function None -> "none" | Some z -> dec_of_z z
let cuts two h =
  let s = bytes_of_hex h in
  let n = Stdlib.List.length s in
  let whole = Http.hfeeds Http.hinit [s] in
  let bad = ref 0 and total = ref 0 in
  for i = 1 to n - 1 do
    let a = take i s and rest = drop i s in
    incr total;
    if Http.hfeeds Http.hinit [a; rest] <> whole then incr bad;
    if two then
      for j = i + 1 to n - 1 do
        let b = take (j - i) rest and c = drop (j - i) rest in
        incr total;
        if Http.hfeeds Http.hinit [a; b; c] <> whole then incr bad
      done
  done;
  Printf.sprintf "%d %d %s" !bad !total (res_str whole)
let pairs t = if t = "." then [] else
  Stdlib.List.map (fun kv -> match Stdlib.String.split_on_char '=' kv with
    | [a; b] -> (bytes_of_hex a, bytes_of_hex b) | _ -> failwith "pair") (Stdlib.String.split_on_char ',' t)
let framing_of t = match Stdlib.String.split_on_char ':' t with
  | ["N"] -> HttpWire.FNone
  | ["F"; b] -> HttpWire.FFixed (bytes_of_hex b)
  | ["C"; cs; last] -> HttpWire.FChunked (pairs cs, bytes_of_hex last)
  | _ -> failwith "framing"
let table entries =
  let tbl = Hashtbl.create 16 in
  Stdlib.List.iter (fun e -> match Stdlib.String.split_on_char ':' e with
      | [no; aad; ct; pt] -> Hashtbl.replace tbl (no ^ ":" ^ aad ^ ":" ^ ct) (bytes_of_hex pt)
      | _ -> failwith "entry") entries;
  fun no aad ct -> Hashtbl.find_opt tbl (hex_of_bytes no ^ ":" ^ hex_of_bytes aad ^ ":" ^ hex_of_bytes ct)
let rec split_n n l = if n = 0 then ([], l) else match l with [] -> failwith "split_n" | x :: r -> let (a, b) = split_n (n - 1) r in (x :: a, b)
let rstate_str = function
  | Frame.Dead -> "dead"
  | Frame.Live (b, c) -> Printf.sprintf "live:%d:%s" (Stdlib.List.length b) (dec_of_n c)
let sres_str ((r, h), ms) = rstate_str r ^ " " ^ res_str (h, ms)
let scuts two ctr n rest =
  let (entries, tl) = split_n (int_of_string n) rest in
  let opn = table entries in
  let s = bytes_of_hex (match tl with [h] -> h | _ -> failwith "scuts") in
  let len = Stdlib.List.length s in
  let s0 = HttpSecure.sinit (n_of_dec ctr) in
  let whole = HttpSecure.secure_feeds opn s0 [s] in
  let bad = ref 0 and total = ref 0 in
  for i = 1 to len - 1 do
    let a = take i s and r = drop i s in
    incr total;
    if HttpSecure.secure_feeds opn s0 [a; r] <> whole then incr bad;
    if two then
      for j = i + 1 to len - 1 do
        let b = take (j - i) r and c = drop (j - i) r in
        incr total;
        if HttpSecure.secure_feeds opn s0 [a; b; c] <> whole then incr bad
      done
  done;
  Printf.sprintf "%d %d %s" !bad !total (sres_str whole)
let handle = function
  | "sfeed" :: ctr :: n :: rest ->
      let (entries, segs) = split_n (int_of_string n) rest in
      let opn = table entries in
      let st = ref (HttpSecure.sinit (n_of_dec ctr)) in
      let all = ref [] and counts = ref [] in
      Stdlib.List.iter (fun seg ->
          let (s', ms) = HttpSecure.secure_feed opn !st (bytes_of_hex seg) in
          st := s'; all := !all @ ms; counts := Stdlib.List.length ms :: !counts) segs;
      sres_str (!st, !all) ^ " # " ^ Stdlib.String.concat "," (Stdlib.List.rev_map string_of_int !counts)
  | "scuts1" :: ctr :: n :: rest -> scuts false ctr n rest
  | "scuts2" :: ctr :: n :: rest -> scuts true ctr n rest
  | ["wire"; v; c; r; hs; fr] ->
      let w = { HttpWire.w_version = bytes_of_hex v; w_codeb = bytes_of_hex c; w_reason = bytes_of_hex r;
                w_hdrs = pairs hs; w_fr = framing_of fr } in
      Printf.sprintf "%b %s %s" (HttpWire.wf_wire w) (hex_of_bytes (HttpWire.render w)) (msg_str (HttpWire.interp w))
  | "feed" :: ps -> res_str (Http.hfeeds Http.hinit (Stdlib.List.map bytes_of_hex ps))
  | ["cuts1"; h] -> cuts false h
  | ["cuts2"; h] -> cuts true h
  | ["int10b"; h] -> optz (Http.int10 Http.ws_b (bytes_of_hex h))
  | ["int10s"; h] -> optz (Http.int10 Http.ws_s (bytes_of_hex h))
  | ["int16"; h] -> optz (Http.int16 (bytes_of_hex h))
  | ["title"; h] -> hex_of_bytes (Http.title (bytes_of_hex h))
  | ["strips"; h] -> hex_of_bytes (Http.strip Http.ws_s (bytes_of_hex h))
  | ["stripb"; h] -> hex_of_bytes (Http.strip Http.ws_b (bytes_of_hex h))
  | _ -> "bad-request"
let () = main_loop handle
