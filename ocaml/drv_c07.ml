(* C07 driver.
   feed <hex> <hex> ...   feed the reads in order from the initial state
   cuts1 <hex>            one-piece result + number of single cuts whose result differs
   cuts2 <hex>            same over all single and double cuts
   int10b|int10s|int16 <hex>   the int() models: "none" | decimal
   title|strips|stripb <hex>   str.title() / strip() models
   wire <version> <code> <reason> <hdrs> <framing>   the grammar of hfeed_correct:
       hdrs = . | name=value,...   framing = N | F:<body> | C:<size=data,...|.>:<last>
       answer: <wf_wire> <render> <interp as msg>
   result: <state> <digest-of-parser-state> <n> msg...   msg = K:code:version:reason:headers:body *)
open Drv
let kind_str = function Http.KHttp -> "H" | Http.KEvent -> "E"
let hdrs_str l = if l = [] then "." else
  Stdlib.String.concat "," (Stdlib.List.map (fun (n, v) -> hex_of_bytes n ^ "=" ^ hex_of_bytes v) l)
let msg_str (m : Http.msg) =
  Printf.sprintf "%s:%s:%s:%s:%s:%s" (kind_str m.Http.m_kind) (dec_of_z m.Http.m_code)
    (hex_of_bytes m.Http.m_version) (hex_of_bytes m.Http.m_reason) (hdrs_str m.Http.m_headers)
    (hex_of_bytes m.Http.m_body)
let phase_str = function Http.PreStatus -> "pre" | Http.Headers -> "hdr" | Http.Body -> "body"
let state_str = function
  | Http.Run (p, raw) ->
      Printf.sprintf "run %s/%s/%s/%d/%d/%s" (phase_str p.Http.ph) (if p.Http.chunked then "c" else "n")
        (dec_of_z p.Http.clen) (Stdlib.List.length p.Http.hdrs) (Stdlib.List.length p.Http.body) (hex_of_bytes raw)
  | Http.Halt Http.Crashed -> "crash -"
  | Http.Halt Http.Illformed -> "illformed -"
  | Http.Halt Http.Unmodelled -> "unmodelled -"
  | Http.HFuel -> "fuel -"
let res_str (s, ms) =
  Stdlib.String.concat " " (state_str s :: string_of_int (Stdlib.List.length ms) :: Stdlib.List.map msg_str ms)
let rec take n l = if n = 0 then [] else match l with [] -> [] | x :: r -> x :: take (n - 1) r
let rec drop n l = if n = 0 then l else match l with [] -> [] | _ :: r -> drop (n - 1) r
let optz = function None -> "none" | Some z -> dec_of_z z
let cuts two h =
  let s = bytes_of_hex h in
  let n = Stdlib.List.length s in
  let whole = Http.hfeeds Http.hinit [s] in
  let bad = ref 0 and total = ref 0 in
  for i = 1 to n - 1 do
    let a = take i s and rest = drop i s in
    incr total;
    if Http.hfeeds Http.hinit [a; rest] <> whole then incr bad;
    if two then
      for j = i + 1 to n - 1 do
        let b = take (j - i) rest and c = drop (j - i) rest in
        incr total;
        if Http.hfeeds Http.hinit [a; b; c] <> whole then incr bad
      done
  done;
  Printf.sprintf "%d %d %s" !bad !total (res_str whole)
let pairs t = if t = "." then [] else
  Stdlib.List.map (fun kv -> match Stdlib.String.split_on_char '=' kv with
    | [a; b] -> (bytes_of_hex a, bytes_of_hex b) | _ -> failwith "pair") (Stdlib.String.split_on_char ',' t)
let framing_of t = match Stdlib.String.split_on_char ':' t with
  | ["N"] -> HttpWire.FNone
  | ["F"; b] -> HttpWire.FFixed (bytes_of_hex b)
  | ["C"; cs; last] -> HttpWire.FChunked (pairs cs, bytes_of_hex last)
  | _ -> failwith "framing"
let handle = function
  | ["wire"; v; c; r; hs; fr] ->
      let w = { HttpWire.w_version = bytes_of_hex v; w_codeb = bytes_of_hex c; w_reason = bytes_of_hex r;
                w_hdrs = pairs hs; w_fr = framing_of fr } in
      Printf.sprintf "%b %s %s" (HttpWire.wf_wire w) (hex_of_bytes (HttpWire.render w)) (msg_str (HttpWire.interp w))
  | "feed" :: ps -> res_str (Http.hfeeds Http.hinit (Stdlib.List.map bytes_of_hex ps))
  | ["cuts1"; h] -> cuts false h
  | ["cuts2"; h] -> cuts true h
  | ["int10b"; h] -> optz (Http.int10 Http.ws_b (bytes_of_hex h))
  | ["int10s"; h] -> optz (Http.int10 Http.ws_s (bytes_of_hex h))
  | ["int16"; h] -> optz (Http.int16 (bytes_of_hex h))
  | ["title"; h] -> hex_of_bytes (Http.title (bytes_of_hex h))
  | ["strips"; h] -> hex_of_bytes (Http.strip Http.ws_s (bytes_of_hex h))
  | ["stripb"; h] -> hex_of_bytes (Http.strip Http.ws_b (bytes_of_hex h))
  | _ -> "bad-request"
let () = main_loop handle
