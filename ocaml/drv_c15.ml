(* C15 driver: enc / dec / spec / reasm *)
open Drv
let item_of_tok t = match Stdlib.String.split_on_char ':' t with
  | [k; h] -> (n_of_int (int_of_string k), bytes_of_hex h)
  | _ -> failwith "item"
let tok_of_item (k, v) = string_of_int (int_of_n k) ^ ":" ^ hex_of_bytes v
let items_str l = if l = [] then "." else Stdlib.String.concat " " (Stdlib.List.map tok_of_item l)
let err_str = function Tlv.ParseError -> "parse" | Tlv.ValueError -> "value"
let res_bytes = function
  | Res.Ok b -> "ok " ^ hex_of_bytes b | Res.Err e -> "err " ^ err_str e
  | Res.Crash -> "crash" | Res.OutOfFuel -> "fuel"
let res_items = function
  | Res.Ok l -> "ok " ^ items_str l | Res.Err e -> "err " ^ err_str e
  | Res.Crash -> "crash" | Res.OutOfFuel -> "fuel"
let handle = function
  | "enc" :: items -> res_bytes (Tlv.tlv_encode (Stdlib.List.map item_of_tok items))
  | "spec" :: items -> "ok " ^ hex_of_bytes (Tlv.tlv_spec_encode (Stdlib.List.map item_of_tok items))
  | ["dec"; e; h] -> res_items (Tlv.tlv_decode_exp (bytes_of_hex e) (bytes_of_hex h))
  | "reasm" :: replies ->
      (match Tlv.tlv_reassemble (Stdlib.List.map bytes_of_hex replies) with
       | Tlv.RDone (a, l) -> Printf.sprintf "done %d %s" (int_of_nat a) (items_str l)
       | Tlv.RFail (a, e) -> Printf.sprintf "fail %d %s" (int_of_nat a) (err_str e)
       | Tlv.RCrash -> "crash" | Tlv.RTooMany -> "toomany")
  | _ -> "bad-request"
let () = main_loop handle
