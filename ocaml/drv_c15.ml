(* C15 driver: enc / dec / spec / reasm / sess *)
open Drv
let item_of_tok t = match Stdlib.String.split_on_char ':' t with
  | [k; h] -> (n_of_int (int_of_string k), bytes_of_hex h)
  | _ -> failwith "item"
let tok_of_item (k, v) = string_of_int (int_of_n k) ^ ":" ^ hex_of_bytes v
let items_str l = if l = [] then "." else Stdlib.String.concat " " (Stdlib.List.map tok_of_item l)
let err_str = function Tlv.ParseError -> "parse" | Tlv.ValueError -> "value"
let res_bytes = function
  | Res.Ok b -> "ok " ^ hex_of_bytes b | Res.Err e -> "err " ^ err_str e
  | Res.Crash -> "crash" | Res.OutOfFuel -> "fuel"
let res_items = function
  | Res.Ok l -> "ok " ^ items_str l | Res.Err e -> "err " ^ err_str e
  | Res.Crash -> "crash" | Res.OutOfFuel -> "fuel"
(* sess o:<b|a>:<hex> ... -- E:<k>@<r>,... | D:<ehex|->:<r> | A:<r>:<hex>   (one store, any history) *)
let obj_of_tok t = match Stdlib.String.split_on_char ':' t with
  | ["o"; "b"; h] -> (TlvObj.KBytes, bytes_of_hex h)
  | ["o"; "a"; h] -> (TlvObj.KByteArray, bytes_of_hex h)
  | _ -> failwith "obj"
let kr_of_tok t = match Stdlib.String.split_on_char '@' t with
  | [k; r] -> (n_of_int (int_of_string k), nat_of_int (int_of_string r))
  | _ -> failwith "kr"
let op_of_tok t = match Stdlib.String.split_on_char ':' t with
  | ["E"; a] -> TlvObj.OEnc (Stdlib.List.map kr_of_tok (split_on ',' a))
  | ["D"; e; r] -> TlvObj.ODec ((if e = "-" then [] else bytes_of_hex e), nat_of_int (int_of_string r))
  | ["A"; r; h] -> TlvObj.OAppend (nat_of_int (int_of_string r), bytes_of_hex h)
  | _ -> failwith "op"
let kr_str (k, r) = string_of_int (int_of_n k) ^ "@" ^ string_of_int (int_of_nat r)
let out_str = function
  | TlvObj.REnc r -> "enc " ^ res_bytes r
  | TlvObj.RDec (Res.Ok a) -> "dec ok " ^ (if a = [] then "." else Stdlib.String.concat "," (Stdlib.List.map kr_str a))
  | TlvObj.RDec (Res.Err e) -> "dec err " ^ err_str e
  | TlvObj.RDec Res.Crash -> "dec crash" | TlvObj.RDec Res.OutOfFuel -> "dec fuel"
  | TlvObj.RApp b -> if b then "app 1" else "app 0"
let obj_str (k, v) = (match k with TlvObj.KBytes -> "b:" | TlvObj.KByteArray -> "a:") ^ hex_of_bytes v
let rec split_at_dashes acc = function
  | [] -> (Stdlib.List.rev acc, [])
  | "--" :: r -> (Stdlib.List.rev acc, r)
  | x :: r -> split_at_dashes (x :: acc) r
let handle = function
  | "sess" :: rest ->
      let (objs, ops) = split_at_dashes [] rest in
      let (s, outs) = TlvObj.tlv_obj_run (Stdlib.List.map obj_of_tok objs) (Stdlib.List.map op_of_tok ops) in
      Stdlib.String.concat " | " (Stdlib.List.map out_str outs) ^ " || " ^
      Stdlib.String.concat " " (Stdlib.List.map obj_str s)
  | "enc" :: items -> res_bytes (Tlv.tlv_encode (Stdlib.List.map item_of_tok items))
  | "spec" :: items -> "ok " ^ hex_of_bytes (Tlv.tlv_spec_encode (Stdlib.List.map item_of_tok items))
  | ["dec"; e; h] -> res_items (Tlv.tlv_decode_exp (bytes_of_hex e) (bytes_of_hex h))
  | "reasm" :: replies ->
      (match Tlv.tlv_reassemble (Stdlib.List.map bytes_of_hex replies) with
       | Tlv.RDone (a, l) -> Printf.sprintf "done %d %s" (int_of_nat a) (items_str l)
       | Tlv.RFail (a, e) -> Printf.sprintf "fail %d %s" (int_of_nat a) (err_str e)
       | Tlv.RCrash -> "crash" | Tlv.RTooMany -> "toomany")
  | _ -> "bad-request"
let () = main_loop handle
