(* C03 driver.  One request per line:
     ps <tr> <code msg> <ios_id hex> <a n> <ltsk n> <with_auth 0|1>
        <sa_code msg> <sa_salt msg> <sa_b n> <sa_id hex> <sa_ltsk n>
        <m2 reply|honest> <m4 reply|honest> <m6 reply|honest> <impl rec id hex|none> <impl rec ltpk msg|->
   Term syntax (no blanks):  msg = [e;e;...]   e = x<hex> | pub(n) | sig(n,msg) | aead(msg,msg,msg,msg)
     | dh(n,msg) | hkdf(msg,msg,msg,n) | hash(msg) | tlv(n,msg) | junk(n,n)
     | srpA(n) | srpB(n,msg,msg) | srpkc(msg,msg,n,msg) | srpks(msg,msg,n,msg)
   reply = . | t=msg|t=msg|... | F:<frame>/<frame>/...  (BLE: the GATT frames of the reply, each in reply syntax)
   Answer: m2spec=<0|1> result=<done|fail:<class>|unsupported> m3acc=<0|1|-> m5acc=<0|1|->
           rec=<0|1|-> (model record = implementation record)  stored=<0|1|-> (accessory stored id and pub(LTSK)) *)
open Drv
open Sym

exception Parse of string

(* ---- term parser ---- *)
let parse_msg (s : string) : msg =
  let n = Stdlib.String.length s in
  let pos = ref 0 in
  let peek () = if !pos < n then s.[!pos] else '\000' in
  let eat c = if peek () = c then incr pos else raise (Parse (Printf.sprintf "expected %c at %d in %s" c !pos s)) in
  let ident () =
    let st = !pos in
    while (let c = peek () in (c >= 'a' && c <= 'z') || (c >= 'A' && c <= 'Z')) do incr pos done;
    Stdlib.String.sub s st (!pos - st) in
  let number () =
    let st = !pos in
    while (let c = peek () in c >= '0' && c <= '9') do incr pos done;
    if !pos = st then raise (Parse "number");
    n_of_dec (Stdlib.String.sub s st (!pos - st)) in
  let hex () =
    let st = !pos in
    while (let c = peek () in (c >= '0' && c <= '9') || (c >= 'a' && c <= 'f')) do incr pos done;
    let h = Stdlib.String.sub s st (!pos - st) in
    Stdlib.List.map (fun b -> AByte b) (bytes_of_hex (if h = "" then "-" else h)) in
  let rec msg () : msg =
    eat '[';
    if peek () = ']' then (incr pos; [])
    else begin
      let acc = ref (elem ()) in
      while peek () = ';' do incr pos; acc := !acc @ elem () done;
      eat ']'; !acc
    end
  and elem () : msg =
    if peek () = 'x' then (incr pos; hex ())
    else begin
      let id = ident () in
      eat '(';
      let r = (match id with
        | "pub" -> let k = number () in [APub k]
        | "sig" -> let k = number () in eat ','; let m = msg () in [ASig (k, m)]
        | "aead" -> let k = msg () in eat ','; let nn = msg () in eat ','; let a = msg () in eat ',';
                    let p = msg () in [AAead (k, nn, a, p)]
        | "dh" -> let a = number () in eat ','; let p = msg () in s_dh a p
        | "hkdf" -> let i = msg () in eat ','; let sl = msg () in eat ','; let f = msg () in eat ',';
                    let l = number () in [AHkdf (i, sl, f, l)]
        | "hash" -> let m = msg () in [AHash m]
        | "tlv" -> let t = number () in eat ','; let v = msg () in [ATlv (t, v)]
        | "junk" -> let i = number () in eat ','; let l = number () in [AJunk (i, l)]
        | "srpA" -> let a = number () in [ASrpA a]
        | "srpB" -> let b = number () in eat ','; let c = msg () in eat ','; let sl = msg () in [ASrpB (b, c, sl)]
        | "srpkc" -> let c = msg () in eat ','; let sl = msg () in eat ','; let a = number () in eat ',';
                     let bb = msg () in srp_kc c sl a bb
        | "srpks" -> let c = msg () in eat ','; let sl = msg () in eat ','; let b = number () in eat ',';
                     let aa = msg () in srp_ks c sl b aa
        | _ -> raise (Parse ("unknown constructor " ^ id))) in
      eat ')'; r
    end in
  let m = msg () in
  if !pos <> n then raise (Parse ("trailing input in " ^ s));
  m

let parse_reply (s : string) : sitem list =
  if s = "." then [] else
  Stdlib.List.map (fun it ->
      match Stdlib.String.index_opt it '=' with
      | Some i -> (n_of_dec (Stdlib.String.sub it 0 i),
                   parse_msg (Stdlib.String.sub it (i + 1) (Stdlib.String.length it - i - 1)))
      | None -> raise (Parse ("item " ^ it)))
    (Stdlib.String.split_on_char '|' s)


let tr_of = function "ip" -> TIP | "ble" -> TBLE | "coap" -> TCOAP | s -> raise (Parse ("transport " ^ s))

let fail_str = function
  | FInvalid -> "invalid" | FErr _ -> "error-item" | FAuthTag -> "authtag" | FParse -> "parse"
  | FWrongId -> "wrongid" | FSig -> "signature" | FProof -> "proof" | FCrash -> "crash"

let rec items_eq (a : sitem list) (b : sitem list) : bool =
  match a, b with
  | [], [] -> true
  | (k, v) :: r, (k', v') :: s -> k = k' && msg_eqb v v' && items_eq r s
  | _, _ -> false

let ob = function None -> "-" | Some true -> "1" | Some false -> "0"
(* a reply may also be given as the GATT frames it arrived in (BLE):  F:<reply>/<reply>/...
   (every frame in reply syntax, fragment items are types 12 / 13); it is reassembled by the
   extracted model of _pairing_char_write (SetupFrames.bf_reply) *)
exception Frames of string
let is_framed s = Stdlib.String.length s >= 2 && Stdlib.String.sub s 0 2 = "F:"
let rep s =
  if s = "honest" then None
  else if is_framed s then begin
    let frames = Stdlib.List.map parse_reply
        (Stdlib.String.split_on_char '/' (Stdlib.String.sub s 2 (Stdlib.String.length s - 2))) in
    match SetupFrames.bf_reply frames with
    | Some d -> Some d
    | None -> raise (Frames (match SetupFrames.bf_logical frames with
        | SetupFrames.BfParse -> "parse" | SetupFrames.BfUnsup -> "unsupported"
        | SetupFrames.BfStarved -> "starved" | SetupFrames.BfReply (_, _) -> "reply"))
  end
  else Some (parse_reply s)

let rec handle req = try handle_ req with Frames k -> "frames-not-reassembled class=" ^ k
and handle_ = function
  | ["ps"; tr; code; ios_id; a; ltsk; wa; sa_code; sa_salt; sa_b; sa_id; sa_ltsk; m2; m4; m6; rid; rltpk] ->
      let tr = tr_of tr in
      let c = { Setup.ps_code = parse_msg code; ps_ios_id = bytes_of_hex ios_id; ps_a = n_of_dec a;
                ps_ltsk = n_of_dec ltsk } in
      let acc = { Setup.sa_code = parse_msg sa_code; sa_salt = parse_msg sa_salt; sa_b = n_of_dec sa_b;
                  sa_id = bytes_of_hex sa_id; sa_ltsk = n_of_dec sa_ltsk } in
      let m2x = rep m2 in
      let t = Setup.ps_exchange tr c (wa = "1") acc m2x (rep m4) (rep m6) in
      let m2spec = (match m2x with None -> "1" | Some x -> if items_eq x t.Setup.pt_m2_spec then "1" else "0") in
      let res = (match t.Setup.pt_result with
        | Setup.SDone _ -> "done"
        | Setup.SFail f -> "fail:" ^ fail_str f
        | Setup.SSend _ -> "send"
        | Setup.SUnsup -> "unsupported") in
      let recok = (match t.Setup.pt_result with
        | Setup.SDone r ->
            if rid = "none" then "0"
            else if bytes_eqb r.Setup.r_acc_id (bytes_of_hex rid) && msg_eqb r.Setup.r_acc_ltpk (parse_msg rltpk)
                    && r.Setup.r_ios_id = c.Setup.ps_ios_id && r.Setup.r_ios_ltsk = c.Setup.ps_ltsk
                    && msg_eqb r.Setup.r_ios_ltpk [APub c.Setup.ps_ltsk]
            then "1" else "0"
        | _ -> "-") in
      let stored = (match t.Setup.pt_result, t.Setup.pt_stored with
        | Setup.SDone _, Some (cid, cpk) ->
            if msg_eqb cid (lit c.Setup.ps_ios_id) && msg_eqb cpk [APub c.Setup.ps_ltsk] then "1" else "0"
        | Setup.SDone _, None -> "0"
        | _, _ -> "-") in
      Printf.sprintf "m2spec=%s result=%s m3acc=%s m5acc=%s rec=%s stored=%s" m2spec res
        (ob t.Setup.pt_m3_accepted) (ob t.Setup.pt_m5_accepted) recok stored
  | _ -> "bad-request"

let () = main_loop handle
