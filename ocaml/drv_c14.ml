(* C14 driver.
   cv <fmt> <min> <max> <step> <reading> <str>   -> ok int Z | ok dec s:c:e | err format | crash | fuel
   op <name> <prec> <mode> <a> [<b>]             -> dec s:c:e | none (Overflow / division by zero) | cmp lt/eq/gt | int Z
                                                    (the context operations with Emax = 999999: daddb, dsubb, dmulb, ddivb, dfixb)
   decimals travel as  s:coef:exp  (s = 0/1, coef and exp decimal strings), "-" = None
   reading: F:s:coef:exp | N (non-finite) | R (rejected); str: code points a,b,c or "-"
   hist <aid> <n> <char>*n <op>*   one answer word per Prepare (or "none")
     char  k;iid;fmt;min;max;step      op  D;k;fmt;min;max;step | R;k;reading | P[;k=reading=str]*
     answer word  ok[|aid/iid/int/Z | |aid/iid/dec/s:c:e]* | err | crash | fuel *)
open Drv
let dec_of_tok t = match Stdlib.String.split_on_char ':' t with
  | [s; c; e] -> { Convert.dneg = (s = "1"); dcoef = n_of_dec c; dexp = z_of_dec e }
  | _ -> failwith "dec"
let tok_of_dec (d : Convert.dec) =
  (if d.Convert.dneg then "1" else "0") ^ ":" ^ dec_of_n d.Convert.dcoef ^ ":" ^ dec_of_z d.Convert.dexp
let opt_dec t = if t = "-" then None else Some (dec_of_tok t)
let fmt_of = function
  | "bool" -> Convert.FBool | "uint8" -> Convert.FUint8 | "uint16" -> Convert.FUint16
  | "uint32" -> Convert.FUint32 | "uint64" -> Convert.FUint64 | "int" -> Convert.FInt
  | "float" -> Convert.FFloat | _ -> failwith "fmt"
let reading_of t =
  if t = "N" then Convert.RNonFinite else if t = "R" then Convert.RReject
  else Convert.RFin (dec_of_tok (Stdlib.String.sub t 2 (Stdlib.String.length t - 2)))
let str_of t = if t = "-" then [] else Stdlib.List.map (fun x -> n_of_int (int_of_string x)) (Stdlib.String.split_on_char ',' t)
let mode_of = function "up" -> Convert.HalfUp | "even" -> Convert.HalfEven | _ -> failwith "mode"
let res_str = function
  | Res.Ok (Convert.VInt z) -> "ok int " ^ dec_of_z z
  | Res.Ok (Convert.VDec d) -> "ok dec " ^ tok_of_dec d
  | Res.Err Convert.FormatError -> "err format"
  | Res.Crash -> "crash" | Res.OutOfFuel -> "fuel"
let semi t = Stdlib.String.split_on_char ';' t
let attrs_of f mn mx st = { ConvertHist.a_fmt = fmt_of f; a_min = opt_dec mn; a_max = opt_dec mx; a_step = opt_dec st }
let char_of t = match semi t with
  | [k; iid; f; mn; mx; st] ->
      (n_of_dec k, { ConvertHist.c_iid = n_of_dec iid; c_attrs = attrs_of f mn mx st; c_reported = None })
  | _ -> failwith "char"
let entry_of t = match Stdlib.String.split_on_char '=' t with
  | [k; r; s] -> (n_of_dec k, (str_of s, reading_of r))
  | _ -> failwith "entry"
let op_of t = match semi t with
  | ["D"; k; f; mn; mx; st] -> ConvertHist.Declare (n_of_dec k, attrs_of f mn mx st)
  | ["R"; k; r] -> ConvertHist.Report (n_of_dec k, reading_of r)
  | "P" :: es -> ConvertHist.Prepare (Stdlib.List.map entry_of es)
  | _ -> failwith "op"
let out_str = function
  | Res.Ok l -> Stdlib.String.concat "|" ("ok" :: Stdlib.List.map (fun ((a, i), v) ->
      dec_of_n a ^ "/" ^ dec_of_n i ^ "/" ^ (match v with Convert.VInt z -> "int/" ^ dec_of_z z
                                                        | Convert.VDec d -> "dec/" ^ tok_of_dec d)) l)
  | Res.Err Convert.FormatError -> "err"
  | Res.Crash -> "crash" | Res.OutOfFuel -> "fuel"
let rec take n l = if n = 0 then ([], l) else match l with [] -> failwith "take" | x :: r -> let (a, b) = take (n - 1) r in (x :: a, b)
let handle = function
  | "hist" :: aid :: n :: rest ->
      let (cs, ops) = take (int_of_string n) rest in
      let outs = ConvertHist.run (n_of_dec aid) (Stdlib.List.map char_of cs) (Stdlib.List.map op_of ops) in
      if outs = [] then "none" else Stdlib.String.concat " " (Stdlib.List.map out_str outs)
  | ["cv"; f; mn; mx; st; r; s] ->
      res_str (Convert.check_convert (fmt_of f) (opt_dec mn) (opt_dec mx) (opt_dec st) (str_of s) (reading_of r))
  | "op" :: name :: prec :: mode :: args ->
      let cx = { Convert.cprec = n_of_dec prec; crnd = mode_of mode } in
      (let o = function None -> "none" | Some d -> "dec " ^ tok_of_dec d in
       match name, args with
       | "add", [a; b] -> o (Convert.daddb cx (dec_of_tok a) (dec_of_tok b))
       | "sub", [a; b] -> o (Convert.dsubb cx (dec_of_tok a) (dec_of_tok b))
       | "mul", [a; b] -> o (Convert.dmulb cx (dec_of_tok a) (dec_of_tok b))
       | "div", [a; b] -> o (Convert.ddivb cx (dec_of_tok a) (dec_of_tok b))
       | "fix", [a] -> o (Convert.dfixb cx (dec_of_tok a))
       | "toint", [a] -> "dec " ^ tok_of_dec (Convert.to_integral_f (mode_of mode) (dec_of_tok a))
       | "cmp", [a; b] -> (match Convert.dcmp (dec_of_tok a) (dec_of_tok b) with
                           | Lt -> "cmp lt" | Eq -> "cmp eq" | Gt -> "cmp gt")
       | "int", [a] -> "int " ^ dec_of_z (Convert.dec_to_Z_f (dec_of_tok a))
       | _ -> "bad-request")
  | _ -> "bad-request"
let () = main_loop handle
