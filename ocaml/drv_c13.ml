(* C13 driver: tsc / fcl / ipget / ipput / coapread / coapput / bleput *)
open Drv
let z_of s = z_of_int (int_of_string s)
let n_of s = n_of_int (int_of_string s)
let opt f s = if s = "-" then None else Some (f s)
let cid_of s = match Stdlib.String.split_on_char '.' s with
  | [a; i] -> (n_of a, n_of i) | _ -> failwith "cid"
let cids_of s = if s = "-" then [] else Stdlib.List.map cid_of (Stdlib.String.split_on_char ',' s)
let req_of s = match Stdlib.String.split_on_char '=' s with
  | [k; v] -> (cid_of k, z_of v) | _ -> failwith "req"
let reqs_of s = if s = "-" then [] else Stdlib.List.map req_of (Stdlib.String.split_on_char ',' s)
let entry_of s =
  if s = "M" then CharIO.Malformed else
  match Stdlib.String.split_on_char ':' s with
  | ["E"; a; i; st; v] -> CharIO.Entry (n_of a, n_of i, opt z_of st, opt z_of v)
  | _ -> failwith "entry"
let pdures_of s =
  let body = Stdlib.String.sub s 1 (Stdlib.String.length s - 1) in
  if s.[0] = 'B' then CharIO.PBytes (z_of body) else CharIO.PStatus (n_of body)
let s_cid (a, i) = Printf.sprintf "%d.%d" (int_of_n a) (int_of_n i)
let s_optz = function None -> "-" | Some z -> string_of_int (int_of_z z)
let s_descr = function
  | CharIO.DCode c -> "c" ^ string_of_int (int_of_z c)
  | CharIO.DUnknownWith s -> "u" ^ string_of_int (int_of_z s)
  | CharIO.DPdu n -> "p" ^ string_of_int (int_of_n n)
let s_rres (k, r) =
  Printf.sprintf "%s:%s:%s:%s" (s_cid k) (s_optz r.CharIO.rr_status)
    (match r.CharIO.rr_descr with None -> "-" | Some d -> s_descr d) (s_optz r.CharIO.rr_value)
let s_wres (k, (s, d)) = Printf.sprintf "%s:%d:%s" (s_cid k) (int_of_z s) (s_descr d)
let s_lu (k, v) = Printf.sprintf "%s=%d" (s_cid k) (int_of_z v)
let join f l = Stdlib.String.concat " " (Stdlib.List.map f l)
let rd_of s = let l = cids_of s in fun k -> Stdlib.List.mem k l
let res_read = function
  | Res.Ok d -> Stdlib.String.trim ("ok " ^ join s_rres d)
  | Res.Err _ -> "err" | Res.Crash -> "crash" | Res.OutOfFuel -> "fuel"
let res_write = function
  | Res.Ok (rs, lu) -> Stdlib.String.trim (Printf.sprintf "ok R %s L %s" (join s_wres rs) (join s_lu lu))
  | Res.Err _ -> "err" | Res.Crash -> "crash" | Res.OutOfFuel -> "fuel"
let bitem_of s = match Stdlib.String.split_on_char '/' s with
  | [kv; s1; s2] -> let (k, v) = req_of kv in
      { CharIO.b_key = k; CharIO.b_val = v; CharIO.b_s1 = n_of s1; CharIO.b_s2 = n_of s2 }
  | _ -> failwith "bitem"
let handle = function
  | ["tsc"; s] -> string_of_int (int_of_z (CharIO.to_status_code (z_of s)))
  | "fcl" :: g :: req :: es ->
      res_read (Res.Ok (CharIO.format_characteristic_list (opt z_of g) (Stdlib.List.map entry_of es) (cids_of req)))
  | "ipget" :: g :: req :: es ->
      res_read (Res.Ok (CharIO.ip_get (cids_of req) (opt z_of g) (Stdlib.List.map entry_of es)))
  | "ipput" :: mode :: reqs :: rd :: code :: es ->
      let reply = (match code with
        | "204" -> CharIO.W204 | "nolist" -> CharIO.WNoList
        | "207" -> CharIO.W207 (Stdlib.List.map entry_of es) | _ -> failwith "code") in
      let f = if mode = "u" then CharIO.ip_put_unrepaired else CharIO.ip_put in
      res_write (f (rd_of rd) (reqs_of reqs) reply)
  | "coapread" :: ids :: rs -> res_read (CharIO.coap_read (cids_of ids) (Stdlib.List.map pdures_of rs))
  | "coapput" :: reqs :: rd :: rs ->
      res_write (CharIO.coap_put (rd_of rd) (reqs_of reqs) (Stdlib.List.map pdures_of rs))
  | ["bleput"; items; perms] ->
      let ps = if perms = "-" then [] else
        Stdlib.List.map (fun t -> match Stdlib.String.split_on_char ':' t with
          | [i; p; r] -> (n_of i, ((match p with "t" -> CharIO.BTimed | "w" -> CharIO.BWrite | _ -> CharIO.BReadOnly), r = "1"))
          | _ -> failwith "perm") (Stdlib.String.split_on_char ',' perms) in
      let perm i = (try fst (Stdlib.List.assoc i ps) with Not_found -> CharIO.BReadOnly) in
      let rd i = (try snd (Stdlib.List.assoc i ps) with Not_found -> false) in
      let its = if items = "-" then [] else Stdlib.List.map bitem_of (Stdlib.String.split_on_char ',' items) in
      let (ns, out) = CharIO.ble_put perm rd its in
      Stdlib.String.trim (Printf.sprintf "N %s ; %s" (join s_lu ns)
        (match out with
         | Res.Ok rs -> Stdlib.String.trim ("ok " ^ join s_wres rs)
         | Res.Err n -> "err " ^ string_of_int (int_of_n n)
         | Res.Crash -> "crash" | Res.OutOfFuel -> "fuel"))
  | _ -> "bad-request"
let () = main_loop handle
