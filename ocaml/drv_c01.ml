(* C01 driver.  One request per line:
     pv <tr> <acc_id hex> <ltpk msg> <ios_id hex> <ltsk n> <eph n> <rs_sid msg|-> <rs_secret msg|->
        <ac_id hex> <ac_ltsk n> <ac_eph n> <ctrl_id hex> <ctrl_ltpk msg> <sess_sid msg|-> <sess_secret msg|-> <new_sid msg>
        <m2 reply|honest> <m4 reply|honest>
   Term syntax (no blanks):  msg = [e;e;...]   e = x<hex> | pub(n) | sig(n,msg) | aead(msg,msg,msg,msg)
     | dh(n,msg) | hkdf(msg,msg,msg,n) | hash(msg) | tlv(n,msg) | junk(n,n)
     | srpA(n) | srpB(n,msg,msg) | srpkc(msg,msg,n,msg) | srpks(msg,msg,n,msg)
   reply = . | t=msg|t=msg|...
   Answer: m1=<plain|resume> acc=<verify|resumed|rejected> m2spec=<0|1> result=<done|fail:<class>|unsupported>
           m3acc=<0|1|-> keys=<0|1|-> *)
open Drv
open Sym

exception Parse of string

(* ---- term parser ---- *)
let parse_msg (s : string) : msg =
  let n = Stdlib.String.length s in
  let pos = ref 0 in
  let peek () = if !pos < n then s.[!pos] else '\000' in
  let eat c = if peek () = c then incr pos else raise (Parse (Printf.sprintf "expected %c at %d in %s" c !pos s)) in
  let ident () =
    let st = !pos in
    while (let c = peek () in (c >= 'a' && c <= 'z') || (c >= 'A' && c <= 'Z')) do incr pos done;
    Stdlib.String.sub s st (!pos - st) in
  let number () =
    let st = !pos in
    while (let c = peek () in c >= '0' && c <= '9') do incr pos done;
    if !pos = st then raise (Parse "number");
    n_of_dec (Stdlib.String.sub s st (!pos - st)) in
  let hex () =
    let st = !pos in
    while (let c = peek () in (c >= '0' && c <= '9') || (c >= 'a' && c <= 'f')) do incr pos done;
    let h = Stdlib.String.sub s st (!pos - st) in
    Stdlib.List.map (fun b -> AByte b) (bytes_of_hex (if h = "" then "-" else h)) in
  let rec msg () : msg =
    eat '[';
    if peek () = ']' then (incr pos; [])
    else begin
      let acc = ref (elem ()) in
      while peek () = ';' do incr pos; acc := !acc @ elem () done;
      eat ']'; !acc
    end
  and elem () : msg =
    if peek () = 'x' then (incr pos; hex ())
    else begin
      let id = ident () in
      eat '(';
      let r = (match id with
        | "pub" -> let k = number () in [APub k]
        | "sig" -> let k = number () in eat ','; let m = msg () in [ASig (k, m)]
        | "aead" -> let k = msg () in eat ','; let nn = msg () in eat ','; let a = msg () in eat ',';
                    let p = msg () in [AAead (k, nn, a, p)]
        | "dh" -> let a = number () in eat ','; let p = msg () in s_dh a p
        | "hkdf" -> let i = msg () in eat ','; let sl = msg () in eat ','; let f = msg () in eat ',';
                    let l = number () in [AHkdf (i, sl, f, l)]
        | "hash" -> let m = msg () in [AHash m]
        | "tlv" -> let t = number () in eat ','; let v = msg () in [ATlv (t, v)]
        | "junk" -> let i = number () in eat ','; let l = number () in [AJunk (i, l)]
        | "srpA" -> let a = number () in [ASrpA a]
        | "srpB" -> let b = number () in eat ','; let c = msg () in eat ','; let sl = msg () in [ASrpB (b, c, sl)]
        | "srpkc" -> let c = msg () in eat ','; let sl = msg () in eat ','; let a = number () in eat ',';
                     let bb = msg () in srp_kc c sl a bb
        | "srpks" -> let c = msg () in eat ','; let sl = msg () in eat ','; let b = number () in eat ',';
                     let aa = msg () in srp_ks c sl b aa
        | _ -> raise (Parse ("unknown constructor " ^ id))) in
      eat ')'; r
    end in
  let m = msg () in
  if !pos <> n then raise (Parse ("trailing input in " ^ s));
  m

let parse_reply (s : string) : sitem list =
  if s = "." then [] else
  Stdlib.List.map (fun it ->
      match Stdlib.String.index_opt it '=' with
      | Some i -> (n_of_dec (Stdlib.String.sub it 0 i),
                   parse_msg (Stdlib.String.sub it (i + 1) (Stdlib.String.length it - i - 1)))
      | None -> raise (Parse ("item " ^ it)))
    (Stdlib.String.split_on_char '|' s)

let opt_msg s = if s = "-" then None else Some (parse_msg s)
let tr_of = function "ip" -> TIP | "ble" -> TBLE | "coap" -> TCOAP | s -> raise (Parse ("transport " ^ s))

let fail_str = function
  | FInvalid -> "invalid" | FErr _ -> "error-item" | FAuthTag -> "authtag" | FParse -> "parse"
  | FWrongId -> "wrongid" | FSig -> "signature" | FProof -> "proof" | FCrash -> "crash"

let rec items_eq (a : sitem list) (b : sitem list) : bool =
  match a, b with
  | [], [] -> true
  | (k, v) :: r, (k', v') :: s -> k = k' && msg_eqb v v' && items_eq r s
  | _, _ -> false

let ob = function None -> "-" | Some true -> "1" | Some false -> "0"

let handle = function
  | ["pv"; tr; acc_id; ltpk; ios_id; ltsk; eph; rs_sid; rs_secret;
     ac_id; ac_ltsk; ac_eph; ctrl_id; ctrl_ltpk; ss_sid; ss_secret; new_sid; m2; m4] ->
      let tr = tr_of tr in
      let pd = { Verify.pd_acc_id = bytes_of_hex acc_id; pd_acc_ltpk = parse_msg ltpk;
                 pd_ios_id = bytes_of_hex ios_id; pd_ios_ltsk = n_of_dec ltsk } in
      let eph = n_of_dec eph in
      let rs = (match opt_msg rs_sid, opt_msg rs_secret with
                | Some a, Some b -> Some { Verify.rs_sid = a; rs_secret = b } | _ -> None) in
      let a = { Verify.ac_id = bytes_of_hex ac_id; ac_ltsk = n_of_dec ac_ltsk; ac_eph = n_of_dec ac_eph;
                ac_ctrl_id = bytes_of_hex ctrl_id; ac_ctrl_ltpk = parse_msg ctrl_ltpk;
                ac_session = (match opt_msg ss_sid, opt_msg ss_secret with
                              | Some x, Some y -> Some { Verify.rs_sid = x; rs_secret = y } | _ -> None);
                ac_new_sid = parse_msg new_sid } in
      let m2x = if m2 = "honest" then None else Some (parse_reply m2) in
      let m4x = if m4 = "honest" then None else Some (parse_reply m4) in
      let t = Verify.pv_exchange tr pd eph rs a m2x m4x in
      let m1 = if items_eq t.Verify.tr_m1 (Verify.m1_plain eph) then "plain" else "resume" in
      let accst = (match snd (Verify.acc_m2 a t.Verify.tr_m1) with
                   | Verify.AVerify _ -> "verify" | Verify.AResumed _ -> "resumed" | Verify.ARejected -> "rejected") in
      let m2spec = (match m2x with None -> "1" | Some x -> if items_eq x t.Verify.tr_m2_spec then "1" else "0") in
      let res = (match t.Verify.tr_result with
                 | Verify.PDone _ -> "done" | Verify.PFail f -> "fail:" ^ fail_str f
                 | Verify.PSend _ -> "send" | Verify.PUnsupported -> "unsupported") in
      Printf.sprintf "m1=%s acc=%s m2spec=%s result=%s m3acc=%s keys=%s" m1 accst m2spec res
        (ob t.Verify.tr_m3_accepted) (ob t.Verify.tr_keys_agree)
  | "hist" :: tr :: acc_id :: ltpk :: ios_id :: ltsk :: events ->
      (* hist <tr> <acc_id hex> <ltpk msg> <ios_id hex> <ltsk n> <event>...
         event = V:<eph n>:<m2 reply>:<m4 reply> | D | R
         answer, one word per event:  <live 0|1>,<k>,<r>  where k (r) = position of the first state of this
         history that already held these installed keys (this resumable secret), or - when there are none *)
      let tr = tr_of tr in
      let pd = { Verify.pd_acc_id = bytes_of_hex acc_id; pd_acc_ltpk = parse_msg ltpk;
                 pd_ios_id = bytes_of_hex ios_id; pd_ios_ltsk = n_of_dec ltsk } in
      let ev_of tok =
        if tok = "D" then VerifyHist.EDrop else if tok = "R" then VerifyHist.EReset else
        (match Stdlib.String.split_on_char ':' tok with
         | ["V"; eph; m2; m4] -> VerifyHist.EVerify (n_of_dec eph, parse_reply m2, parse_reply m4)
         | _ -> raise (Parse ("event " ^ tok))) in
      let evs = Array.of_list (Stdlib.List.map ev_of events) in
      let states = VerifyHist.g_trace tr pd VerifyHist.g_init (Array.to_list evs) in
      let arr = Array.of_list states in
      let first_idx pred i =
        let r = ref (-1) in
        for j = i downto 0 do if pred arr.(j) then r := j done;
        if !r < 0 then "-" else string_of_int !r in
      let word i st =
        let k = (match st.VerifyHist.gs_keys with
                 | None -> "-"
                 | Some ks -> first_idx (fun s -> match s.VerifyHist.gs_keys with
                                                  | Some x -> Verify.keys_eqb x ks | None -> false) i) in
        let r = (match st.VerifyHist.gs_resume with
                 | None -> "-"
                 | Some rs -> first_idx (fun s -> match s.VerifyHist.gs_resume with
                                                  | Some x -> msg_eqb x.Verify.rs_secret rs.Verify.rs_secret
                                                  | None -> false) i) in
        (* f = is a session reported WHILE this attempt is in flight (Model/VerifyConn.g_inflight of the state before) *)
        let prev = if i = 0 then VerifyHist.g_init else arr.(i - 1) in
        let f = (match evs.(i) with
                 | VerifyHist.EVerify _ -> if (VerifyConn.g_inflight tr prev).VerifyHist.gs_live then "1" else "0"
                 | _ -> "-") in
        Printf.sprintf "%s,%s,%s,%s" (if st.VerifyHist.gs_live then "1" else "0") k r f in
      if states = [] then "." else
      Stdlib.String.concat " " (Stdlib.List.mapi word states)
  | "conn" :: tr :: acc_id :: ltpk :: ios_id :: ltsk :: events ->
      (* conn <tr> <acc_id hex> <ltpk msg> <ios_id hex> <ltsk n> <event>...   (Model/VerifyConn.v)
         event = C:<eph n>:<m2 reply>:<m4 reply> | E | R
         answer, one word per event:  <live>,<k>,<r>,<ran>,<f>,<link>,<klink>
           k / r as for hist; ran = did the entry point run pair-verify (- for E / R); f = live while in flight
           (- when no attempt ran); link = number of the current link; klink = link the keys were proved on *)
      let tr = tr_of tr in
      let pd = { Verify.pd_acc_id = bytes_of_hex acc_id; pd_acc_ltpk = parse_msg ltpk;
                 pd_ios_id = bytes_of_hex ios_id; pd_ios_ltsk = n_of_dec ltsk } in
      let ev_of tok =
        if tok = "E" then VerifyConn.CEnd else if tok = "R" then VerifyConn.CReset else
        (match Stdlib.String.split_on_char ':' tok with
         | ["C"; eph; m2; m4] -> VerifyConn.CConnect (n_of_dec eph, parse_reply m2, parse_reply m4)
         | _ -> raise (Parse ("event " ^ tok))) in
      let evs = Array.of_list (Stdlib.List.map ev_of events) in
      let states = VerifyConn.c_trace tr pd VerifyConn.c_init (Array.to_list evs) in
      let arr = Array.of_list states in
      let g c = c.VerifyConn.c_g in
      let first_idx pred i =
        let r = ref (-1) in
        for j = i downto 0 do if pred (g arr.(j)) then r := j done;
        if !r < 0 then "-" else string_of_int !r in
      let nat_str n = string_of_int (int_of_nat n) in
      let word i c =
        let st = g c in
        let k = (match st.VerifyHist.gs_keys with
                 | None -> "-"
                 | Some ks -> first_idx (fun s -> match s.VerifyHist.gs_keys with
                                                  | Some x -> Verify.keys_eqb x ks | None -> false) i) in
        let r = (match st.VerifyHist.gs_resume with
                 | None -> "-"
                 | Some rs -> first_idx (fun s -> match s.VerifyHist.gs_resume with
                                                  | Some x -> msg_eqb x.Verify.rs_secret rs.Verify.rs_secret
                                                  | None -> false) i) in
        let prev = if i = 0 then VerifyHist.g_init else g arr.(i - 1) in
        let ran, f = (match evs.(i) with
                      | VerifyConn.CConnect _ ->
                          if VerifyConn.g_needs_verify tr prev
                          then "1", (if (VerifyConn.g_inflight tr prev).VerifyHist.gs_live then "1" else "0")
                          else "0", "-"
                      | _ -> "-", "-") in
        Printf.sprintf "%s,%s,%s,%s,%s,%s,%s" (if st.VerifyHist.gs_live then "1" else "0") k r ran f
          (nat_str c.VerifyConn.c_link)
          (match c.VerifyConn.c_klink with None -> "-" | Some n -> nat_str n) in
      if states = [] then "." else
      Stdlib.String.concat " " (Stdlib.List.mapi word states)
  | _ -> "bad-request"

let () = main_loop handle
