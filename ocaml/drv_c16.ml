(* C16 driver: wf / fits / enc / spec / dec / arr / items / utf8 over a textual
   schema + value syntax (one token each, no blanks):
     ty  ::= u8|u16|bu16|u32|u64|u128 | e(d,d,...) | s | b | S[tag:ty;...] | Q[tag:ty;...] | P<kind> | x
     val ::= i<dec> | h<hex or -> | V[oval;...] | L[V[..];...] | I(d,d,...)      oval ::= _ | val *)
open Drv
open Tlv8

exception Parse of string

let parse_all (f : string -> int ref -> 'a) (s : string) : 'a =
  let p = ref 0 in
  let r = f s p in
  if !p <> Stdlib.String.length s then raise (Parse ("trailing input at " ^ string_of_int !p)) else r

let peek s p = if !p < Stdlib.String.length s then s.[!p] else '\000'
let expect s p c = if peek s p = c then incr p else raise (Parse (Printf.sprintf "expected %c at %d" c !p))
let take_while s p f =
  let st = !p in
  while !p < Stdlib.String.length s && f s.[!p] do incr p done;
  Stdlib.String.sub s st (!p - st)
let is_digit c = c >= '0' && c <= '9'
let is_hex c = is_digit c || (c >= 'a' && c <= 'f')
let number s p = let d = take_while s p is_digit in if d = "" then raise (Parse "number") else n_of_dec d

let sep_list s p close sepc (elem : unit -> 'a) : 'a list =
  if peek s p = close then (incr p; []) else begin
    let acc = ref [elem ()] in
    while peek s p = sepc do incr p; acc := elem () :: !acc done;
    expect s p close; Stdlib.List.rev !acc
  end

let kind_of = function
  | "u8" -> U8 | "u16" -> U16 | "bu16" -> BU16 | "u32" -> U32 | "u64" -> U64 | "u128" -> U128
  | k -> raise (Parse ("kind " ^ k))
let is_kindc c = is_digit c || c = 'u' || c = 'b'

let rec ty_p s p : ty =
  match peek s p with
  | 'e' -> incr p; expect s p '('; TEnum (sep_list s p ')' ',' (fun () -> number s p))
  | 's' -> incr p; TStr
  | 'x' -> incr p; TUnsupp
  | 'S' -> incr p; expect s p '['; TStruct (fields_p s p)
  | 'Q' -> incr p; expect s p '['; TSeq (fields_p s p)
  | 'P' -> incr p; TSeqInt (kind_of (take_while s p is_kindc))
  | 'b' when not (!p + 1 < Stdlib.String.length s && s.[!p + 1] = 'u') -> incr p; TBytes
  | _ -> TInt (kind_of (take_while s p is_kindc))
and fields_p s p = sep_list s p ']' ';' (fun () -> let t = number s p in expect s p ':'; let ft = ty_p s p in (t, ft))

let rec val_p s p : coq_val =
  match peek s p with
  | 'i' -> incr p; VInt (number s p)
  | 'h' -> incr p; if peek s p = '-' then (incr p; VB []) else VB (bytes_of_hex (take_while s p is_hex))
  | 'V' -> incr p; expect s p '['; VStruct (ovals_p s p)
  | 'L' -> incr p; expect s p '[';
      VSeq (sep_list s p ']' ';' (fun () -> expect s p 'V'; expect s p '['; ovals_p s p))
  | 'I' -> incr p; expect s p '('; VIds (sep_list s p ')' ',' (fun () -> number s p))
  | c -> raise (Parse (Printf.sprintf "value at %d (%c)" !p c))
and ovals_p s p = sep_list s p ']' ';' (fun () -> if peek s p = '_' then (incr p; None) else Some (val_p s p))

let rec val_str (v : coq_val) : string =
  match v with
  | VInt n -> "i" ^ dec_of_n n
  | VB b -> "h" ^ hex_of_bytes b
  | VStruct vs -> "V[" ^ ovals_str vs ^ "]"
  | VSeq l -> "L[" ^ Stdlib.String.concat ";" (Stdlib.List.map (fun vs -> "V[" ^ ovals_str vs ^ "]") l) ^ "]"
  | VIds l -> "I(" ^ Stdlib.String.concat "," (Stdlib.List.map dec_of_n l) ^ ")"
and ovals_str vs =
  Stdlib.String.concat ";" (Stdlib.List.map (function None -> "_" | Some v -> val_str v) vs)

let err_str = function EParse -> "parse" | ESerialize -> "serialize" | ERange -> "range" | EValue -> "value" | EAttr -> "attr"
let res_str (f : 'a -> string) = function
  | Res.Ok x -> "ok " ^ f x | Res.Err e -> "err " ^ err_str e | Res.Crash -> "crash" | Res.OutOfFuel -> "fuel"
let fin_str = function FinOk -> "end" | FinCrash -> "crash" | FinFuel -> "fuel"
let bool_str b = if b then "true" else "false"

(* ---- secondary codec of characteristic signatures (Model/Tlv8Sig.v) ---- *)
open Tlv8Sig
let optb = function "_" -> None | h -> Some (bytes_of_hex h)
let optn = function "_" -> None | d -> Some (n_of_dec d)
let sval_str = function
  | SInt z -> "i" ^ dec_of_z z | SBool b -> if b then "b1" else "b0"
  | SText b -> "t" ^ hex_of_bytes b | SHex b -> "x" ^ hex_of_bytes b | SRaw b -> "r" ^ hex_of_bytes b
  | SFloat b -> "f" ^ hex_of_bytes b | SNone -> "n"
let sval_of (s : string) : sval =
  let rest = Stdlib.String.sub s 1 (Stdlib.String.length s - 1) in
  match s.[0] with
  | 'i' -> SInt (z_of_dec rest) | 'b' -> SBool (rest = "1") | 't' -> SText (bytes_of_hex rest)
  | 'x' -> SHex (bytes_of_hex rest) | 'r' -> SRaw (bytes_of_hex rest) | 'f' -> SFloat (bytes_of_hex rest)
  | 'n' -> SNone | _ -> raise (Parse "sval")
let perm_str = function PR -> "pr" | PW -> "pw" | EV -> "ev" | AA -> "aa" | TW -> "tw" | HD -> "hd"
let fname_str = function FBool -> "bool" | FUint8 -> "uint8" | FUint16 -> "uint16" | FUint32 -> "uint32" | FUint64 -> "uint64"
  | FInt -> "int" | FFloat -> "float" | FString -> "string" | FData -> "data"
let uname_str = function UCelsius -> "celsius" | UArcdegrees -> "arcdegrees" | UPercentage -> "percentage" | ULux -> "lux" | USeconds -> "seconds"
let opt f = function None -> "_" | Some x -> f x
let sigout_str (o : sigout) : string =
  Printf.sprintf "type=%s iid=%s perms=%s bcast=%d disc=%d format=%s unit=%s value=%s minstep=%s minmax=%s"
    (dec_of_n o.o_type) (opt dec_of_n o.o_iid)
    (Stdlib.String.concat "," (Stdlib.List.map perm_str o.o_perms))
    (if o.o_bcast then 1 else 0) (if o.o_disc then 1 else 0)
    (opt fname_str o.o_format) (opt uname_str o.o_unit) (opt sval_str o.o_value) (opt sval_str o.o_minstep)
    (opt (fun (a, b) -> sval_str a ^ "/" ^ sval_str b) o.o_minmax)
let variant_of = function "ble" -> Ble | "coap" -> Coap | _ -> raise (Parse "variant")

let handle = function
  | ["sig"; v; ty; iid; props; pf; range; step; raw] ->
      res_str sigout_str (to_dict (variant_of v)
        { s_type = n_of_dec ty; s_iid = optn iid; s_props = n_of_dec props; s_pf = optb pf;
          s_range = optb range; s_step = optb step; s_raw = optb raw })
  | ["unpack"; fmt; h] -> res_str sval_str (unpack_value (optn fmt) (bytes_of_hex h))
  | ["pack"; fmt; x] -> res_str hex_of_bytes (pack_value (optn fmt) (sval_of x))
  | ["good"; ids] ->
      bool_str (Tlv8Exact.sequ16_good
                  (if ids = "-" then [] else Stdlib.List.map n_of_dec (Stdlib.String.split_on_char ',' ids)))
  | ["wf"; t] -> bool_str (wf_schema (parse_all ty_p t))
  | ["fits"; t; v] -> bool_str (fits_msg (parse_all ty_p t) (parse_all val_p v))
  | ["enc"; t; v] -> res_str hex_of_bytes (tlv8_encode (parse_all ty_p t) (parse_all val_p v))
  | ["spec"; t; v] -> "ok " ^ hex_of_bytes (tlv8_spec (parse_all ty_p t) (parse_all val_p v))
  | ["dec"; t; h] -> res_str val_str (tlv8_decode (parse_all ty_p t) (bytes_of_hex h))
  | ["arr"; h] ->
      let (l, e) = tlv8_array (bytes_of_hex h) in
      Stdlib.String.concat " " (Stdlib.List.map hex_of_bytes l @ [fin_str e])
  | ["items"; h] ->
      let (l, e) = tlv8_items (bytes_of_hex h) in
      Stdlib.String.concat " "
        (Stdlib.List.map (fun (k, v) -> string_of_int (int_of_n k) ^ ":" ^ hex_of_bytes v) l @ [fin_str e])
  | ["utf8"; h] -> bool_str (utf8_valid (bytes_of_hex h))
  | _ -> "bad-request"
let () = main_loop handle
