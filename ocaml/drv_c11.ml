(* C10/C11 driver: "run <hosts> <subs> <dials> <verifies> <controls> <end>" -> flags + JSON trace
   verifies: comma separated kind:delta[:vdelay] (vdelay = ticks until the decisive pair-verify answer) *)
open Drv
open Reconnect
let sl = Stdlib.List.map
let split c s = if s = "-" || s = "" then [] else Stdlib.String.split_on_char c s
let dial_of = function
  | "r" -> DRefused | "h" -> DHang
  | s -> DConnect (nat_of_int (int_of_string (Stdlib.String.sub s 1 (Stdlib.String.length s - 1))))
let vk_of = function
  | "ok" -> VOk | "wrongid" -> VWrongId | "badtag" -> VBadTag | "badsig" -> VBadSig | "auth" -> VAuth
  | "invalid" -> VInvalid | "garbage" -> VGarbage | "peerclose" -> VPeerClose | "peerreset" -> VPeerReset
  | "http4xx" -> VHttp4xx | "okfin" -> VOkFin | "okrst" -> VOkRst | "okbad" -> VOkBad
  | _ -> failwith "vkind"
let vk_s = function
  | VOk -> "ok" | VWrongId -> "wrongid" | VBadTag -> "badtag" | VBadSig -> "badsig" | VAuth -> "auth"
  | VInvalid -> "invalid" | VGarbage -> "garbage" | VPeerClose -> "peerclose" | VPeerReset -> "peerreset"
  | VHttp4xx -> "http4xx" | VOkFin -> "okfin" | VOkRst -> "okrst" | VOkBad -> "okbad"
let verif_of s = match Stdlib.String.split_on_char ':' s with
  | [k; d] -> ((vk_of k, n_of_dec d), n_of_dec "0")
  | [k; d; v] -> ((vk_of k, n_of_dec d), n_of_dec v) | _ -> failwith "verif"
let control_of s = match Stdlib.String.split_on_char ':' s with
  | [t; k; a] ->
      let c = (match k with
        | "ensure" -> Ensure (nat_of_int (int_of_string a))
        | "cancel" -> Cancel (nat_of_int (int_of_string a))
        | "zeroconf" -> Zeroconf (sl (fun x -> nat_of_int (int_of_string x)) (split '+' a))
        | "soon" -> Soon
        | "drop" -> Drop (nat_of_int (int_of_string a))
        | "dropreset" -> DropReset (nat_of_int (int_of_string a))
        | "close" -> Close | "shutdown" -> Shutdown
        | "badreply" -> BadReply (nat_of_int (int_of_string a)) | _ -> failwith "control") in
      (n_of_dec t, c)
  | _ -> failwith "control"
let ints l = "[" ^ Stdlib.String.concat "," (sl (fun x -> string_of_int (int_of_nat x)) l) ^ "]"
let out_s = function OOk -> "ok" | ODisconnected -> "disconnected" | OAuth -> "auth" | OCancelled -> "cancelled"
let ev_json (t, e) =
  let t = dec_of_n t in
  match e with
  | EvControl c ->
      let (k, a) = (match c with
        | Ensure w -> ("ensure", string_of_int (int_of_nat w)) | Cancel w -> ("cancel", string_of_int (int_of_nat w))
        | Zeroconf hs -> ("zeroconf", ints hs) | Soon -> ("soon", "0")
        | Drop c -> ("drop", string_of_int (int_of_nat c)) | DropReset c -> ("dropreset", string_of_int (int_of_nat c))
        | Close -> ("close", "0") | Shutdown -> ("shutdown", "0")
        | BadReply v -> ("badreply", string_of_int (int_of_nat v))) in
      Printf.sprintf "[%s,\"control\",\"%s\",%s]" t k a
  | EvDial (cs, d) ->
      Printf.sprintf "[%s,\"dial\",%s,\"%s\"]" t (ints cs)
        (match d with DRefused -> "refused" | DHang -> "hang" | DConnect _ -> "connect")
  | EvOpened (c, h) -> Printf.sprintf "[%s,\"opened\",%d,%d]" t (int_of_nat c) (int_of_nat h)
  | EvVerify (c, k) -> Printf.sprintf "[%s,\"verify\",%d,\"%s\"]" t (int_of_nat c) (vk_s k)
  | EvClosed c -> Printf.sprintf "[%s,\"closed\",%d]" t (int_of_nat c)
  | EvWaiter (w, o) -> Printf.sprintf "[%s,\"waiter\",%d,\"%s\"]" t (int_of_nat w) (out_s o)
  | EvReturned sh -> Printf.sprintf "[%s,\"returned\",\"%s\",\"ok\"]" t (if sh then "shutdown" else "close")
  | EvSnap (fin, o, c, n) ->
      Printf.sprintf "[%s,\"snap\",\"%s\",%s,%s,%d]" t (if fin then "end" else "pre") (ints o)
        (if c then "true" else "false") (int_of_nat n)
let handle = function
  | ["run"; hosts; subs; dials; verifs; controls; end_] ->
      let n = int_of_string hosts in
      let hs = Stdlib.List.init n (fun i -> nat_of_int i) in
      let s = run hs (subs = "1") (sl dial_of (split ',' dials)) (sl verif_of (split ',' verifs))
                (sl control_of (split ',' controls)) (n_of_dec end_) in
      Printf.sprintf "tie=%d fuel=%d [%s]" (if s.tie then 1 else 0) (if s.fuel_out || s.adv_out then 1 else 0)
        (Stdlib.String.concat "," (sl ev_json (Stdlib.List.rev s.trace)))
  | _ -> "bad-request"
let () = main_loop handle
