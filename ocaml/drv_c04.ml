(* C04 driver.
   step  <F|U> <S2|S4|S6|V2|V4> <srp> <m6plain> <m6sig> <derive> <rplain> <v2plain> <v2sig> <pid> <reply-hex>
   sitems      <S2|S4|S6|V2|V4> <srp> <m6plain> <m6sig> <derive> <rplain> <v2plain> <v2sig> <pid> <k:hex>...
   mgmt  <ipadd|iprem|bleadd|blerem> <reply-hex>
   mitems <op> <k:hex>...
   bstep <S2..V4> <8 oracle tokens> <status:bodyhex>...   the BLE exchanges of the reply under test
   bmgmt <bleadd|blerem> <status:bodyhex>
   bretry <bleadd|blerem> <D | status:bodyhex>...     one call: link drops (D) and the answered transaction
   code <hex>            -> error_handler class and documented class
   booleans are 0/1, optional plaintexts are N (None) or hex ("-" = empty) *)
open Drv
let item_of_tok t = match Stdlib.String.split_on_char ':' t with
  | [k; h] -> (n_of_int (int_of_string k), bytes_of_hex h)
  | _ -> failwith "item"
let cls = function
  | Steps.EAuthentication -> "Authentication" | Steps.EBackoff -> "Backoff" | Steps.EMaxPeers -> "MaxPeers"
  | Steps.EMaxTries -> "MaxTries" | Steps.EUnavailable -> "Unavailable" | Steps.EBusy -> "Busy"
  | Steps.EInvalid -> "Invalid" | Steps.EUnknown -> "Unknown" | Steps.EIllegalData -> "IllegalData"
  | Steps.EInvalidAuthTag -> "InvalidAuthTag" | Steps.EIncorrectPairingId -> "IncorrectPairingId"
  | Steps.EInvalidSignature -> "InvalidSignature" | Steps.EParse -> "Parse" | Steps.EPduStatus -> "PduStatus"
let step_of = function
  | "S2" -> Steps.SetupM2 | "S4" -> Steps.SetupM4 | "S6" -> Steps.SetupM6
  | "V2" -> Steps.VerifyM2 | "V4" -> Steps.VerifyM4 | _ -> failwith "step"
let op_of = function
  | "ipadd" -> Steps.IpAdd | "iprem" -> Steps.IpRemove | "bleadd" -> Steps.BleAdd | "blerem" -> Steps.BleRemove
  | _ -> failwith "op"
let b = function "1" -> true | "0" -> false | _ -> failwith "bool"
let opt = function "N" -> None | h -> Some (bytes_of_hex h)
let oracles srp m6p m6s der rp v2p v2s pid =
  { Steps.o_srp_proof_ok = b srp; o_m6_plain = opt m6p; o_m6_sig_ok = b m6s; o_derive_given = b der;
    o_resume_plain = opt rp; o_v2_plain = opt v2p; o_v2_sig_ok = b v2s; o_pairing_id = bytes_of_hex pid }
let outcome = function
  | Res.Ok (Steps.PSaltKey (s, k)) -> "ok saltkey " ^ hex_of_bytes s ^ " " ^ hex_of_bytes k
  | Res.Ok Steps.PContinue -> "ok cont"
  | Res.Ok (Steps.PPairing (i, k)) -> "ok pairing " ^ hex_of_bytes i ^ " " ^ hex_of_bytes k
  | Res.Ok Steps.PResumed -> "ok resumed"
  | Res.Ok Steps.PKeys -> "ok keys"
  | Res.Err e -> "err " ^ cls e | Res.Crash -> "crash" | Res.OutOfFuel -> "fuel"
let mres = function
  | Res.Ok Steps.MDone -> "ok done" | Res.Err e -> "err " ^ cls e | Res.Crash -> "crash" | Res.OutOfFuel -> "fuel"
let handle = function
  | ["step"; t; s; srp; m6p; m6s; der; rp; v2p; v2s; pid; h] ->
      let tr = (match t with "F" -> Steps.Filtered | "U" -> Steps.Unfiltered | _ -> failwith "transport") in
      outcome (Steps.step_wire tr (step_of s) (oracles srp m6p m6s der rp v2p v2s pid) (bytes_of_hex h))
  | "sitems" :: s :: srp :: m6p :: m6s :: der :: rp :: v2p :: v2s :: pid :: items ->
      outcome (Steps.step_items (step_of s) (oracles srp m6p m6s der rp v2p v2s pid) (Stdlib.List.map item_of_tok items))
  | "bstep" :: s :: srp :: m6p :: m6s :: der :: rp :: v2p :: v2s :: pid :: xs ->
      outcome (StepsBle.step_ble (step_of s) (oracles srp m6p m6s der rp v2p v2s pid) (Stdlib.List.map item_of_tok xs))
  | "bretry" :: op :: evs ->
      let ev = function "D" -> None | t -> Some (item_of_tok t) in
      mres (StepsBle.mgmt_ble_retry (StepsBle.ble_attempts (op_of op)) (op_of op) (Stdlib.List.map ev evs))
  | ["bmgmt"; op; x] -> mres (StepsBle.mgmt_ble (op_of op) (item_of_tok x))
  | ["mgmt"; op; h] -> mres (Steps.mgmt_wire (op_of op) (bytes_of_hex h))
  | "mitems" :: op :: items -> mres (Steps.mgmt_items (op_of op) (Stdlib.List.map item_of_tok items))
  | ["code"; h] -> cls (Steps.error_handler (bytes_of_hex h)) ^ " " ^ cls (Steps.documented_class (bytes_of_hex h))
  | _ -> "bad-request"
let () = main_loop handle
