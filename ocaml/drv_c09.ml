(* C09 driver: sess / req / reqj / gen / conn / parse / jprint / scan / url / purl / get / put / sub / getk / putk / subk *)
open Drv
module R = Request

let meth_of = function "GET" -> R.GET | "PUT" -> R.PUT | "POST" -> R.POST | _ -> failwith "meth"
let meth_str = function R.GET -> "GET" | R.PUT -> "PUT" | R.POST -> "POST"
let body_of kind h = match kind with
  | "none" -> None
  | "json" -> Some (R.CtJson, bytes_of_hex h)
  | "tlv" -> Some (R.CtTlv, bytes_of_hex h)
  | _ -> failwith "kind"
let ct_of = function "json" -> R.CtJson | "tlv" -> R.CtTlv | _ -> failwith "ct"

(* JSON tokens: n t f i<dec> s<hex> a<count> o<count>(key-hex value)* *)
let rec json_of (toks : string list) : R.json * string list =
  match toks with
  | [] -> failwith "json: eof"
  | t :: rest ->
    let arg = Stdlib.String.sub t 1 (Stdlib.String.length t - 1) in
    (match t.[0] with
     | 'n' -> (R.JNull, rest)
     | 't' -> (R.JBool true, rest)
     | 'f' -> (R.JBool false, rest)
     | 'i' -> (R.JInt (z_of_dec arg), rest)
     | 's' -> (R.JStr (bytes_of_hex arg), rest)
     | 'a' ->
       let n = int_of_string arg in
       let rec go k acc rest = if k = 0 then (Stdlib.List.rev acc, rest) else
           let (v, rest') = json_of rest in go (k - 1) (v :: acc) rest' in
       let (l, rest') = go n [] rest in (R.JArr l, rest')
     | 'o' ->
       let n = int_of_string arg in
       let rec go k acc rest = if k = 0 then (Stdlib.List.rev acc, rest) else
           (match rest with
            | key :: rest1 -> let (v, rest2) = json_of rest1 in go (k - 1) ((bytes_of_hex key, v) :: acc) rest2
            | [] -> failwith "json: key") in
       let (l, rest') = go n [] rest in (R.JObj l, rest')
     | _ -> failwith "json: tag")

let id_of tok = match Stdlib.String.split_on_char '.' tok with
  | [a; i] -> (z_of_dec a, z_of_dec i) | _ -> failwith "id"
let id_str (a, i) = dec_of_z a ^ "." ^ dec_of_z i
let sst_str = function None -> "ws" | Some R.Out -> "out" | Some R.InS -> "ins" | Some R.InEsc -> "esc"

(* argument kinds of the pairing API (Model/RequestArgs.v): re = re-iterable, one = one-shot *)
module A = RequestArgs
let iter_of kind items =
  { A.it_kind = (match kind with "re" -> A.Reiterable | "one" -> A.OneShot | _ -> failwith "kind"); A.it_items = items }
let reqs_str rs = Stdlib.String.concat " " ("ok" :: Stdlib.List.map (fun r -> hex_of_bytes (R.render_req r)) rs)
let rec writes_of k acc rest = if k = 0 then Stdlib.List.rev acc else
    (match rest with
     | a :: i :: rest1 -> let (v, rest2) = json_of rest1 in writes_of (k - 1) (((z_of_dec a, z_of_dec i), v) :: acc) rest2
     | _ -> failwith "writes")

let handle = function
  | "getk" :: kind :: h :: ids ->
    reqs_str (A.pairing_get_characteristics (bytes_of_hex h) (iter_of kind (Stdlib.List.map id_of ids)))
  | "putk" :: kind :: h :: n :: rest ->
    reqs_str (A.pairing_put_characteristics (bytes_of_hex h) (iter_of kind (writes_of (int_of_string n) [] rest)))
  | "subk" :: kind :: h :: ev :: ids ->
    reqs_str (A.pairing_update_subscriptions (bytes_of_hex h) (ev = "1") (iter_of kind (Stdlib.List.map id_of ids)))
  | ["req"; m; t; h; kind; b] ->
    "ok " ^ hex_of_bytes (R.render_req { R.r_meth = meth_of m; R.r_target = bytes_of_hex t;
                                          R.r_host = bytes_of_hex h; R.r_body = body_of kind b })
  | "reqj" :: m :: t :: h :: toks ->
    let (v, _) = json_of toks in
    "ok " ^ hex_of_bytes (R.render_req { R.r_meth = meth_of m; R.r_target = bytes_of_hex t;
                                          R.r_host = bytes_of_hex h; R.r_body = Some (R.CtJson, R.jprint v) })
  | "gen" :: m :: t :: h :: b :: hdrs ->
    let hs = Stdlib.List.map (fun kv -> match Stdlib.String.split_on_char ':' kv with
        | [k; v] -> (bytes_of_hex k, bytes_of_hex v) | _ -> failwith "hdr") hdrs in
    "ok " ^ hex_of_bytes (R.render (bytes_of_hex m) (bytes_of_hex t) hs (bytes_of_hex b) (bytes_of_hex h))
  | ["conn"; "get"; h; t] -> "ok " ^ hex_of_bytes (R.conn_get (bytes_of_hex h) (bytes_of_hex t))
  | ["conn"; "put"; h; t; ct; b] -> "ok " ^ hex_of_bytes (R.conn_put (bytes_of_hex h) (bytes_of_hex t) (bytes_of_hex b) (ct_of ct))
  | ["conn"; "post"; h; t; ct; b] -> "ok " ^ hex_of_bytes (R.conn_post (bytes_of_hex h) (bytes_of_hex t) (bytes_of_hex b) (ct_of ct))
  | ["parse"; h] ->
    (match R.parse_req (bytes_of_hex h) with
     | None -> "none"
     | Some r ->
       let (kind, body) = match r.R.r_body with
         | None -> ("none", [])
         | Some (R.CtJson, b) -> ("json", b)
         | Some (R.CtTlv, b) -> ("tlv", b) in
       Printf.sprintf "some %s %s %s %s %s" (meth_str r.R.r_meth) (hex_of_bytes r.R.r_target)
         (hex_of_bytes r.R.r_host) kind (hex_of_bytes body))
  | "jprint" :: toks ->
    let (v, _) = json_of toks in
    let out = R.jprint v in
    let ok = (match R.dump_bytes v with Res.Ok b -> if b = out then "ok" else "differs" | _ -> "err") in
    Printf.sprintf "ok %s %s %s" (hex_of_bytes out) (sst_str (R.scan R.Out out)) ok
  | ["scan"; h] -> sst_str (R.scan R.Out (bytes_of_hex h))
  | "url" :: ids ->
    let l = Stdlib.List.map id_of ids in
    let u = R.read_url l in
    "ok " ^ hex_of_bytes u ^ (match R.parse_read_url u with Some l' when l' = l -> " back" | _ -> " noback")
  | ["purl"; h] ->
    (match R.parse_read_url (bytes_of_hex h) with
     | None -> "none"
     | Some l -> Stdlib.String.concat " " ("some" :: Stdlib.List.map id_str l))
  | "get" :: h :: ids ->
    "ok " ^ hex_of_bytes (R.render_req (R.api_get_characteristics (bytes_of_hex h) (Stdlib.List.map id_of ids)))
  | "put" :: h :: n :: rest ->
    let n = int_of_string n in
    let rec go k acc rest = if k = 0 then Stdlib.List.rev acc else
        (match rest with
         | a :: i :: rest1 -> let (v, rest2) = json_of rest1 in go (k - 1) (((z_of_dec a, z_of_dec i), v) :: acc) rest2
         | _ -> failwith "put") in
    "ok " ^ hex_of_bytes (R.render_req (R.api_put_characteristics (bytes_of_hex h) (go n [] rest)))
  | "sub" :: h :: ev :: ids ->
    let rs = R.api_update_subscriptions (bytes_of_hex h) (ev = "1") (Stdlib.List.map id_of ids) in
    Stdlib.String.concat " " ("ok" :: Stdlib.List.map (fun r -> hex_of_bytes (R.render_req r)) rs)
  | "sess" :: evs ->
    (* events: C:<host> S L X R:<METH>:<target>:<kind>:<body>; one answer token per request:
       raise | call:<payload>:<ctr before>:<chunk,chunk,...>; last token ctr:<final counter> *)
    let module S = RequestSession in
    let f1024 = nat_of_int 1024 in
    let ev_of tok = match Stdlib.String.split_on_char ':' tok with
      | ["C"; h] -> S.EConnect (bytes_of_hex h)
      | ["S"] -> S.ESecure | ["L"] -> S.ELost | ["X"] -> S.EClose
      | ["R"; m; t; kind; b] -> S.EReq (meth_of m, bytes_of_hex t, body_of kind b)
      | _ -> failwith "ev" in
    let st = ref S.conn_init and out = ref [] in
    Stdlib.List.iter (fun tok ->
        let before = !st.S.c_ctr in
        let (st', obs) = S.step f1024 S.seal_id !st (ev_of tok) in
        st := st';
        Stdlib.List.iter (function
            | S.ORaise -> out := "raise" :: !out
            | S.OCall (p, chunks) ->
              out := (Printf.sprintf "call:%s:%s:%s" (hex_of_bytes p) (dec_of_n before)
                        (Stdlib.String.concat "," (Stdlib.List.map hex_of_bytes chunks))) :: !out) obs) evs;
    Stdlib.String.concat " " (Stdlib.List.rev (("ctr:" ^ dec_of_n !st.S.c_ctr) :: !out))
  | _ -> "bad-request"
let () = main_loop handle
