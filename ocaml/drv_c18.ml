(* C18 driver.  One request per line:
     hist P:<id>:<key|->:<sn|->:<persisted sn|->:<iid.fmt,...|->:<sig 0|1> ...
          A:<hdr>:<body> | R:<id>:<sn> (regular adv) | O:<id>:<sn> (populate) | U:<id>:<sn> (_update_state_num) | X (restart) | K:<id>:<key> (key regeneration)
          | EB:<id>:<g> (connected event up to the key request) | EE:<id>:<g>:<key|fail> (its completion)
          | LB:<id> (poll starts) | LE:<id>:<n|fail> (poll ends)
          | DB:<id>:<iid.fmt,...|->:<sig 0|1>:<keep 0|1> (database replaced) | RL:<id> (pairing loaded again)
          | CB:<id>:<sn> (regular adv with a higher c#: re-read starts) | CE:<id>:<iid.fmt,...|->:<sig>:<g> (re-read done)
          | I:<id> (initially: the controller holds a discovery for id) ...
   body = S.<key>.<ctr>.<aad>.<pt> | J | H.<n,n,...|-> | E
   answer: one token per event  <outcome>/<calls|->/<sn,sn,...>/<psn,psn,...>/<fb 0|1>/<key,key,...>  (description / persisted number and key of every pairing, - = None; fb = falls_back)
     val <fmt> <hex>      -> from_bytes on its own *)
open Drv
let split c s = Stdlib.String.split_on_char c s
let opt_n s = if s = "-" then None else Some (n_of_dec s)
let fmt_of = function
  | "bool" -> Bcast.FBool | "u8" -> Bcast.FU8 | "u16" -> Bcast.FU16 | "u32" -> Bcast.FU32
  | "u64" -> Bcast.FU64 | "int" -> Bcast.FInt | "float" -> Bcast.FFloat | "string" -> Bcast.FString
  | "other" -> Bcast.FOther | s -> failwith ("fmt " ^ s)
let chars_of s = if s = "-" then [] else
  Stdlib.List.map (fun t -> match split '.' t with [i; f] -> (n_of_dec i, fmt_of f) | _ -> failwith "char") (split ',' s)
let pairing_of t = match split ':' t with
  | ["P"; id; k; sn; psn; cs; sg] -> { Bcast.p_id = bytes_of_hex id; p_key = opt_n k; p_sn = opt_n sn; p_psn = opt_n psn; p_chars = chars_of cs; p_sig = (sg = "1") }
  | _ -> failwith "pairing"
let body_of s = match split '.' s with
  | ["S"; k; ctr; aad; pt] -> Bcast.PSeal (n_of_dec k, n_of_dec ctr, bytes_of_hex aad, bytes_of_hex pt)
  | ["J"] -> Bcast.PJunk
  | ["H"; l] -> Bcast.PShort (if l = "-" then [] else Stdlib.List.map n_of_dec (split ',' l))
  | ["E"] -> Bcast.PEmpty
  | _ -> failwith "body"
let val_str = function
  | Bcast.VBool b -> if b then "b1" else "b0"
  | Bcast.VInt z -> "i" ^ dec_of_z z
  | Bcast.VFloat n -> "f" ^ dec_of_n n
  | Bcast.VStr s -> "s" ^ hex_of_bytes s
  | Bcast.VHex s -> "x" ^ hex_of_bytes s
let ck_str = function Bcast.CkStruct -> "struct" | Bcast.CkUnicode -> "unicode" | Bcast.CkNoChar -> "nochar"
let out_str = function
  | Bcast.ONotApple -> "notapple" | Bcast.OOtherType -> "othertype" | Bcast.ONoPairing -> "nopairing"
  | Bcast.ONoKey -> "nokey" | Bcast.ONoDesc -> "nodesc" | Bcast.ONoDecrypt -> "nodecrypt"
  | Bcast.OStale -> "stale" | Bcast.OMismatch -> "mismatch" | Bcast.OAccepted -> "accepted"
  | Bcast.OUndelivered k -> "undelivered-" ^ ck_str k
let call_str (((id, aid), iid), v) = hex_of_bytes id ^ "." ^ dec_of_n aid ^ "." ^ dec_of_n iid ^ "." ^ val_str v
let calls_str l = if l = [] then "-" else Stdlib.String.concat "+" (Stdlib.List.map call_str l)
let sns_str c = Stdlib.String.concat "," (Stdlib.List.map (fun p -> match p.Bcast.p_sn with None -> "-" | Some n -> dec_of_n n) c)
let psns_str c = Stdlib.String.concat "," (Stdlib.List.map (fun p -> match p.Bcast.p_psn with None -> "-" | Some n -> dec_of_n n) c)
let keys_str c = Stdlib.String.concat "," (Stdlib.List.map (fun p -> match p.Bcast.p_key with None -> "-" | Some n -> dec_of_n n) c)
let handle = function
  | "hist" :: toks ->
      let ps = Stdlib.List.filter (fun t -> t.[0] = 'P') toks in
      let is_init t = Stdlib.String.length t > 2 && t.[0] = 'I' && t.[1] = ':' in
      let inits = Stdlib.List.filter is_init toks in
      let evs = Stdlib.List.filter (fun t -> t.[0] <> 'P' && not (is_init t)) toks in
      let st = ref { BcastDb.x_c = Stdlib.List.map pairing_of ps;
                     x_disc = Stdlib.List.map (fun t -> bytes_of_hex (Stdlib.String.sub t 2 (Stdlib.String.length t - 2))) inits } in
      let xo l = Stdlib.List.map (fun o -> BcastDb.XOp o) l in
      let outs = Stdlib.List.map (fun t ->
        let ops = match split ':' t with
          | ["A"; hdr; body] -> xo [Bcast.OAdv (bytes_of_hex hdr, body_of body)]
          | ["R"; id; sn] -> xo [Bcast.OPlain (bytes_of_hex id, n_of_dec sn)]
          | ["O"; id; sn] -> xo [Bcast.OPopulate (bytes_of_hex id, n_of_dec sn)]
          | ["U"; id; sn] -> xo [Bcast.OUpdate (bytes_of_hex id, n_of_dec sn)]
          | ["X"] -> xo [Bcast.ORestart]
          | ["K"; id; k] -> xo [Bcast.OSetKey (bytes_of_hex id, n_of_dec k)]
          | ["EB"; id; g] -> xo (Bcast.event_begin (bytes_of_hex id) (n_of_dec g))
          | ["EE"; id; g; r] -> xo (Bcast.event_end (bytes_of_hex id) (n_of_dec g)
                                  (if r = "fail" then Bcast.ReqFail else Bcast.ReqOk (n_of_dec r)))
          | ["LB"; id] -> xo (Bcast.poll_begin (bytes_of_hex id))
          | ["LE"; id; r] -> xo (Bcast.poll_end (bytes_of_hex id) (if r = "fail" then Bcast.PollFail else Bcast.PollOk (n_of_dec r)))
          | ["DB"; id; cs; sg; keep] -> [BcastDb.XDb (bytes_of_hex id, chars_of cs, sg = "1", keep = "1")]
          | ["RL"; id] -> [BcastDb.XReload (bytes_of_hex id)]
          | ["CB"; id; sn] -> BcastDb.cfg_begin (bytes_of_hex id) (n_of_dec sn)
          | ["CE"; id; cs; sg; g] -> BcastDb.cfg_end (bytes_of_hex id) (chars_of cs) (sg = "1") (n_of_dec g)
          | _ -> failwith "event" in
        let last = ref None in
        Stdlib.List.iter (fun op -> let ((st', o), cl) = BcastDb.xapply !st op in st := st'; last := Some (op, o, cl)) ops;
        let c = ref (!st).BcastDb.x_c in
        (match !last with
         | Some (BcastDb.XOp (Bcast.OAdv _), o, cl) ->
             out_str o ^ "/" ^ calls_str cl ^ "/" ^ sns_str !c ^ "/" ^ psns_str !c ^ "/" ^ (if Bcast.falls_back o then "1" else "0") ^ "/" ^ keys_str !c
         | _ -> "op/-/" ^ sns_str !c ^ "/" ^ psns_str !c ^ "/0/" ^ keys_str !c)) evs in
      if outs = [] then "." else Stdlib.String.concat " " outs
  | ["val"; f; h] ->
      (match Bcast.from_bytes (fmt_of f) (bytes_of_hex h) with
       | Datatypes.Coq_inl k -> "crash-" ^ ck_str k
       | Datatypes.Coq_inr v -> val_str v)
  | _ -> "bad-request"
let () = main_loop handle
