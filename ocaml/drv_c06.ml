(* C06 driver.  Request: "<ip|ble|coap> <event> <event> ..." with events
     S<n>.<cont>  SX<n>.<cont>  W<n>.<cont>.<j>  N  N4  NB  R<i>  O<i>  F<k>  C  X  T  D  RC  RD  LD  EN  ER<i>  EF<k>  EC
   (RC and RD are both Reconnect: the model gives every new pair-verify, resumed or full, a new epoch)
   Answer: "seal=e.d.n,...;wire=...;open=e.d.n.ok,...;acc=...;out=e.id.class,..."
   (logs oldest first; out sorted by request number) *)
open Drv
open Counters
let num s from = nat_of_int (int_of_string (Stdlib.String.sub s from (Stdlib.String.length s - from)))
let ev_of_tok t =
  let len = Stdlib.String.length t in
  if t = "N" then Next else if t = "N4" then Next404 else if t = "NB" then NextBad else if t = "C" then Corrupt else if t = "X" then Cancel
  else if t = "T" then Timeout else if t = "D" then Disconnect else if t = "RC" || t = "RD" then Reconnect else if t = "LD" then LateDisc
  else if t = "EN" then ENext else if t = "EC" then ECorrupt
  else if len > 2 && Stdlib.String.sub t 0 2 = "ER" then EReplay (num t 2)
  else if len > 2 && Stdlib.String.sub t 0 2 = "EF" then EFuture (num t 2)
  else if len > 2 && Stdlib.String.sub t 0 2 = "SX" then
    (match Stdlib.String.split_on_char '.' (Stdlib.String.sub t 2 (len - 2)) with
     | n :: _ -> SendX (nat_of_int (int_of_string n))
     | _ -> failwith "sendx")
  else if t.[0] = 'S' then
    (match Stdlib.String.split_on_char '.' (Stdlib.String.sub t 1 (len - 1)) with
     | [n; c] -> Send (nat_of_int (int_of_string n), nat_of_int (int_of_string c))
     | _ -> failwith "send")
  else if t.[0] = 'W' then
    (match Stdlib.String.split_on_char '.' (Stdlib.String.sub t 1 (len - 1)) with
     | [n; c; j] -> SendW (nat_of_int (int_of_string n), nat_of_int (int_of_string c), nat_of_int (int_of_string j))
     | _ -> failwith "sendw")
  else if t.[0] = 'R' then Replay (num t 1)
  else if t.[0] = 'O' then ReplayOld (num t 1)
  else if t.[0] = 'F' then Future (num t 1)
  else failwith ("event " ^ t)
let dir_str = function C2A -> "c" | A2C -> "a" | EVT -> "e"
let nid_str ((e, d), n) = Printf.sprintf "%d.%s.%d" (int_of_nat e) (dir_str d) (int_of_nat n)
let cls_str = function ROk -> "ok" | RFail -> "fail" | RCancel -> "cancel" | RCrash -> "crash"
let join f l = Stdlib.String.concat "," (Stdlib.List.map f l)
let logs_str l =
  let outs = Stdlib.List.sort (fun ((_, a), _) ((_, b), _) -> compare (int_of_nat a) (int_of_nat b)) (l_out l) in
  Printf.sprintf "seal=%s;wire=%s;open=%s;acc=%s;out=%s"
    (join nid_str (l_seal l)) (join nid_str (l_wire l))
    (join (fun (x, ok) -> nid_str x ^ "." ^ (if ok then "1" else "0")) (l_open l))
    (join nid_str (l_acc l))
    (join (fun ((e, id), c) -> Printf.sprintf "%d.%d.%s" (int_of_nat e) (int_of_nat id) (cls_str c)) outs)
let handle = function
  | "ip" :: evs -> logs_str (i_log (ip_run ip_init (Stdlib.List.map ev_of_tok evs)))
  | "ble" :: evs -> logs_str (b_log (ble_run ble_init (Stdlib.List.map ev_of_tok evs)))
  | "coap" :: evs -> logs_str (c_log (coap_run coap_init (Stdlib.List.map ev_of_tok evs)))
  | _ -> "bad-request"
let () = main_loop handle
