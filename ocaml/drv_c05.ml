(* C05 driver.
   sends <ctr0> <payload> ...            fold ip_send over the payloads, counter threaded
       -> per payload "ok <ctr'> <prefix>:<nonce>:<ctr>:<aad>:<chunk> ..." joined by " | ";
          "crash" ends the answer (Python raised before writing anything)
   feed <ctr0> <buf0> <n> <nonce>:<aad>:<ct>:<pt> x n  <seg> ...
       open = exactly the n table entries, anything else -> None
       -> per segment "<L|D>/<pt>,<pt>,..." ("." when nothing was delivered),
          then "live:<buf>:<ctr>" or "dead" *)
open Drv
(* faster hex codecs than the shared ones (streams here are megabytes): table driven *)
let byte_tab = Array.init 256 n_of_int
let nib c = match c with
  | '0'..'9' -> Char.code c - 48 | 'a'..'f' -> Char.code c - 87 | 'A'..'F' -> Char.code c - 55
  | _ -> failwith "hex"
let bytes_of_hex (h : string) =
  if h = "-" then [] else begin
    let n = Stdlib.String.length h / 2 in
    let r = ref [] in
    for i = n - 1 downto 0 do
      r := byte_tab.(nib h.[2 * i] * 16 + nib h.[2 * i + 1]) :: !r
    done; !r end
let hexdig = "0123456789abcdef"
let hex_of_bytes l =
  if l = [] then "-" else begin
    let b = Buffer.create 64 in
    Stdlib.List.iter (fun x -> let v = int_of_n x in
                       Buffer.add_char b hexdig.[(v lsr 4) land 15]; Buffer.add_char b hexdig.[v land 15]) l;
    Buffer.contents b end
let frame_str (f : Frame.sframe) =
  Stdlib.String.concat ":" [hex_of_bytes f.Frame.sf_prefix; hex_of_bytes f.Frame.sf_nonce;
                            dec_of_n f.Frame.sf_ctr; hex_of_bytes f.Frame.sf_aad; hex_of_bytes f.Frame.sf_chunk]
let rec sends ctr = function
  | [] -> []
  | p :: rest ->
    (match Frame.ip_send ctr (bytes_of_hex p) with
     | Res.Ok (fs, c') ->
       (Stdlib.String.concat " " (("ok " ^ dec_of_n c') :: Stdlib.List.map frame_str fs)) :: sends c' rest
     | Res.Crash -> ["crash"]
     | Res.Err _ -> ["err"]
     | Res.OutOfFuel -> ["fuel"])
let rec take n l = if n = 0 then ([], l) else match l with [] -> failwith "take" | x :: r -> let (a, b) = take (n - 1) r in (x :: a, b)
let handle = function
  | "sends" :: ctr :: payloads -> Stdlib.String.concat " | " (sends (n_of_dec ctr) payloads)
  | "feed" :: ctr :: buf0 :: n :: rest ->
    let (entries, segs) = take (int_of_string n) rest in
    let tbl = Hashtbl.create 16 in
    Stdlib.List.iter (fun e -> match Stdlib.String.split_on_char ':' e with
        | [no; aad; ct; pt] -> Hashtbl.replace tbl (no ^ ":" ^ aad ^ ":" ^ ct) (bytes_of_hex pt)
        | _ -> failwith "entry") entries;
    let opn no aad ct = Hashtbl.find_opt tbl (hex_of_bytes no ^ ":" ^ hex_of_bytes aad ^ ":" ^ hex_of_bytes ct) in
    let st = ref (Frame.Live (bytes_of_hex buf0, n_of_dec ctr)) in
    let outs = Stdlib.List.map (fun seg ->
        let (s', o) = Frame.ip_feed opn !st (bytes_of_hex seg) in
        st := s';
        (match s' with Frame.Dead -> "D" | Frame.Live _ -> "L") ^ "/" ^
        (if o = [] then "." else Stdlib.String.concat "," (Stdlib.List.map hex_of_bytes o))) segs in
    let fin = match !st with
      | Frame.Dead -> "dead"
      | Frame.Live (b, c) -> "live:" ^ hex_of_bytes b ^ ":" ^ dec_of_n c in
    Stdlib.String.concat " " (outs @ [fin])
  | "sess" :: rctr :: tctr :: n :: rest ->
    (* sess <a2c ctr> <c2a ctr> <n> <table entries> <op> ...   op = S:<payload> | R:<read> | C | P | U
       -> per op: w/<frame>,<frame>.. | x (raise) | r (refused) | d/<L|D>/<pt>,<pt>.. | c | n *)
    let (entries, ops) = take (int_of_string n) rest in
    let tbl = Hashtbl.create 16 in
    Stdlib.List.iter (fun e -> match Stdlib.String.split_on_char ':' e with
        | [no; aad; ct; pt] -> Hashtbl.replace tbl (no ^ ":" ^ aad ^ ":" ^ ct) (bytes_of_hex pt)
        | _ -> failwith "entry") entries;
    let opn no aad ct = Hashtbl.find_opt tbl (hex_of_bytes no ^ ":" ^ hex_of_bytes aad ^ ":" ^ hex_of_bytes ct) in
    let st = ref { Frame.s_rx = Frame.Live ([], n_of_dec rctr); Frame.s_tx = n_of_dec tctr } in
    let op_of tok =
      if tok = "C" then Frame.OCancel else if tok = "P" then Frame.OPause else if tok = "U" then Frame.OResume
      else match Stdlib.String.split_on_char ':' tok with
        | ["S"; h] -> Frame.OSend (bytes_of_hex h)
        | ["R"; h] -> Frame.ORecv (bytes_of_hex h)
        | _ -> failwith "op" in
    let outs = Stdlib.List.map (fun tok ->
        let (s', e) = Frame.ip_sess_step opn !st (op_of tok) in
        st := s';
        match e with
        | Frame.EWrote fs -> "w/" ^ (if fs = [] then "." else Stdlib.String.concat "," (Stdlib.List.map frame_str fs))
        | Frame.ERaise -> "x" | Frame.ERefused -> "r" | Frame.EClosed -> "c" | Frame.ENop -> "n"
        | Frame.EDeliv o ->
          "d/" ^ (match s'.Frame.s_rx with Frame.Dead -> "D" | Frame.Live _ -> "L") ^ "/" ^
          (if o = [] then "." else Stdlib.String.concat "," (Stdlib.List.map hex_of_bytes o))) ops in
    Stdlib.String.concat " " outs
  | _ -> "bad-request"
let () = main_loop handle
