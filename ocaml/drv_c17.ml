(* C17 driver.  Requests (one per line):
     enc  <fs> <op> <tid> <iid> <hexdata>                 -> ok f1 f2 .. | err value | crash
     wr   <p|t> <ctr> <fs> <op> <tid> <iid> <hexdata>     -> ok <ctr'> w1 w2 ..
     rd   <p|t> <ctr> <tid> f1 f2 ..                      -> ok <status> <body> <nleft> <ctr'> | err .. | crash
     acc  <p|t> <ctr> f1 f2 ..                            -> some <op> <tid> <iid> <body> | none
     swr  <p|t> <ctr> <mtu> <mwwr> <op> <tid> <iid> <hex>  -> like wr, fragment size from det_fs (16-byte overhead iff t)
     loop <p|t> <e> <d> fs:op:tid:iid:hex ..               -> ok e' d' a' b' st:body ..  (closed loop with demo_responder)
     fsz  <mtu> <mwwr> <overhead>                         -> det_fs
     cwr  <op> <0|1,..> <iid,..> <hex,..>                 -> ok <hex> | crash   (write batch, per-position "known" flags)
     cenc <op> <iid,iid,..|.> <hex,hex,..|.>              -> ok <hex> | crash
     cdec <start> <hex>                                   -> ok r1 r2 ..   (r = b:<hex> | s:<n>)
     cexit <all|err> <nids> r1 r2 ..                      -> ok k:r ..
     crd  <known iid,..|.> <aid:iid,..> r1 r2 ..           -> ok a.i=<s:n|r:hex|c<iid>:hex> .. | <iid>:hex ..  (entries | cache writes; dec = id)
     cparse <hex>                                         -> some op:tid:iid:hex .. | none *)
open Drv
let ni s = n_of_int (int_of_string s)
let err_str = function Pdu.ValueError -> "value" | Pdu.EncryptionError -> "enc" | Pdu.Starved -> "starved"
let res_str f = function
  | Res.Ok x -> "ok " ^ f x | Res.Err e -> "err " ^ err_str e
  | Res.Crash -> "crash" | Res.OutOfFuel -> "fuel"
let frs l = if l = [] then "." else Stdlib.String.concat " " (Stdlib.List.map hex_of_bytes l)
let seal_of = function "p" -> Pdu.seal_plain | _ -> Pdu.toy_seal
let open_of = function "p" -> Pdu.open_plain | _ -> Pdu.toy_open
let cres_str = function Pdu.CBody b -> "b:" ^ hex_of_bytes b | Pdu.CStatus s -> "s:" ^ string_of_int (int_of_n s)
let cres_of t = match Stdlib.String.split_on_char ':' t with
  | ["b"; h] -> Pdu.CBody (bytes_of_hex h) | ["s"; n] -> Pdu.CStatus (ni n) | _ -> failwith "cres"
let clist l = if l = [] then "." else Stdlib.String.concat " " l
let csv s = if s = "." then [] else Stdlib.String.split_on_char ',' s
let handle = function
  | ["enc"; fs; op; tid; iid; d] ->
      res_str frs (Pdu.ble_encode (nat_of_int (int_of_string fs)) (ni op) (ni tid) (ni iid) (bytes_of_hex d))
  | ["wr"; m; ctr; fs; op; tid; iid; d] ->
      res_str (fun (ws, c) -> dec_of_n c ^ " " ^ frs ws)
        (Pdu.ble_write (seal_of m) (n_of_dec ctr) (nat_of_int (int_of_string fs)) (ni op) (ni tid) (ni iid) (bytes_of_hex d))
  | ["swr"; m; ctr; mtu; mwwr; op; tid; iid; d] ->
      res_str (fun (ws, c) -> dec_of_n c ^ " " ^ frs ws)
        (Pdu.ble_session_write Pdu.toy_seal (m <> "p") (n_of_dec ctr) (nat_of_int (int_of_string mtu)) (nat_of_int (int_of_string mwwr))
           (ni op) (ni tid) (ni iid) (bytes_of_hex d))
  | ["cwr"; op; flags; iids; datas] ->
      res_str hex_of_bytes (Pdu.coap_write_batch (Stdlib.List.map (fun f -> f = "1") (csv flags)) (ni op)
                              (Stdlib.List.map ni (csv iids)) (Stdlib.List.map bytes_of_hex (csv datas)))
  | "loop" :: m :: e :: d :: steps ->
      let rq t = match Stdlib.String.split_on_char ':' t with
        | [fs; op; tid; iid; h] -> ((((nat_of_int (int_of_string fs), ni op), ni tid), ni iid), bytes_of_hex h)
        | _ -> failwith "step" in
      let st = (n_of_dec e, n_of_dec d) in
      res_str (fun ((outs, (e', d')), (a', b')) ->
          Printf.sprintf "%s %s %s %s %s" (dec_of_n e') (dec_of_n d') (dec_of_n a') (dec_of_n b')
            (clist (Stdlib.List.map (fun (stt, body) -> string_of_int (int_of_n stt) ^ ":" ^ hex_of_bytes body) outs)))
        (Pdu.ble_loop (seal_of m) (open_of m) (seal_of m) (open_of m) Pdu.demo_responder st st (Stdlib.List.map rq steps))
  | ["fsz"; mtu; mwwr; ov] ->
      string_of_int (int_of_nat (Pdu.det_fs (nat_of_int (int_of_string mtu)) (nat_of_int (int_of_string mwwr)) (nat_of_int (int_of_string ov))))
  | "rd" :: m :: ctr :: tid :: fr ->
      res_str (fun (((st, body), rest), c) ->
          Printf.sprintf "%d %s %d %s" (int_of_n st) (hex_of_bytes body) (Stdlib.List.length rest) (dec_of_n c))
        (Pdu.read_pdu (open_of m) (n_of_dec ctr) (ni tid) (Stdlib.List.map bytes_of_hex fr))
  | "acc" :: m :: ctr :: fr ->
      (match Pdu.open_seq (open_of m) (n_of_dec ctr) (Stdlib.List.map bytes_of_hex fr) with
       | None -> "none"
       | Some ps ->
         (match Pdu.acc_reassemble ps with
          | None -> "none"
          | Some (((op, t), i), b) ->
              Printf.sprintf "some %d %d %d %s" (int_of_n op) (int_of_n t) (int_of_n i) (hex_of_bytes b)))
  | ["cenc"; op; iids; datas] ->
      res_str hex_of_bytes (Pdu.coap_encode_all (ni op) (Stdlib.List.map ni (csv iids)) (Stdlib.List.map bytes_of_hex (csv datas)))
  | ["cdec"; start; h] ->
      res_str (fun l -> clist (Stdlib.List.map cres_str l)) (Pdu.coap_decode_all (ni start) (bytes_of_hex h))
  | "cexit" :: mode :: nids :: rs ->
      let ids = Stdlib.List.init (int_of_string nids) n_of_int in
      let rs = Stdlib.List.map cres_of rs in
      res_str (fun l -> clist (Stdlib.List.map (fun (k, r) -> string_of_int (int_of_n k) ^ "=" ^ cres_str r) l))
        (if mode = "all" then Pdu.coap_exit_all ids rs else Pdu.coap_exit_errors ids rs)
  | "crd" :: known :: ids :: rs ->
      let kn = Stdlib.List.map ni (csv known) in
      let idl = Stdlib.List.map (fun t -> match Stdlib.String.split_on_char ':' t with
          | [a; i] -> (ni a, ni i) | _ -> failwith "id") (csv ids) in
      let rv = function Pdu.RStatus s2 -> "s:" ^ string_of_int (int_of_n s2) | Pdu.RRaw b -> "r:" ^ hex_of_bytes b
                      | Pdu.RConv (i, b) -> "c" ^ string_of_int (int_of_n i) ^ ":" ^ hex_of_bytes b in
      res_str (fun (entries, writes) ->
          clist (Stdlib.List.map (fun ((a, i), v) -> Printf.sprintf "%d.%d=%s" (int_of_n a) (int_of_n i) (rv v)) entries)
          ^ " | " ^ clist (Stdlib.List.map (fun (i, b) -> string_of_int (int_of_n i) ^ ":" ^ hex_of_bytes b) writes))
        (Pdu.coap_read_exit (fun b -> b) (fun i -> Stdlib.List.mem i kn) idl (Stdlib.List.map cres_of rs))
  | ["cparse"; h] ->
      let d = bytes_of_hex h in
      (match Pdu.coap_acc_parse (nat_of_int (Stdlib.List.length d + 1)) d with
       | None -> "none"
       | Some l -> "some " ^ clist (Stdlib.List.map (fun (((op, t), i), b) ->
             Printf.sprintf "%d:%d:%d:%s" (int_of_n op) (int_of_n t) (int_of_n i) (hex_of_bytes b)) l))
  | _ -> "bad-request"
let () = main_loop handle
