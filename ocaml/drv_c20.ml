(* C20 driver.
   sim <target> <old-hex|!> <new-hex> <nnames> <inits|.> <op> <op> ...
       inits:  name:hex;name:hex          (files present and durable before the save)
       ops:    T.h.f  A.h.f  W.h.hex  S.h  C.h  R.a.b  U.a
     answer: one entry per crash point n = 0..len(ops) and view v in {a(ll), l(ossy)}:
       n;v;class;name=content,name=content   separated by '|'
       content = hex when <= 2048 bytes, else #<len>.<adler32>
   rec ... : record-level serialisers (see below) *)
open BinNums
open Datatypes
open Drv
open Persist

let split c s = Stdlib.String.split_on_char c s

let op_of_tok t =
  match split '.' t with
  | ["T"; h; f] -> OpenTrunc (n_of_int (int_of_string h), n_of_int (int_of_string f))
  | ["A"; h; f] -> OpenAppend (n_of_int (int_of_string h), n_of_int (int_of_string f))
  | ["W"; h; x] -> Write (n_of_int (int_of_string h), bytes_of_hex x)
  | ["S"; h] -> Fsync (n_of_int (int_of_string h))
  | ["C"; h] -> Close (n_of_int (int_of_string h))
  | ["R"; a; b] -> Rename (n_of_int (int_of_string a), n_of_int (int_of_string b))
  | ["U"; a] -> Unlink (n_of_int (int_of_string a))
  | _ -> failwith ("op " ^ t)

let empty_fs = { names = (fun _ -> None); content = (fun _ -> []); synced = (fun _ -> O);
                 handles = (fun _ -> None); fresh = n_of_int 0 }

let adler32 (l : coq_N list) : int =
  let a = ref 1 and b = ref 0 in
  Stdlib.List.iter (fun x -> a := (!a + int_of_n x) mod 65521; b := (!b + !a) mod 65521) l;
  (!b lsl 16) lor !a

let show_content (l : coq_N list) : string =
  let n = Stdlib.List.length l in
  if n <= 2048 then hex_of_bytes l else Printf.sprintf "#%d.%d" n (adler32 l)

let class_str = function
  | CMissing -> "missing" | COld -> "old" | CNew -> "new" | CPrefixNew -> "prefix" | COther -> "other"

let sim target old nw nnames inits ops =
  let target = n_of_int (int_of_string target) in
  let old = if old = "!" then None else Some (bytes_of_hex old) in
  let nw = bytes_of_hex nw in
  let nnames = int_of_string nnames in
  let h0 = n_of_int 1000 in
  let init_ops =
    if inits = "." then [] else
    Stdlib.List.concat_map (fun t -> match split ':' t with
      | [nm; hx] -> [OpenTrunc (h0, n_of_int (int_of_string nm)); Write (h0, bytes_of_hex hx); Fsync h0; Close h0]
      | _ -> if Stdlib.String.contains t '=' then [] else failwith "init") (split ';' inits) in
  let st0 = run init_ops empty_fs in
  (* name=other : a symlink to an existing file, modelled as a second name of the same inode *)
  let st0 = if inits = "." then st0 else
    Stdlib.List.fold_left (fun st t -> match split '=' t with
      | [nm; other] when not (Stdlib.String.contains t ':') ->
        { st with names = upd st.names (n_of_int (int_of_string nm)) (st.names (n_of_int (int_of_string other))) }
      | _ -> st) st0 (split ';' inits) in
  let ops = Stdlib.List.map op_of_tok ops in
  let nops = Stdlib.List.length ops in
  let out = Buffer.create 4096 in
  for n = 0 to nops do
    let st = crash_after (nat_of_int n) ops st0 in
    Stdlib.List.iter (fun (vn, view) ->
      let v = view st in
      let cls = classify old nw (read v target) in
      let listing = ref [] in
      for k = nnames - 1 downto 0 do
        match read v (n_of_int k) with
        | Some c -> listing := (string_of_int k ^ "=" ^ show_content c) :: !listing
        | None -> ()
      done;
      if Buffer.length out > 0 then Buffer.add_char out '|';
      Buffer.add_string out (Printf.sprintf "%d;%s;%s;%s" n vn (class_str cls) (Stdlib.String.concat "," !listing)))
      [("a", view_all); ("l", view_lossy)]
  done;
  Buffer.contents out

(* the model's own procedures, for the cross-check that the observed operation list is one of them *)
let proc kind h t f chunks =
  let h = n_of_int (int_of_string h) and t = n_of_int (int_of_string t) and f = n_of_int (int_of_string f) in
  let cs = Stdlib.List.map bytes_of_hex chunks in
  let ops = match kind with
    | "inplace" -> save_inplace h f cs
    | "atomic" -> save_atomic h t f cs
    | "nofsync" -> save_atomic_nofsync h t f cs
    | _ -> failwith "kind" in
  let i x = string_of_int (int_of_n x) in
  Stdlib.String.concat " " (Stdlib.List.map (function
    | OpenTrunc (h, f) -> "T." ^ i h ^ "." ^ i f
    | OpenAppend (h, f) -> "A." ^ i h ^ "." ^ i f
    | Write (h, b) -> "W." ^ i h ^ "." ^ hex_of_bytes b
    | Fsync h -> "S." ^ i h
    | Close h -> "C." ^ i h
    | Rename (a, b) -> "R." ^ i a ^ "." ^ i b
    | Unlink a -> "U." ^ i a) ops)


(* ------------------------------------------------------------------ records *)
(* JSON values travel as a prefix token stream:
     n | t | f | i<dec> | d<mantissa>:<exp> | s<hex> | a<count> v.. | o<count> (s<hex> v)..   *)
open PersistRec

let rec parse_jv (toks : string list) : jv * string list =
  match toks with
  | [] -> failwith "jv: eof"
  | t :: rest ->
    let body = Stdlib.String.sub t 1 (Stdlib.String.length t - 1) in
    (match t.[0] with
     | 'n' -> (JNull, rest)
     | 't' -> (JBool true, rest)
     | 'f' -> (JBool false, rest)
     | 'i' -> (JInt (z_of_dec body), rest)
     | 'd' -> (match split ':' body with
               | [m; e] -> (JFlt (z_of_dec m, nat_of_int (int_of_string e)), rest)
               | _ -> failwith "jv: float")
     | 's' -> (JStr (bytes_of_hex body), rest)
     | 'a' ->
       let n = int_of_string body in
       let rec go k acc toks = if k = 0 then (Stdlib.List.rev acc, toks) else
           let (v, toks') = parse_jv toks in go (k - 1) (v :: acc) toks' in
       let (l, rest') = go n [] rest in (JArr l, rest')
     | 'o' ->
       let n = int_of_string body in
       let rec go k acc toks = if k = 0 then (Stdlib.List.rev acc, toks) else
           match parse_jv toks with
           | (JStr key, toks') -> let (v, toks'') = parse_jv toks' in go (k - 1) ((key, v) :: acc) toks''
           | _ -> failwith "jv: key" in
       let (l, rest') = go n [] rest in (JObj l, rest')
     | _ -> failwith ("jv: token " ^ t))

let rec show_jv (b : Buffer.t) (v : jv) : unit =
  let add s = Buffer.add_char b ' '; Buffer.add_string b s in
  match v with
  | JNull -> add "n" | JBool true -> add "t" | JBool false -> add "f"
  | JInt z -> add ("i" ^ dec_of_z z)
  | JFlt (m, e) -> add ("d" ^ dec_of_z m ^ ":" ^ string_of_int (int_of_nat e))
  | JStr s -> add ("s" ^ hex_of_bytes s)
  | JArr l -> add ("a" ^ string_of_int (Stdlib.List.length l)); Stdlib.List.iter (show_jv b) l
  | JObj l -> add ("o" ^ string_of_int (Stdlib.List.length l));
    Stdlib.List.iter (fun (k, v) -> add ("s" ^ hex_of_bytes k); show_jv b v) l
let jv_str v = let b = Buffer.create 256 in show_jv b v; Buffer.contents b

let str (s : string) : coq_N list = Stdlib.List.init (Stdlib.String.length s) (fun i -> n_of_int (Char.code s.[i]))
let jstr s = JStr (str s)
let ckeys = [ ("type", K_type); ("iid", K_iid); ("perms", K_perms); ("format", K_format); ("value", K_value);
              ("ev", K_ev); ("description", K_description); ("unit", K_unit); ("minValue", K_minValue);
              ("maxValue", K_maxValue); ("minStep", K_minStep); ("maxLen", K_maxLen);
              ("valid-values", K_valid_values); ("handle", K_handle);
              ("broadcast_events", K_broadcast_events); ("disconnected_events", K_disconnected_events) ]
let ckeys_b = Stdlib.List.map (fun (s, k) -> (str s, k)) ckeys
let ckey_name k = fst (Stdlib.List.find (fun (_, k') -> k' = k) ckeys)

exception Unmodelled of string

let cdict_of (v : jv) : cdict = match v with
  | JObj kv -> Stdlib.List.filter_map (fun (k, v) ->
      match Stdlib.List.assoc_opt k ckeys_b with Some ck -> Some (ck, v) | None -> None) kv
  | _ -> raise (Unmodelled "characteristic is not an object")
let get k kv = Stdlib.List.assoc_opt (str k) kv
let sdict_of (v : jv) : sdict = match v with
  | JObj kv ->
    { sd_iid = get "iid" kv; sd_type = get "type" kv;
      sd_chars = (match get "characteristics" kv with
          | None -> None | Some (JArr l) -> Some (Stdlib.List.map cdict_of l)
          | Some _ -> raise (Unmodelled "characteristics is not a list"));
      sd_linked = (match get "linked" kv with
          | None -> None | Some (JArr l) -> Some l | Some _ -> raise (Unmodelled "linked is not a list")) }
  | _ -> raise (Unmodelled "service is not an object")
let adict_of (v : jv) : adict = match v with
  | JObj kv ->
    { ad_aid = get "aid" kv;
      ad_services = (match get "services" kv with
          | None -> None | Some (JArr l) -> Some (Stdlib.List.map sdict_of l)
          | Some _ -> raise (Unmodelled "services is not a list")) }
  | _ -> raise (Unmodelled "accessory is not an object")
let adicts_of = function JArr l -> Stdlib.List.map adict_of l | _ -> raise (Unmodelled "accessories is not a list")

let jv_of_cdict (d : cdict) : jv = JObj (Stdlib.List.map (fun (k, v) -> (str (ckey_name k), v)) d)
let opt k o = match o with Some v -> [ (str k, v) ] | None -> []
let jv_of_sdict (d : sdict) : jv =
  JObj (opt "iid" d.sd_iid @ opt "type" d.sd_type
        @ (match d.sd_chars with Some l -> [ (str "characteristics", JArr (Stdlib.List.map jv_of_cdict l)) ] | None -> [])
        @ (match d.sd_linked with Some l -> [ (str "linked", JArr l) ] | None -> []))
let jv_of_adict (d : adict) : jv =
  JObj (opt "aid" d.ad_aid
        @ (match d.ad_services with Some l -> [ (str "services", JArr (Stdlib.List.map jv_of_sdict l)) ] | None -> []))

(* object dumps: every modelled attribute, None as null *)
let jo o = match o with Some v -> v | None -> JNull
let dump_chr (c : chr) : jv =
  JObj [ (str "type", JStr c.c_type); (str "iid", c.c_iid);
         (str "perms", JArr (Stdlib.List.map (fun p -> JStr p) c.c_perms));
         (str "format", jo c.c_format); (str "value", jo c.c_value); (str "description", jo c.c_desc);
         (str "unit", jo c.c_unit); (str "minValue", jo c.c_min); (str "maxValue", jo c.c_max);
         (str "minStep", jo c.c_step); (str "valid_values", jo c.c_valid); (str "handle", jo c.c_handle);
         (str "broadcast_events", jo c.c_bcast); (str "disconnected_events", jo c.c_disc) ]
let dump_svc (s : svc) : jv =
  JObj [ (str "iid", s.s_iid); (str "type", JStr s.s_type); (str "linked", JArr s.s_linked);
         (str "characteristics", JArr (Stdlib.List.map dump_chr s.s_chars)) ]
let dump_acc (a : acc) : jv = JObj [ (str "aid", a.a_aid); (str "services", JArr (Stdlib.List.map dump_svc a.a_services)) ]
let dump_accs l = JArr (Stdlib.List.map dump_acc l)

(* normalize_uuid is applied by the harness (independent reference); "!" marks a rejected value *)
let norm (s : coq_N list) : coq_N list option =
  match s with x :: _ when int_of_n x = 33 -> None | _ -> Some s

let tab_of (t : jv) : coq_N list -> ctab =
  let entries = match t with JObj kv -> kv | _ -> [] in
  fun ty ->
    match Stdlib.List.assoc_opt ty entries with
    | Some (JObj kv) ->
      let g k = match get k kv with Some JNull | None -> None | Some v -> Some v in
      { t_format = g "format"; t_desc = g "description"; t_unit = g "unit";
        t_min = g "min_value"; t_max = g "max_value"; t_step = g "min_step" }
    | _ -> { t_format = None; t_desc = None; t_unit = None; t_min = None; t_max = None; t_step = None }

let res_str f = function
  | Res.Ok a -> "ok" ^ f a | Res.Err _ -> "err" | Res.Crash -> "crash" | Res.OutOfFuel -> "fuel"

(* rt <table> <accessories>: from_list, serialize, from_list again *)
let rt toks =
  let (t, rest) = parse_jv toks in
  let (a, _) = parse_jv rest in
  let tbl = tab_of t in
  match accs_from norm tbl (adicts_of a) with
  | Res.Ok accs ->
    let ser = accs_to accs in
    let again = accs_from norm tbl ser in
    "ok" ^ jv_str (dump_accs accs) ^ " ;" ^ jv_str (JArr (Stdlib.List.map jv_of_adict ser)) ^ " ; "
    ^ res_str (fun l -> jv_str (dump_accs l)) again
    ^ " ; " ^ (if Stdlib.List.for_all (wf_accb norm tbl) accs then "t" else "f")
  | r -> res_str (fun _ -> "") r

(* entry <table> <cache entry>: _load_accessories_from_cache, then _update_accessories_state_cache *)
let entry toks =
  let (t, rest) = parse_jv toks in
  let (e, _) = parse_jv rest in
  let tbl = tab_of t in
  let kv = match e with JObj kv -> kv | _ -> raise (Unmodelled "cache entry is not an object") in
  let nonnull k = match get k kv with Some JNull | None -> None | Some v -> Some v in
  let ce = { e_config = get "config_num" kv;
             e_accs = (match get "accessories" kv with None -> None | Some v -> Some (adicts_of v));
             e_bkey = nonnull "broadcast_key"; e_state = nonnull "state_num" } in
  match entry_load norm tbl ce with
  | Res.Ok st ->
    let back = entry_save st in
    let dump = JObj [ (str "config_num", st.st_config);
                      (str "broadcast_key", (match st.st_bkey with Some k -> JStr (str (if k = [] then "" else hex_of_bytes k)) | None -> JNull));
                      (str "state_num", jo st.st_state); (str "accessories", dump_accs st.st_accs) ] in
    let saved = JObj [ (str "config_num", jo back.e_config);
                       (str "accessories", (match back.e_accs with Some l -> JArr (Stdlib.List.map jv_of_adict l) | None -> JNull));
                       (str "broadcast_key", jo back.e_bkey); (str "state_num", jo back.e_state) ] in
    "ok" ^ jv_str dump ^ " ;" ^ jv_str saved
  | r -> res_str (fun _ -> "") r

(* pairs <pairing file as object alias -> object> *)
let pairs toks =
  let (f, _) = parse_jv toks in
  let pf = match f with
    | JObj kv -> Stdlib.List.map (fun (a, d) -> match d with
        | JObj pd -> (a, pd) | _ -> raise (Unmodelled "pairing is not an object")) kv
    | _ -> raise (Unmodelled "pairing file is not an object") in
  match load_pairings pf with
  | None -> "crash"
  | Some l -> "ok" ^ jv_str (JObj (Stdlib.List.map (fun (a, d) -> (a, JObj d)) (save_pairings l)))

let hexrt h = match hex_dec (hex_enc (bytes_of_hex h)) with Some b -> "ok " ^ hex_of_bytes b | None -> "none"
let unhex s = match hex_dec (bytes_of_hex s) with Some b -> "ok " ^ hex_of_bytes b | None -> "none"

(* cmap <initial map object> <ops array>: ops = ["u", id, entry] | ["d", id]; answers the final map *)
let cmap_cmd toks =
  let (m0, rest) = parse_jv toks in
  let (ops, _) = parse_jv rest in
  let m0 = match m0 with JObj kv -> kv | _ -> raise (Unmodelled "map is not an object") in
  let ops = match ops with
    | JArr l -> Stdlib.List.map (function
        | JArr [JStr u; JStr id; e] when u = str "u" -> CUpdate (id, e)
        | JArr [JStr d; JStr id] when d = str "d" -> CDelete id
        | _ -> raise (Unmodelled "cache op")) l
    | _ -> raise (Unmodelled "ops is not a list") in
  "ok" ^ jv_str (JObj (map_run ops m0))

(* ---- concrete JSON codec: trees as  n | t | f | N<hex> | S<hex> | A<count> .. | O<count> (S<hex> v).. *)
open PersistJson
let rec parse_json (toks : string list) : json * string list =
  match toks with
  | [] -> failwith "json: eof"
  | t :: rest ->
    let body = Stdlib.String.sub t 1 (Stdlib.String.length t - 1) in
    (match t.[0] with
     | 'n' -> (JN, rest) | 't' -> (JB true, rest) | 'f' -> (JB false, rest)
     | 'N' -> (JNumT (bytes_of_hex body), rest)
     | 'S' -> (JStrT (bytes_of_hex body), rest)
     | 'A' ->
       let rec go k acc toks = if k = 0 then (Stdlib.List.rev acc, toks) else
           let (v, toks') = parse_json toks in go (k - 1) (v :: acc) toks' in
       let (l, rest') = go (int_of_string body) [] rest in (JA l, rest')
     | 'O' ->
       let rec go k acc toks = if k = 0 then (Stdlib.List.rev acc, toks) else
           match parse_json toks with
           | (JStrT key, toks') -> let (v, toks'') = parse_json toks' in go (k - 1) ((key, v) :: acc) toks''
           | _ -> failwith "json: key" in
       let (l, rest') = go (int_of_string body) [] rest in (JO l, rest')
     | _ -> failwith ("json: token " ^ t))
let rec show_json (b : Buffer.t) (v : json) : unit =
  let add s = Buffer.add_char b ' '; Buffer.add_string b s in
  match v with
  | JN -> add "n" | JB true -> add "t" | JB false -> add "f"
  | JNumT t -> add ("N" ^ hex_of_bytes t) | JStrT t -> add ("S" ^ hex_of_bytes t)
  | JA l -> add ("A" ^ string_of_int (Stdlib.List.length l)); Stdlib.List.iter (show_json b) l
  | JO l -> add ("O" ^ string_of_int (Stdlib.List.length l));
    Stdlib.List.iter (fun (k, v) -> add ("S" ^ hex_of_bytes k); show_json b v) l
(* jp <0|1> <tree>: the model printer;  jq <hex>: the model parser *)
let jp ind toks =
  let (v, _) = parse_json toks in
  (if wfj v then "ok " else "notwf ") ^ hex_of_bytes (jprint (ind = "1") v)
let jq h = match jparse (bytes_of_hex h) with
  | Some v -> let b = Buffer.create 256 in show_json b v; "ok" ^ Buffer.contents b
  | None -> "none"

let guarded f toks = try f toks with Unmodelled m -> "unmodelled " ^ m

let handle = function
  | "sim" :: target :: old :: nw :: nnames :: inits :: ops -> sim target old nw nnames inits ops
  | "proc" :: kind :: h :: t :: f :: chunks -> proc kind h t f chunks
  | "rt" :: toks -> guarded rt toks
  | "entry" :: toks -> guarded entry toks
  | "pairs" :: toks -> guarded pairs toks
  | "cmap" :: toks -> guarded cmap_cmd toks
  | "jp" :: ind :: toks -> jp ind toks
  | ["jq"; h] -> jq h
  | ["hexrt"; h] -> hexrt h
  | ["unhex"; s] -> unhex s
  | _ -> "bad-request"
let () = main_loop handle
