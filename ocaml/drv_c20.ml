(* C20 driver.
   sim <target> <old-hex|!> <new-hex> <nnames> <inits|.> <op> <op> ...
       inits:  name:hex;name:hex          (files present and durable before the save)
       ops:    T.h.f  A.h.f  W.h.hex  S.h  C.h  R.a.b  U.a
     answer: one entry per crash point n = 0..len(ops) and view v in {a(ll), l(ossy)}:
       n;v;class;name=content,name=content   separated by '|'
       content = hex when <= 2048 bytes, else #<len>.<adler32>
   rec ... : record-level serialisers (see below) *)
open BinNums
open Datatypes
open Drv
open Persist

let split c s = Stdlib.String.split_on_char c s

let op_of_tok t =
  match split '.' t with
  | ["T"; h; f] -> OpenTrunc (n_of_int (int_of_string h), n_of_int (int_of_string f))
  | ["A"; h; f] -> OpenAppend (n_of_int (int_of_string h), n_of_int (int_of_string f))
  | ["W"; h; x] -> Write (n_of_int (int_of_string h), bytes_of_hex x)
  | ["S"; h] -> Fsync (n_of_int (int_of_string h))
  | ["C"; h] -> Close (n_of_int (int_of_string h))
  | ["R"; a; b] -> Rename (n_of_int (int_of_string a), n_of_int (int_of_string b))
  | ["U"; a] -> Unlink (n_of_int (int_of_string a))
  | _ -> failwith ("op " ^ t)

let empty_fs = { names = (fun _ -> None); content = (fun _ -> []); synced = (fun _ -> O);
                 handles = (fun _ -> None); fresh = n_of_int 0 }

let adler32 (l : coq_N list) : int =
  let a = ref 1 and b = ref 0 in
  Stdlib.List.iter (fun x -> a := (!a + int_of_n x) mod 65521; b := (!b + !a) mod 65521) l;
  (!b lsl 16) lor !a

let show_content (l : coq_N list) : string =
  let n = Stdlib.List.length l in
  if n <= 2048 then hex_of_bytes l else Printf.sprintf "#%d.%d" n (adler32 l)

let class_str = function
  | CMissing -> "missing" | COld -> "old" | CNew -> "new" | CPrefixNew -> "prefix" | COther -> "other"

let sim target old nw nnames inits ops =
  let target = n_of_int (int_of_string target) in
  let old = if old = "!" then None else Some (bytes_of_hex old) in
  let nw = bytes_of_hex nw in
  let nnames = int_of_string nnames in
  let h0 = n_of_int 1000 in
  let init_ops =
    if inits = "." then [] else
    Stdlib.List.concat_map (fun t -> match split ':' t with
      | [nm; hx] -> [OpenTrunc (h0, n_of_int (int_of_string nm)); Write (h0, bytes_of_hex hx); Fsync h0; Close h0]
      | _ -> failwith "init") (split ';' inits) in
  let st0 = run init_ops empty_fs in
  let ops = Stdlib.List.map op_of_tok ops in
  let nops = Stdlib.List.length ops in
  let out = Buffer.create 4096 in
  for n = 0 to nops do
    let st = crash_after (nat_of_int n) ops st0 in
    Stdlib.List.iter (fun (vn, view) ->
      let v = view st in
      let cls = classify old nw (read v target) in
      let listing = ref [] in
      for k = nnames - 1 downto 0 do
        match read v (n_of_int k) with
        | Some c -> listing := (string_of_int k ^ "=" ^ show_content c) :: !listing
        | None -> ()
      done;
      if Buffer.length out > 0 then Buffer.add_char out '|';
      Buffer.add_string out (Printf.sprintf "%d;%s;%s;%s" n vn (class_str cls) (Stdlib.String.concat "," !listing)))
      [("a", view_all); ("l", view_lossy)]
  done;
  Buffer.contents out

(* the model's own procedures, for the cross-check that the observed operation list is one of them *)
let proc kind h t f chunks =
  let h = n_of_int (int_of_string h) and t = n_of_int (int_of_string t) and f = n_of_int (int_of_string f) in
  let cs = Stdlib.List.map bytes_of_hex chunks in
  let ops = match kind with
    | "inplace" -> save_inplace h f cs
    | "atomic" -> save_atomic h t f cs
    | "nofsync" -> save_atomic_nofsync h t f cs
    | _ -> failwith "kind" in
  let i x = string_of_int (int_of_n x) in
  Stdlib.String.concat " " (Stdlib.List.map (function
    | OpenTrunc (h, f) -> "T." ^ i h ^ "." ^ i f
    | OpenAppend (h, f) -> "A." ^ i h ^ "." ^ i f
    | Write (h, b) -> "W." ^ i h ^ "." ^ hex_of_bytes b
    | Fsync h -> "S." ^ i h
    | Close h -> "C." ^ i h
    | Rename (a, b) -> "R." ^ i a ^ "." ^ i b
    | Unlink a -> "U." ^ i a) ops)

let handle = function
  | "sim" :: target :: old :: nw :: nnames :: inits :: ops -> sim target old nw nnames inits ops
  | "proc" :: kind :: h :: t :: f :: chunks -> proc kind h t f chunks
  | _ -> "bad-request"
let () = main_loop handle
