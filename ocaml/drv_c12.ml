(* C12 driver.  One request per line:
     run R:<l=mode,..|-> T:<l=mode/+l'/-l'..,..|-> <event> <event> ...
   T        what listener l does to the registry from inside its callback when its mode fires:
            +l' = dispatcher_connect(listener l'), -l' = stop function of l' 
   events   S:<ids>:<script>  U:<ids>:<script>  A:<l>  D:<l>  CU:<script>  CD  E:e | E:n | E:b[/aid.iid.val]*
   ids      aid.iid,aid.iid,.. | -
   script   - | aid=o ; aid=d ; aid=x ; aid=s[/aid.iid.status]*     (entries joined by ';')
   mode     0 never raises, 1 always, 2 only on the empty (connection-back) event, 3 only on non-empty events
   answer   per step '<outputs, space separated, "." if none> @ <subs ids> <listeners> <sup 0|1> <conn 0|1>'
            (the state AFTER the step), steps joined by ' | ' *)
open Drv
let ni s = n_of_int (int_of_string s)
let zi s = z_of_int (int_of_string s)
let split c s = Stdlib.String.split_on_char c s
let cid_of t = match split '.' t with [a; i] -> (ni a, ni i) | _ -> failwith ("cid " ^ t)
let ids_of t = if t = "-" || t = "" then [] else Stdlib.List.map cid_of (split ',' t)
let row_of t = match split '.' t with [a; i; v] -> ((ni a, ni i), zi v) | _ -> failwith ("row " ^ t)
let reply_of t = match split '/' t with
  | ["o"] -> Subs.ROk | ["d"] -> Subs.RDisc | ["x"] -> Subs.RHttp4xx
  | "s" :: rows -> Subs.RStatus (Stdlib.List.map row_of rows)
  | _ -> failwith ("reply " ^ t)
let script_of t = if t = "-" || t = "" then [] else
  Stdlib.List.map (fun e -> match split '=' e with [a; r] -> (ni a, reply_of r) | _ -> failwith ("script " ^ e)) (split ';' t)
let event_of t = match split ':' t with
  | ["S"; ids; rs] -> Subs.Subscribe (ids_of ids, script_of rs)
  | ["U"; ids; rs] -> Subs.Unsubscribe (ids_of ids, script_of rs)
  | ["A"; l] -> Subs.AddL (ni l)
  | ["D"; l] -> Subs.DelL (ni l)
  | ["CU"; rs] -> Subs.ConnUp (script_of rs)
  | ["CD"] -> Subs.ConnDown
  | ["E"; "e"] -> Subs.EventMsg Subs.BEmpty
  | ["E"; "n"] -> Subs.EventMsg Subs.BNonJson
  | ["E"; b] -> (match split '/' b with
                 | "b" :: rows -> Subs.EventMsg (Subs.BRows (Stdlib.List.map row_of rows))
                 | _ -> failwith ("body " ^ b))
  | _ -> failwith ("event " ^ t)
let raises_of t =
  let tbl = match split ':' t with
    | ["R"; "-"] | ["R"; ""] -> []
    | ["R"; l] -> Stdlib.List.map (fun e -> match split '=' e with [a; m] -> (int_of_string a, int_of_string m) | _ -> failwith "rmode") (split ',' l)
    | _ -> failwith "raise table" in
  fun (l : BinNums.coq_N) (e : ((BinNums.coq_N * BinNums.coq_N) * BinNums.coq_Z) list) ->
    match Stdlib.List.assoc_opt (int_of_n l) tbl with
    | None | Some 0 -> false
    | Some 1 -> true
    | Some 2 -> e = []
    | Some 3 -> e <> []
    | _ -> false
let fires m (e : ((BinNums.coq_N * BinNums.coq_N) * BinNums.coq_Z) list) =
  match m with 1 -> true | 2 -> e = [] | 3 -> e <> [] | _ -> false
let acts_of t =
  let tbl = match split ':' t with
    | ["T"; "-"] | ["T"; ""] -> []
    | ["T"; l] -> Stdlib.List.map (fun e -> match split '=' e with
        | [a; r] -> (match split '/' r with
            | m :: acts -> (int_of_string a, (int_of_string m, Stdlib.List.map (fun x ->
                  (x.[0] = '+', n_of_int (int_of_string (Stdlib.String.sub x 1 (Stdlib.String.length x - 1))))) acts))
            | _ -> failwith "acts")
        | _ -> failwith "acts") (split ',' l)
    | _ -> failwith "acts table" in
  fun (l : BinNums.coq_N) e ->
    match Stdlib.List.assoc_opt (int_of_n l) tbl with
    | Some (m, a) when fires m e -> a
    | _ -> []
let s_cid (a, i) = Printf.sprintf "%d.%d" (int_of_n a) (int_of_n i)
let s_ids l = if l = [] then "-" else Stdlib.String.concat "," (Stdlib.List.map s_cid l)
let s_row ((a, i), v) = Printf.sprintf "%d.%d.%d" (int_of_n a) (int_of_n i) (int_of_z v)
let s_rows l = if l = [] then "-" else Stdlib.String.concat "/" (Stdlib.List.map s_row l)
let s_out = function
  | Subs.OSession -> "SESS"
  | Subs.OPut (ev, ids, r) ->
      Printf.sprintf "P:%s:%s:%s" (if ev then "t" else "f") (s_ids ids)
        (match r with Subs.PutOk -> "o" | Subs.PutStatus _ -> "s" | Subs.PutDisc -> "d" | Subs.Put4xx -> "x")
  | Subs.OCall (l, e) -> Printf.sprintf "C:%d:%s" (int_of_n l) (s_rows e)
  | Subs.ORaised l -> Printf.sprintf "X:%d" (int_of_n l)
  | Subs.OLost -> "LOST"
  | Subs.ORet r -> "R:" ^ (match r with Subs.RetNone -> "none" | Subs.RetDict -> "dict" | Subs.RetRaised -> "raised")
let s_step o = if o = [] then "." else Stdlib.String.concat " " (Stdlib.List.map s_out o)
let s_state s =
  Printf.sprintf "%s %s %d %d" (s_ids s.Subs.subs)
    (if s.Subs.lst = [] then "-" else Stdlib.String.concat "," (Stdlib.List.map (fun l -> string_of_int (int_of_n l)) s.Subs.lst))
    (if s.Subs.sup then 1 else 0) (if s.Subs.conn then 1 else 0)
let handle = function
  | "run" :: r :: t :: evs ->
      let raises = raises_of r in
      let acts = acts_of t in
      let events = Stdlib.List.map event_of evs in
      (* cross-check: folding [step] here must agree with the model's own [trace_from] *)
      let (steps_ref, s_ref) = Subs.trace_from raises acts Subs.init events in
      let (acc, s) = Stdlib.List.fold_left (fun (acc, s) e ->
          let (s', o) = Subs.step raises acts s e in
          ((s_step o ^ " @ " ^ s_state s') :: acc, s')) ([], Subs.init) events in
      if s <> s_ref || Stdlib.List.length steps_ref <> Stdlib.List.length acc then "driver-inconsistent"
      else Stdlib.String.concat " | " (Stdlib.List.rev acc)
  | "conc" :: r :: t :: acts_ ->
      (* overlapping calls (Model/SubsConc.v).  actions: ST:<s|u>:<tag>:<ids>  AN:<reply>  DR  UP:<order ids>
         DN (answer 204 until the queue is empty)  and the base events A:<l> D:<l> E:<body>.
         answer per action: outputs (RT:<tag>:<class>  AB:<tag>:<t|f>:<ids>  and the Subs outputs)
         @ <subs> <listeners> <sup> <conn> <queue length> <accessory set> *)
      let raises = raises_of r in
      let acts = acts_of t in
      let s_cout = function
        | SubsConc.CO o -> s_out o
        | SubsConc.CRet (tag, rc) -> Printf.sprintf "RT:%d:%s" (int_of_nat tag)
            (match rc with Subs.RetNone -> "none" | Subs.RetDict -> "dict" | Subs.RetRaised -> "raised")
        | SubsConc.CAbort (tag, ev, ids) -> Printf.sprintf "AB:%d:%s:%s" (int_of_nat tag) (if ev then "t" else "f") (s_ids ids) in
      let step1 s tok =
        match split ':' tok with
        | ["ST"; k; tag; ids] -> SubsConc.cstep raises acts s (SubsConc.CStart (k = "s", nat_of_int (int_of_string tag), ids_of ids))
        | ["AN"; rep] -> SubsConc.cstep raises acts s (SubsConc.CAnswer (reply_of rep))
        | ["DR"] -> SubsConc.cstep raises acts s SubsConc.CDrop
        | ["UP"; ord] -> SubsConc.cstep raises acts s (SubsConc.CConnUp (ids_of ord))
        | ["DN"] ->
            let rec go s acc n =
              if s.SubsConc.queue = [] || n > 500 then (s, acc)
              else let (s', o) = SubsConc.cstep raises acts s (SubsConc.CAnswer Subs.ROk) in go s' (acc @ o) (n + 1) in
            go s [] 0
        | _ -> SubsConc.cstep raises acts s (SubsConc.CBase (event_of tok)) in
      let (acc, _) = Stdlib.List.fold_left (fun (acc, s) tok ->
          let (s', o) = step1 s tok in
          let line = (if o = [] then "." else Stdlib.String.concat " " (Stdlib.List.map s_cout o))
                     ^ " @ " ^ s_state s'.SubsConc.base ^ " " ^ string_of_int (Stdlib.List.length s'.SubsConc.queue)
                     ^ " " ^ s_ids s'.SubsConc.acc in
          (line :: acc, s')) ([], SubsConc.cinit) acts_ in
      Stdlib.String.concat " | " (Stdlib.List.rev acc)
  | _ -> "bad-request"
let () = main_loop handle
