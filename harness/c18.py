"""C18 correspondence: BleController._device_detected -> BlePairing._async_notification
(real ChaCha20-Poly1305, real Accessories cache, bleak data classes only) vs Model/Bcast.v.

A *history* is a controller configuration (pairings with/without cache, key, stored state
number, characteristic database) plus a list of advertisements.  Every advertisement is
described once (who it is framed to, which key / AAD / nonce counter / plaintext it was
sealed with, which corruption was applied) and then realised twice:
  * in bytes, sealed by harness/ref/bcast_ref.py (cryptography's AEAD), fed to the real
    controller's detection callback;
  * as a symbolic term (PSeal / PJunk / PShort / PEmpty) for the extracted model.
The BLE address the advertisement is sent from is a separate input (a pairing's
AccessoryAddress or an unknown one); the model has no such input: routing is by the id in the
frame only (bcast_routing), so the same term history must give the same result from any address.
Besides advertisements a history may contain the OTHER writers of the state number (it is
tracked in two places, description.state_num and the persisted _accessories_state.state_num):
populate (BlePairing._populate_char_values with the GATT round trips faked: the accessory reports its
GSN over a connection -> description only), update (_async_process_disconnected_events with the
poll faked -> _update_state_num: both copies), plain (regular type-0x06 advertisement), restart
(new BleController + pairings over the same characteristic cache).  Model: ops OPopulate / OUpdate /
OPlain / ORestart.
Observable after every advertisement: listener calls per pairing (aid, iid, value), the
stored state number (description.state_num) of every pairing, escaped exception class (none is
allowed since fix 242be4e), and whether the step ended in the disconnected-events poll fallback
(model: falls_back).
The oracle is direct: anything accepted that is not genuine+fresh for that pairing, or a
genuine fresh one rejected / delivered wrongly, is a violation with the history as replay.
"""
from __future__ import annotations

import concurrent.futures
import hashlib
import itertools
import json
import multiprocessing
import os

from common import Coverage, Driver, coq_eval, rng, shrink_list, violation
from ref import bcast_ref as R

# ------------------------------------------------------------------ fixed vocabulary
IDS = {"A": "aabbccddeeff", "B": "010203040506", "C": "0a0b0c0d0e0f", "D": "d0d1d2d3d4d5",
       "E": "e0e1e2e3e4e5", "F": "f0f1f2f3f4f5", "X": "777777777777"}
KEYS = {k: hashlib.sha256(b"c18-key-" + k.encode()).digest() for k in "ABDFZ"}
KEYNUM = {"A": 1, "B": 2, "D": 4, "F": 6, "Z": 9, "R1": 11, "R2": 12, "R3": 13}
# keys (re)generated inside an authenticated session: HKDF of the session secret (reference implementation)
LTPK = hashlib.sha256(b"c18-controller-ltpk").digest()
SECRETS = {k: hashlib.sha256(b"c18-session-secret-" + k.encode()).digest() for k in ("R1", "R2", "R3")}
KEYS.update({k: R.broadcast_key(v, LTPK) for k, v in SECRETS.items()})
SIG_IID = 31
DBS = {
    "1": [(9, "bool"), (10, "uint8"), (11, "uint16"), (12, "uint32"), (13, "uint64"), (14, "int"),
          (15, "float"), (16, "string"), (17, "tlv8"), (18, "data"), (19, "array"), (20, "dict")],
    "2": [(9, "uint64"), (10, "string"), (11, "uint8"), (300, "bool"), (65535, "uint16")],
}
MODEL_FMT = {"bool": "bool", "uint8": "u8", "uint16": "u16", "uint32": "u32", "uint64": "u64",
             "int": "int", "float": "float", "string": "string"}
ENC = 0x11


def accessories_json(db):
    if db == "noaid1":
        # a database without accessory 1
        return [dict(aid=2, services=[dict(iid=1, type="0000003E-0000-1000-8000-0026BB765291", characteristics=[
            dict(iid=2, type="00000023-0000-1000-8000-0026BB765291", perms=["pr"], format="string")])])]
    if db == "1":
        base = accessories_json("1nosig")
        # protocol information service with the service-signature characteristic (needed for key generation)
        base[0]["services"].append(dict(iid=30, type="000000A2-0000-1000-8000-0026BB765291", characteristics=[
            dict(iid=SIG_IID, type="000000A5-0000-1000-8000-0026BB765291", perms=["pr"], format="data")]))
        return base
    chars = [dict(iid=iid, type="00000025-0000-1000-8000-0026BB765291", perms=["pr", "ev"], format=f)
             for iid, f in DBS["1" if db == "1nosig" else db]]
    return [dict(aid=1, services=[
        dict(iid=1, type="0000003E-0000-1000-8000-0026BB765291", characteristics=[
            dict(iid=2, type="00000023-0000-1000-8000-0026BB765291", perms=["pr"], format="string")]),
        dict(iid=8, type="00000043-0000-1000-8000-0026BB765291", characteristics=chars)])]


def mk_world(sa, sb):
    """A, B: usable pairings with different keys and databases.  C: cache without a key.
    D: key but no stored state number (no description).  E: no cache at all."""
    return [dict(name="A", id=IDS["A"], key="A", sn=sa, db="1", cache=True),
            dict(name="B", id=IDS["B"], key="B", sn=sb, db="2", cache=True),
            dict(name="C", id=IDS["C"], key=None, sn=5, db="1", cache=True),
            dict(name="D", id=IDS["D"], key="D", sn=None, db="1", cache=True),
            dict(name="E", id=IDS["E"], key=None, sn=None, db=None, cache=False),
            dict(name="F", id=IDS["F"], key="F", sn=40, db="noaid1", cache=True)]


def db_chars(db):
    """(iid, format) of accessory 1 in database order"""
    if not db or db == "noaid1":
        return []
    return [(2, "string")] + DBS["1" if db == "1nosig" else db] + ([(SIG_IID, "data")] if db == "1" else [])


def chars_tok(db):
    return ",".join("%d.%s" % (i, MODEL_FMT.get(f, "other")) for i, f in db_chars(db)) or "-"


def pdb(p):
    return dict(db_chars(p["db"]))


# ------------------------------------------------------------------ events
PAIRING_NAMES = ("A", "B", "C", "D", "E", "F")
OPS = ("plain", "populate", "update", "restart", "setkey", "evt_begin", "evt_end", "poll_begin", "poll_end",
       "db", "reload", "cfg_begin", "cfg_end")
MAX_GSN = 65535


def rolls(g):
    return g + 1 >= MAX_GSN     # writers of the state number other than an accepted broadcast
UNKNOWN_ADDR = "AA:BB:CC:00:00:01"


def addr_of(name):
    """BLE address the advertisement is sent from: a pairing's AccessoryAddress, or one no pairing has"""
    if name in PAIRING_NAMES:
        return ":".join(IDS[name][i:i + 2] for i in range(0, 12, 2)).upper()
    return UNKNOWN_ADDR


def ev_seal(to, key, aad, n, pt, label, **mods):
    # default sender address: the accessory that owns the key (the true sender), else an unknown device
    e = dict(k="seal", to=IDS.get(to, to), key=key, aad=IDS.get(aad, aad), n=n, pt=pt.hex(), label=label,
             type=ENC, stl=0x36, flip=None, trunc=None, hflip=None, hdrcut=None,
             addr=key if key in PAIRING_NAMES else "U")
    e.update(mods)
    return e


def ev_raw(to, payload, label, **mods):
    e = dict(k="raw", to=IDS.get(to, to), payload=payload.hex(), label=label, type=ENC, stl=0x36,
             flip=None, trunc=None, hflip=None, hdrcut=None, addr=to if to in PAIRING_NAMES else "U")
    e.update(mods)
    return e


def realise(ev):
    """-> (apple manufacturer data bytes or None, sealed-intact?)"""
    if ev["k"] == "noapple" or ev["k"] in OPS and ev["k"] != "plain":
        return None, False
    if ev["k"] == "plain":
        # type 0x06 | stl | sf | id(6) | acid(2) | gsn(2) | cn | cv | setup hash(4)
        return (bytes([0x06, 0x31, 0x00]) + bytes.fromhex(ev["to"]) + (5).to_bytes(2, "little")
                + (ev["sn"] & 0xFFFF).to_bytes(2, "little") + bytes([1, 2]) + b"\x01\x02\x03\x04"), False
    hdr = bytearray([ev["type"], ev["stl"]]) + bytes.fromhex(ev["to"])
    if ev["hflip"] is not None:
        hdr[ev["hflip"] // 8] ^= 1 << (ev["hflip"] % 8)
    intact = ev["k"] == "seal"
    if ev["k"] == "seal":
        payload = bytearray(R.seal(KEYS[ev["key"]], ev["n"], bytes.fromhex(ev["aad"]), bytes.fromhex(ev["pt"])))
    else:
        payload = bytearray(bytes.fromhex(ev["payload"]))
    if ev["flip"] is not None and payload:
        payload[(ev["flip"] // 8) % len(payload)] ^= 1 << (ev["flip"] % 8)
        intact = False
    if ev["trunc"] is not None and ev["trunc"] < len(payload):
        payload = payload[:ev["trunc"]]
        intact = False
    data = bytes(hdr) + bytes(payload)
    if ev["hdrcut"] is not None:
        data = data[:ev["hdrcut"]]
        if ev["hdrcut"] < 8 + len(payload):
            intact = False
    return data, intact


def target(world, data):
    """index of the pairing _device_detected must route to (by bytes 2..7), or None"""
    if not data or data[0] != ENC or len(data) < 8:
        return None
    for i, p in enumerate(world):
        if bytes.fromhex(p["id"]) == data[2:8]:
            return i
    return None


def symbolic(world, ev, plain_sns, curkeys=None):
    """the model's view of the advertisement: 'A:<hdr>:<body>' (or R:.. for plain)"""
    if ev["k"] == "plain":
        return "R:%s:%d" % (ev["to"], ev["sn"] & 0xFFFF)
    if ev["k"] == "populate":
        return "O:%s:%d" % (ev["to"], ev["sn"])
    if ev["k"] == "update":
        return "U:%s:%d" % (ev["to"], ev["sn"])
    if ev["k"] == "restart":
        return "X"
    if ev["k"] == "setkey":
        return "K:%s:%d" % (ev["to"], KEYNUM[ev["key"]])
    if ev["k"] == "poll_begin":
        return "LB:%s" % ev["to"]
    if ev["k"] == "poll_end":
        return "LE:%s:%s" % (ev["to"], "fail" if ev["sn"] is None else ev["sn"])
    if ev["k"] == "db":
        return "DB:%s:%s:%d:1" % (ev["to"], chars_tok(ev["db"]), 1 if ev["db"] == "1" else 0)
    if ev["k"] == "reload":
        return "RL:%s" % ev["to"]
    if ev["k"] == "cfg_begin":
        return "CB:%s:%d" % (ev["to"], ev["sn"])
    if ev["k"] == "cfg_end":
        return "CE:%s:%s:%d:%d" % (ev["to"], chars_tok(ev["db"]), 1 if ev["db"] == "1" else 0, ev["g"])
    if ev["k"] == "evt_begin":
        return "EB:%s:%d" % (ev["to"], ev["g"])
    if ev["k"] == "evt_end":
        return "EE:%s:%d:%s" % (ev["to"], ev["g"], "fail" if ev["req"] == "fail" else KEYNUM[ev["key"]])
    data, intact = realise(ev)
    if data is None:
        return "A:-:E"
    hdr, payload = data[:8], data[8:]
    if intact:
        body = "S.%d.%d.%s.%s" % (KEYNUM[ev["key"]], ev["n"], R.hexs(bytes.fromhex(ev["aad"])), R.hexs(bytes.fromhex(ev["pt"])))
    elif len(payload) >= 4:
        body = "J"                       # corrupted / foreign string: opens nowhere (up to 100 * 2^-32)
    elif len(payload) == 0:
        body = "E"
    else:
        # 1..3 bytes: the counters (among those the receiver can reach in this history) at which
        # the string is a prefix of the receiver's tag of the empty ciphertext
        t = target(world, data)
        ats = set()
        if t is not None and world[t]["key"]:
            for base in [world[t]["sn"] or 0] + plain_sns.get(world[t]["id"], []):
                ats.update(R.short_opens_at(KEYS[(curkeys or {}).get(world[t]["id"]) or world[t]["key"]], bytes(hdr[2:8]), bytes(payload),
                                            max(0, base - 5), base + 1400))
        body = "H." + (",".join(map(str, sorted(ats))) if ats else "-")
    return "A:%s:%s" % (R.hexs(hdr), body)


def model_line(world, events):
    toks = ["hist"]
    for p in world:
        chars = ",".join("%d.%s" % (i, MODEL_FMT.get(f, "other")) for i, f in db_chars(p["db"])) or "-"
        has_desc = p["cache"] and p["sn"]
        if p.get("pre") is not None:
            toks.append("I:%s" % p["id"])        # a regular advertisement was seen before load_pairing
        toks.append("P:%s:%s:%s:%s:%s:%d" % (p["id"], KEYNUM[p["key"]] if p["key"] else "-",
                                             p["pre"] if p.get("pre") is not None else (p["sn"] if has_desc else "-"),
                                             p["sn"] if (p["cache"] and p["sn"] is not None) else "-", chars,
                                             1 if p["db"] == "1" else 0))
    plain_sns = {}
    for e in events:
        if e["k"] in ("plain", "populate", "update") or (e["k"] == "poll_end" and e["sn"] is not None):
            plain_sns.setdefault(e["to"], []).append(e["sn"])
        if e["k"] == "evt_begin":
            plain_sns.setdefault(e["to"], []).extend([e["g"], 1])
        if e["k"] in ("cfg_begin", "cfg_end"):
            plain_sns.setdefault(e["to"], []).extend([e["sn"], e["g"]])
    for p in world:
        if p.get("pre") is not None:
            plain_sns.setdefault(p["id"], []).append(p["pre"])
    curkeys = {}
    curdb = {p["id"]: p["db"] for p in world}
    for e in events:
        toks.append(symbolic(world, e, plain_sns, curkeys))
        if e["k"] in ("db", "cfg_end"):
            curdb[e["to"]] = e["db"]
        if (e["k"] == "setkey" or (e["k"] == "evt_end" and rolls(e["g"]) and e["req"] != "fail")) \
                and curdb.get(e["to"]) == "1":
            curkeys[e["to"]] = e["key"]
    return " ".join(toks)


def canon_model(ans, npair):
    """model answer -> list of canonical step strings"""
    if ans == ".":
        return [], []
    out = []
    for tok in ans.split(" "):
        o, calls, sns, _psns, fb, _keys = tok.split("/")
        exc = "ok"
        cl = []
        if calls != "-":
            for c in calls.split("+"):
                pid, aid, iid, v = c.split(".", 3)
                if v[0] == "x":
                    v = "s" + R.hexs(R.hexs(bytes.fromhex(v[1:]) if v[1:] != "-" else b"").replace("-", "").encode())
                elif v[0] == "f":
                    v = R.canon_float_bits(int(v[1:]))
                cl.append("%s.%s.%s.%s" % (pid, aid, iid, v))
        out.append("%s|%s|%s|%s" % (exc, "+".join(cl) or "-", sns, fb))
    return out, [tok.split("/")[0] for tok in ans.split(" ")]


# ------------------------------------------------------------------ implementation side
EXC = {"error": "crash-struct", "UnicodeDecodeError": "crash-unicode", "AttributeError": "exc:AttributeError"}


def _mk_device(addr):
    from bleak.backends.device import BLEDevice
    try:
        return BLEDevice(address=addr, name="acc", details=None, rssi=-60)
    except TypeError:
        return BLEDevice(address=addr, name="acc", details=None)


def _mk_adv(mfr):
    from bleak.backends.scanner import AdvertisementData
    return AdvertisementData(local_name="acc", manufacturer_data=mfr, service_data={}, service_uuids=[],
                             tx_power=-127, rssi=-60, platform_data=())


def _idstr(p):
    return ":".join(p["id"][i:i + 2] for i in range(0, 12, 2))


def _load_pairings(ctl, world, calls, fallbacks):
    """(re)create every BlePairing from the controller's characteristic cache, as a start of the process does"""
    return [_load_one(ctl, p, calls, fallbacks) for p in world]


def _load_one(ctl, p, calls, fallbacks):
    pr = ctl.load_pairing("alias-" + p["name"], {"AccessoryPairingID": _idstr(p), "AccessoryAddress": _idstr(p).upper(),
                                                  "Connection": "BLE", "iOSDeviceLTPK": LTPK.hex()})
    pr.dispatcher_connect(lambda ev, pid=p["id"]: calls.append((pid, ev)))
    orig = pr._process_disconnected_events

    def spy(orig=orig):
        fallbacks[0] += 1
        return orig()
    pr._process_disconnected_events = spy
    return pr


def _plain_bytes(id_hex, sn, cn):
    # type 0x06 | stl | sf | id(6) | acid(2) | gsn(2) | cn | cv | setup hash(4)
    return (bytes([0x06, 0x31, 0x00]) + bytes.fromhex(id_hex) + (5).to_bytes(2, "little")
            + (sn & 0xFFFF).to_bytes(2, "little") + bytes([cn & 0xFF, 2]) + b"\x01\x02\x03\x04")


async def _impl_db(ev, world, pairings, pending, ctl, calls, fallbacks):
    """the accessory database of a live pairing is replaced / the pairing is loaded again, through the real methods:
    db        AbstractPairing.restore_accessories_state (number and key handed in unchanged, as the integration does)
    cfg_begin a regular advertisement with a higher config number -> the REAL _process_config_changed task ->
              _populate_accessories_and_characteristics; faked: the connection attempt (suspends until cfg_end), reading the
              GATT database (returns the new one), the protocol parameters (accessory GSN g) and the value reads
    reload    the REAL shutdown() + BleController.load_pairing for the same id on the same controller"""
    import asyncio
    from unittest.mock import AsyncMock
    from aiohomekit.controller.ble.structs import ProtocolParams
    from aiohomekit.model import Accessories
    idx = next(i for i, p in enumerate(world) if p["id"] == ev["to"])
    pr = pairings[idx]
    if ev["k"] == "db":
        pr.restore_accessories_state(accessories_json(ev["db"]), pr.config_num, pr.broadcast_key, pr.state_num)
    elif ev["k"] == "reload":
        await pr.shutdown()
        pairings[idx] = _load_one(ctl, world[idx], calls, fallbacks)
    elif ev["k"] == "cfg_begin":
        release = asyncio.Event()

        async def connect(*a, **kw):
            await release.wait()
            return False

        async def fetch():
            return Accessories.from_list(accessories_json(ev["db"]))
        cn = pr.config_num + 1
        pr._ensure_connected = connect
        pr._async_fetch_gatt_database = fetch
        pr._encryption_key = object()           # a verified session exists
        pr._get_all_protocol_params = AsyncMock(return_value=ProtocolParams(
            state_number=ev["g"], config_number=cn, advertising_id=bytes.fromhex(ev["to"]), broadcast_key=None))
        pr._get_characteristics_while_connected = AsyncMock(return_value={})
        ctl._device_detected(_mk_device(addr_of(world[idx]["name"])), _mk_adv({76: _plain_bytes(ev["to"], ev["sn"], cn)}))
        await _settle()
        pending["cfg:" + ev["to"]] = (release, None, pr, cn)
    else:
        release, _, pr0, cn = pending.pop("cfg:" + ev["to"])
        release.set()
        for _ in range(4):
            await _settle()
        if pr0.config_num != cn:
            raise RuntimeError("harness: config re-read did not complete (config_num %s, expected %s)" % (pr0.config_num, cn))
        pr0._tried_to_connect_once = False
        pr0._encryption_key = None
        del pr0._ensure_connected, pr0._async_fetch_gatt_database, pr0._get_all_protocol_params, pr0._get_characteristics_while_connected


class _FakeGatt:
    """just enough of the GATT client for BlePairing._async_start_notify"""
    is_connected = True

    def __init__(self):
        self.notify_callback = None

    async def get_characteristic(self, *args):
        return object()

    async def start_notify(self, endpoint, callback):
        self.notify_callback = callback


async def _settle():
    import asyncio
    for _ in range(12):
        await asyncio.sleep(0)


async def _impl_event(ev, world, pairings, pending):
    """the first connected (GATT) event of a session through the REAL handler registered by _async_start_notify;
    faked: the GATT client, reading the characteristic, the protocol parameters (the accessory's GSN g) and the
    'generate broadcast key' request, which suspends until evt_end and then succeeds / raises as the event says"""
    import asyncio
    from unittest.mock import AsyncMock
    from aiohomekit.controller.ble.client import PDUStatusError
    from aiohomekit.controller.ble.structs import ProtocolParams
    from aiohomekit.crypto.hkdf import hkdf_derive
    from aiohomekit.exceptions import AccessoryDisconnectedError
    from aiohomekit.pdu import PDUStatus
    idx = next(i for i, p in enumerate(world) if p["id"] == ev["to"])
    pr = pairings[idx]
    if ev["k"] == "evt_begin":
        client = _FakeGatt()
        release = asyncio.Event()
        secret = SECRETS[ev["key"]]
        mode = ev["req"]

        async def key_request(*a, **kw):
            await release.wait()
            if mode == "fail":
                raise AccessoryDisconnectedError("accessory disconnected")
            if mode == "pdu":
                raise PDUStatusError(PDUStatus.INVALID_REQUEST, "refused")
            return b""
        pr.client = client
        pr._encryption_key = object()           # a verified session exists
        pr._derive = lambda salt, info, length=32: hkdf_derive(secret, salt, info, length=length)
        pr._get_characteristics_while_connected = AsyncMock(return_value={})
        pr._get_all_protocol_params = AsyncMock(return_value=ProtocolParams(
            state_number=ev["g"], config_number=1, advertising_id=bytes.fromhex(ev["to"]), broadcast_key=None))
        pr._async_request_under_lock = key_request
        async with pr._operation_lock:
            await pr._async_start_notify(11)
        client.notify_callback(0, b"")          # the accessory indicates "something changed"
        await _settle()
        pending[ev["to"]] = (release, client)
    else:
        release, client = pending.pop(ev["to"])
        release.set()
        await _settle()
        client.is_connected = False
        pr._async_reset_connection_state()
        pr.client = None
        pr._derive = None
        del pr._get_characteristics_while_connected, pr._get_all_protocol_params, pr._async_request_under_lock


async def _impl_poll(ev, world, pairings, pending):
    """the disconnected-events poll (_async_process_disconnected_events, the REAL method) as a suspendable operation:
    poll_begin starts it as a task on a pairing that has been connected before; the connect-and-read part
    (_process_disconnected_events_with_retry) hangs until poll_end and then returns the accessory's number or fails"""
    import asyncio
    from aiohomekit.controller.ble.structs import ProtocolParams
    from aiohomekit.exceptions import AccessoryDisconnectedError
    idx = next(i for i, p in enumerate(world) if p["id"] == ev["to"])
    pr = pairings[idx]
    if ev["k"] == "poll_begin":
        release = asyncio.Event()
        box = {}

        async def poll():
            await release.wait()
            if box["sn"] is None:
                raise AccessoryDisconnectedError("could not connect")
            return ProtocolParams(state_number=box["sn"], config_number=1, advertising_id=bytes.fromhex(ev["to"]),
                                  broadcast_key=None)
        pr._tried_to_connect_once = True
        pr._process_disconnected_events_with_retry = poll
        task = asyncio.ensure_future(pr._async_process_disconnected_events())
        await _settle()
        pending["poll:" + ev["to"]] = (release, box, task)
    else:
        release, box, task = pending.pop("poll:" + ev["to"])
        box["sn"] = ev["sn"]
        release.set()
        await asyncio.wait_for(task, 5)
        await _settle()
        pr._tried_to_connect_once = False
        del pr._process_disconnected_events_with_retry


async def _impl_op(ev, world, pairings):
    """the other writers of the state number, driven through the real methods with only the GATT round trips faked"""
    from unittest.mock import AsyncMock
    from aiohomekit.controller.ble.structs import ProtocolParams
    idx = next(i for i, p in enumerate(world) if p["id"] == ev["to"])
    pr = pairings[idx]
    if ev["k"] == "setkey":
        # key (re)generation inside an authenticated session: the real method, the real HKDF; faked are only
        # the GATT request and the session (its shared secret is what pair-verify would have produced)
        from aiohomekit.crypto.hkdf import hkdf_derive
        secret = SECRETS[ev["key"]]
        pr._derive = lambda salt, info, length=32: hkdf_derive(secret, salt, info, length=length)
        pr._async_request_under_lock = AsyncMock(return_value=b"")
        try:
            async with pr._operation_lock:
                await pr._async_set_broadcast_encryption_key()
        finally:
            del pr._async_request_under_lock
            pr._derive = None
        return
    params = ProtocolParams(state_number=ev["sn"], config_number=1, advertising_id=bytes.fromhex(ev["to"]), broadcast_key=None)
    if ev["k"] == "populate":
        # a connection (re)reads the characteristic values; the accessory reports its GSN
        pr._get_all_protocol_params = AsyncMock(return_value=params)
        pr._get_characteristics_while_connected = AsyncMock(return_value={})
        try:
            await pr._populate_char_values(False)
        finally:
            del pr._get_all_protocol_params, pr._get_characteristics_while_connected
    else:
        # disconnected-events poll: _async_process_disconnected_events -> _update_state_num
        pr._tried_to_connect_once = True
        pr._process_disconnected_events_with_retry = AsyncMock(return_value=params)
        try:
            await pr._async_process_disconnected_events()
        finally:
            del pr._process_disconnected_events_with_retry
            pr._tried_to_connect_once = False


async def _impl_async(world, events):
    import asyncio
    import logging
    logging.disable(logging.CRITICAL)
    from aiohomekit.characteristic_cache import CharacteristicCacheMemory
    from aiohomekit.controller.ble.controller import BleController
    cache = CharacteristicCacheMemory()
    ctl = BleController(cache)
    calls, fallbacks = [], [0]
    for p in world:
        if p["cache"]:
            cache.async_create_or_update_map(_idstr(p), 1, accessories_json(p["db"]),
                                             KEYS[p["key"]].hex() if p["key"] else None, p["sn"])
    for p in world:
        if p.get("pre") is not None:        # a regular advertisement seen BEFORE load_pairing: the controller holds a discovery
            ctl._device_detected(_mk_device(addr_of(p["name"])), _mk_adv({76: _plain_bytes(p["id"], p["pre"], 1)}))
    pairings = _load_pairings(ctl, world, calls, fallbacks)
    steps = []
    pending = {}
    for ev in events:
        del calls[:]
        fb0 = fallbacks[0]
        exc = "ok"
        try:
            if ev["k"] == "restart":
                for pr in pairings:
                    pr._shutdown = True
                ctl = BleController(cache)
                pairings = _load_pairings(ctl, world, calls, fallbacks)
            elif ev["k"] in ("populate", "update", "setkey"):
                await _impl_op(ev, world, pairings)
            elif ev["k"] in ("evt_begin", "evt_end"):
                await _impl_event(ev, world, pairings, pending)
            elif ev["k"] in ("poll_begin", "poll_end"):
                await _impl_poll(ev, world, pairings, pending)
            elif ev["k"] in ("db", "reload", "cfg_begin", "cfg_end"):
                await _impl_db(ev, world, pairings, pending, ctl, calls, fallbacks)
            else:
                data, _ = realise(ev)
                mfr = {} if data is None else {76: data}
                if ev["k"] == "noapple" and ev.get("other"):
                    mfr = {0x0006: b"\x11\x36" + bytes(22)}
                ctl._device_detected(_mk_device(addr_of(ev.get("addr") or "U")), _mk_adv(mfr))
        except Exception as e:  # noqa
            if ev["k"] in OPS:
                raise               # an operation of the harness itself failed (e.g. a shrunk history without its begin)
            exc = EXC.get(type(e).__name__, "exc:" + type(e).__name__)
        await asyncio.sleep(0)
        await asyncio.sleep(0)
        cl = []
        for pid, evd in calls:
            for (aid, iid), body in evd.items():
                extra = "" if set(body) == {"value"} else "!keys=" + ",".join(sorted(body))
                cl.append("%s.%d.%d.%s%s" % (pid, aid, iid, R.canon_py_value(body.get("value")), extra))
        sns = ",".join("-" if pr.description is None else str(pr.description.state_num) for pr in pairings)
        fbn = fallbacks[0] - fb0
        fbbit = 1 if (fbn > 0 and ev["k"] not in OPS) else 0      # ops: the poll a regular advertisement triggers is not C18's
        steps.append(("%s|%s|%s|%d" % (exc, "+".join(cl) or "-", sns, fbbit), fbn))
    for item in pending.values():
        if isinstance(item[1], dict):
            item[1]["sn"] = None
        item[0].set()
    for pr in pairings:
        pr._shutdown = True
    await _settle()
    for pr in pairings:
        pr._shutdown = True
    return steps


def impl_history(job):
    import asyncio
    world, events = job
    try:
        return asyncio.run(_impl_async(world, events))
    except Exception as e:  # noqa
        return [("harness-exc:%s:%s" % (type(e).__name__, str(e)[:80]), 0)] * max(1, len(events))


def impl_chunk(jobs):
    return [impl_history(j) for j in jobs]


def impl_all(jobs, workers=12):
    if len(jobs) < 24:
        return impl_chunk(jobs)
    size = max(4, min(64, len(jobs) // (workers * 4) + 1))
    parts = [jobs[i:i + size] for i in range(0, len(jobs), size)]
    ctx = multiprocessing.get_context("fork")
    with concurrent.futures.ProcessPoolExecutor(workers, mp_context=ctx) as ex:
        res = list(ex.map(impl_chunk, parts))
    return [x for r in res for x in r]


# ------------------------------------------------------------------ the property oracle
def parse_step(s):
    exc, calls, sns = s.split("|")[:3]
    return exc, ([] if calls == "-" else calls.split("+")), [None if x == "-" else int(x) for x in sns.split(",")]


def why_not_fresh(world, ev, data, intact, t, s, curkey=None):
    p = world[t]
    key = curkey if curkey is not None else p["key"]
    if not intact:
        return "corrupted-or-foreign-payload"
    if not key:
        return "pairing-has-no-key"
    if ev["key"] != key:
        return "wrong-key" if ev["key"] != p["key"] or key == p["key"] else "key-of-previous-epoch"
    if ev["aad"] != p["id"]:
        return "wrong-advertising-id-as-aad"
    if s is None:
        return "no-stored-state"
    n = ev["n"]
    if n == s:
        return "replay-of-current-state-number"
    if n < s:
        return "older-state-number"
    if n >= s + R.WINDOW:
        return "beyond-window"
    pt = bytes.fromhex(ev["pt"])
    if int.from_bytes(pt[0:2], "little") != n:
        return "inner-counter-mismatch"
    return None


def oracle_history(world, events, steps, check_monotone=True):
    """-> list of (key, what, step index).  steps: canonical implementation step strings."""
    out = []
    sns = [p["sn"] if (p["cache"] and p["sn"]) else None for p in world]
    psns = [p["sn"] if p["cache"] else None for p in world]     # the persisted copy (an accepted broadcast does not write it)
    keys = [p["key"] for p in world]          # the key each accessory currently broadcasts under
    dbs = [p["db"] for p in world]            # the accessory database each pairing currently holds (oracle's own books)
    disc = {p["id"] for p in world if p.get("pre") is not None}     # ids the controller holds a discovery for
    for i, p in enumerate(world):
        if p.get("pre") is not None:
            sns[i] = p["pre"]                 # the pairing was handed the discovery's description
    for idx, (ev, st) in enumerate(zip(events, steps)):
        if st.startswith("harness-exc"):
            out.append(("harness-exception", st, idx))
            break
        exc, calls, after = parse_step(st)
        if ev["k"] in OPS:
            # the other writers of the number / the key: the oracle keeps its OWN books (it does not adopt what the
            # implementation stores), so that a wrong write shows up as a concrete accepted replay afterwards
            sns = list(sns)
            if ev["k"] == "restart":
                disc.clear()
            elif ev["k"] in ("plain", "cfg_begin"):
                disc.add(ev["to"])
            for i, p in enumerate(world):
                if ev["k"] == "restart":
                    sns[i] = psns[i] if psns[i] else None
                    continue
                if p["id"] != ev["to"]:
                    continue
                k = ev["k"]
                if k == "plain":
                    sns[i] = psns[i] = ev["sn"] & 0xFFFF
                elif k == "populate" and sns[i] is not None:
                    sns[i] = ev["sn"]
                elif k == "update" and sns[i] is not None:
                    sns[i] = psns[i] = ev["sn"]
                elif k == "setkey" and dbs[i] == "1":       # generation needs the service-signature characteristic
                    keys[i] = ev["key"]
                elif k == "db":                             # database replaced, number and key handed in unchanged
                    dbs[i] = ev["db"]
                elif k == "reload":
                    # loaded again: the last accepted number lives on in the discovery's description (the same object);
                    # without a discovery the new pairing starts from the persisted copy, like after a restart
                    if ev["to"] not in disc:
                        sns[i] = psns[i] if psns[i] else None
                elif k == "cfg_begin":                      # regular advertisement (higher c#): description replaced at once
                    sns[i] = psns[i] = ev["sn"] & 0xFFFF
                elif k == "cfg_end":                        # re-read done: new database, persisted number dropped, GSN read
                    dbs[i] = ev["db"]
                    psns[i] = None
                    if sns[i] is not None:
                        sns[i] = ev["g"]
                elif k == "poll_end" and ev["sn"] is not None and sns[i] is not None:
                    sns[i] = psns[i] = ev["sn"]          # a failed poll (sn None) writes nothing
                elif k == "evt_begin" and sns[i] is not None:
                    sns[i] = psns[i] = ev["g"] if rolls(ev["g"]) else ev["g"] + 1
                elif k == "evt_end" and rolls(ev["g"]) and ev["req"] != "fail" and sns[i] is not None:
                    if dbs[i] == "1":
                        keys[i] = ev["key"]                 # key first ...
                    sns[i] = psns[i] = 1                    # ... then the number
            if after != sns:
                out.append(("number-writer-diverged:" + ev["k"],
                            "after operation #%d (%s) the implementation stores %s, expected %s" % (idx, ev["k"], after, sns), idx))
            continue
        if exc != "ok":
            out.append(("notification-raised:" + exc, "advertisement #%d (%s): %s escaped from the scanner callback"
                        % (idx, ev.get("label"), exc), idx))
        data, intact = realise(ev)
        t = target(world, data)
        reason = "not-addressed-to-any-pairing" if t is None else why_not_fresh(world, ev, data, intact, t, sns[t], keys[t])
        for i, p in enumerate(world):
            mine = [c for c in calls if c.startswith(p["id"] + ".")]
            if i != t or reason is not None:
                if after[i] != sns[i] or mine:
                    r = reason if i == t else ("addressed-to-another-pairing" if t is not None else "frame-id-names-no-pairing")
                    out.append(("accepted-not-fresh:" + r,
                                "pairing %s: advertisement #%d (%s) is not a genuine fresh notification for it (%s) but "
                                "state %s -> %s, listener calls %s" % (p["name"], idx, ev.get("label"), r, sns[i], after[i], mine), idx))
            else:
                n = ev["n"]
                pt = bytes.fromhex(ev["pt"])
                iid = int.from_bytes(pt[2:4], "little")
                fmt = dict(db_chars(dbs[i])).get(iid)       # the database the pairing holds NOW
                val = R.decode_value(fmt, pt[4:12]) if fmt else None
                want = ["%s.1.%d.%s" % (p["id"], iid, val)] if val is not None else []
                if after[i] != n:
                    out.append(("fresh-rejected" if after[i] == sns[i] else "fresh-wrong-state",
                                "pairing %s: genuine fresh notification #%d (n=%d, stored %s) left state %s, calls %s"
                                % (p["name"], idx, n, sns[i], after[i], mine), idx))
                elif fmt is None and st.split("|")[3:4] == ["0"]:
                    out.append(("fresh-unknown-characteristic-not-polled",
                                "pairing %s: notification #%d accepted at %d names characteristic %d which is not in the database "
                                "(its value cannot be delivered) but the accessory is not polled (no _process_disconnected_events)"
                                % (p["name"], idx, n, iid), idx))
                elif mine != want:
                    out.append(("fresh-wrong-delivery", "pairing %s: notification #%d accepted at %d but listeners got %s, expected %s"
                                % (p["name"], idx, n, mine, want), idx))
                if check_monotone and after[i] is not None and sns[i] is not None and after[i] != sns[i] and after[i] <= sns[i]:
                    out.append(("non-monotone", "stored state number went %s -> %s" % (sns[i], after[i]), idx))
        if check_monotone:
            for i in range(len(world)):
                if after[i] != sns[i] and not (sns[i] is not None and after[i] is not None and after[i] > sns[i]):
                    out.append(("non-monotone", "pairing %s: stored state number %s -> %s at #%d" % (world[i]["name"], sns[i], after[i], idx), idx))
        sns = after            # judge the next advertisement against what the implementation now stores
    return out


# ------------------------------------------------------------------ generators
def pt_for(inner, iid, value=b"\x01\x02\x00\x00\x00\x00\x00\x00", ptlen=None):
    return R.plaintext(inner, iid, value, ptlen)


def genuine(to, n, iid=11, value=b"\x01\x02\x00\x00\x00\x00\x00\x00", label="genuine", **mods):
    key = mods.pop("key", to)
    e = ev_seal(to, key, to, n, pt_for(n, iid, value), label, **mods)
    e["addr"] = to if to in PAIRING_NAMES else "U"      # sent by the accessory itself
    return e


def variants(s, n):
    """variations of the notification for A with nonce counter n while A stores s"""
    g = genuine("A", n)
    v = [("genuine", g)]
    v.append(("wrong-key-B", ev_seal("A", "B", "A", n, pt_for(n, 11), "wrong-key")))
    v.append(("wrong-key-Z", ev_seal("A", "Z", "A", n, pt_for(n, 11), "wrong-key")))
    v.append(("aad-B", ev_seal("A", "A", "B", n, pt_for(n, 11), "wrong-aad")))
    v.append(("aad-X", ev_seal("A", "A", "X", n, pt_for(n, 11), "wrong-aad")))
    v.append(("aad-empty", ev_seal("A", "A", "", n, pt_for(n, 11), "wrong-aad")))
    for to in "BCDEX":
        v.append(("framed-to-" + to, ev_seal(to, "A", "A", n, pt_for(n, 11), "wrong-frame-id")))
    v.append(("framed-to-B-aad-B", ev_seal("B", "A", "B", n, pt_for(n, 11), "wrong-frame-id")))
    # foreign advertising id (belongs to no pairing) x AAD {foreign, A's} x sender address {A's, B's, unknown} x key {A's, B's}:
    # routing is by the id in the frame only, so every pairing must ignore all of these
    for fid in ("X", "aabbccddee00"):
        for aad in (fid, "A"):
            for addr in ("A", "B", "U"):
                for key in ("A", "B"):
                    v.append(("foreign-id-%s-aad-%s-addr-%s-key-%s" % (fid[-2:], "foreign" if aad == fid else "A", addr, key),
                              ev_seal(fid, key, aad, n, pt_for(n, 11), "foreign-id", addr=addr)))
    # right id and AAD, sent from another / an unknown address: still genuine (the address is not authenticated)
    v.append(("genuine-from-addr-B", dict(g, addr="B", label="genuine-other-address")))
    v.append(("genuine-from-addr-U", dict(g, addr="U", label="genuine-other-address")))
    v.append(("framed-to-D-key-D", ev_seal("D", "D", "D", n, pt_for(n, 11), "no-description")))
    for name, inner in (("inner+1", n + 1), ("inner-1", n - 1), ("inner=s+1", s + 1), ("inner0", 0), ("inner^256", n ^ 256)):
        if inner & 0xFFFF != n:
            v.append((name, ev_seal("A", "A", "A", n, pt_for(inner, 11), "inner-mismatch")))
    v.append(("flip-tag", dict(g, flip=127, label="bitflip")))
    v.append(("flip-ct0", dict(g, flip=0, label="bitflip")))
    v.append(("flip-gsn", dict(g, flip=8, label="bitflip")))
    for m in (15, 12, 4, 3, 2, 1, 0):
        v.append(("trunc%d" % m, dict(g, trunc=m, label="truncated")))
    for t in (0x12, 0x10, 0x91, 0x01):
        v.append(("type%02x" % t, dict(g, type=t, label="other-type")))
    for st in (0x00, 0xFF):
        v.append(("stl%02x" % st, dict(g, stl=st, label="genuine-odd-stl")))
    for m in (8, 7, 3, 2, 1, 0):
        v.append(("hdrcut%d" % m, dict(g, hdrcut=m, label="short-frame")))
    v.append(("pt-empty", ev_seal("A", "A", "A", n, b"", "short-plaintext")))
    v.append(("pt-2", ev_seal("A", "A", "A", n, pt_for(n, 11, ptlen=2), "short-plaintext")))
    v.append(("pt-3", ev_seal("A", "A", "A", n, pt_for(n, 11, ptlen=3), "short-plaintext")))
    v.append(("pt-4", ev_seal("A", "A", "A", n, pt_for(n, 11, ptlen=4), "short-plaintext")))
    v.append(("pt-5", ev_seal("A", "A", "A", n, pt_for(n, 11, ptlen=5), "short-plaintext")))
    v.append(("unknown-iid", ev_seal("A", "A", "A", n, pt_for(n, 999), "unknown-iid")))
    v.append(("junk16", ev_raw("A", bytes(range(16)), "junk")))
    v.append(("noapple", dict(k="noapple", label="no-apple-data")))
    v.append(("otherco", dict(k="noapple", other=True, label="no-apple-data")))
    return v


def gen_core(tier):
    starts = [1, 7, 255, 65436, 65535] if tier == "quick" else [1, 2, 7, 100, 255, 256, 4095, 32767, 65400, 65436, 65534, 65535]
    offs = [1, 2, 50, 99, 100, 101, 0, -1, -5, -6, -100] if tier == "quick" else [1, 2, 3, 50, 98, 99, 100, 101, 150, 0, -1, -2, -5, -6, -100]
    hs = []
    for s in starts:
        for d in offs:
            n = s + d
            if n < 0:
                continue
            for name, v in variants(s, n):
                g = genuine("A", n)
                hs.append((mk_world(s, 300), [v, g, v] if tier == "quick" else [v, v, g, g, v], "core:%s:%+d" % (name, d)))
    return hs


VALUES = [b"", b"\x00", b"\x01", b"\x02", b"\xff", b"\x80", b"\x00\x01", b"\xff\xff", b"\x00\x80", b"\x01\x02\x03",
          b"\xff\xff\xff\x7f", b"\x00\x00\x00\x80", b"\xff\xff\xff\xff", b"\x00\x00\x80\x3f", b"\x00\x00\xc0\x7f",
          b"\x01\x00\x80\x7f", b"\x00\x00\x80\xff", b"\x00\x00\x00\x00\x01", b"\xff" * 7, b"\xff" * 8, b"\x00" * 8,
          b"\x01\x02\x03\x04\x05\x06\x07\x08", b"\xff\xff\xff\xff\xff\xff\xff\x7f", b"\x01\x02\x03\x04\x05\x06\x07\x08\x09\x0a",
          b"abc", b"abc\x00\x00\x00\x00\x00", b"caf\xc3\xa9", b"caf\xc3", b"\xe2\x82\xac", b"\xe2\x82", b"\xc0\x80", b"\xed\xa0\x80",
          b"\xed\x9f\xbf", b"\xf0\x9f\x98\x80", b"\xf0\x8f\xbf\xbf", b"\xf4\x8f\xbf\xbf", b"\xf4\x90\x80\x80", b"\xf5\x80\x80\x80",
          b"\xe0\x9f\xbf", b"\xe0\xa0\x80", b"ab\xffcd", b"\xef\xbf\xbe"]


def gen_values(tier):
    hs = []
    for who, db, key in (("A", "1", "A"), ("B", "2", "B")):
        evs, s = [], 7 if who == "A" else 300
        for (iid, f) in [(2, "string")] + DBS[db]:
            for val in VALUES:
                s += 1
                evs.append(ev_seal(who, key, who, s, R.plaintext(s, iid, val), "value:" + f))
        for i in range(0, len(evs), 24):
            first = bytes.fromhex(evs[i]["pt"])
            start = int.from_bytes(first[:2], "little") - 1
            hs.append((mk_world(start, 300) if who == "A" else mk_world(7, start), evs[i:i + 24], "values:" + who))
    return hs


def gen_flips(tier, r):
    hs = []
    bases = [(7, 11, b"\x01\x02\x00\x00\x00\x00\x00\x00"), (65500, 13, b"\xff" * 8)]
    if tier != "quick":
        bases += [(255, 16, b"abc\x00\x00\x00\x00\x00"), (4095, 9, b"\x01" + bytes(7))]
    for s, iid, val in bases:
        g = genuine("A", s + 1, iid, val)
        for bit in range(128):
            f = dict(g, flip=bit, label="bitflip")
            hs.append((mk_world(s, 300), [f, g, f], "flip:payload-bit"))
        for bit in range(64):
            f = dict(g, hflip=bit, label="header-bitflip")
            hs.append((mk_world(s, 300), [f, g], "flip:header-bit"))
        # two-bit and byte-level damage of the tag
        for _ in range(16 if tier == "quick" else 200):
            b1, b2 = r.sample(range(128), 2)
            real, _ = realise(g)
            pl = bytearray(real[8:])
            pl[b1 // 8] ^= 1 << (b1 % 8)
            pl[b2 // 8] ^= 1 << (b2 % 8)
            hs.append((mk_world(s, 300), [ev_raw("A", bytes(pl), "two-bit-damage"), g], "flip:two-bits"))
    return hs


def gen_short(tier, r):
    """payloads of 0..3 bytes, including genuine tag prefixes (they open to the empty plaintext)"""
    hs = []
    for s in (7, 65500):
        g = genuine("A", s + 1)
        for n in (s + 1, s, s + 2, s + 50):
            full = R.seal(KEYS["A"], n, bytes.fromhex(IDS["A"]), b"")      # 4 tag bytes of the empty plaintext
            for ln in (1, 2, 3):
                hs.append((mk_world(s, 300), [ev_raw("A", full[:ln], "tag-prefix-%d" % ln), g], "short:tag-prefix"))
        for _ in range(6 if tier == "quick" else 60):
            ln = r.choice([1, 1, 2, 3])
            hs.append((mk_world(s, 300), [ev_raw("A", bytes(r.getrandbits(8) for _ in range(ln)), "short-random"), g], "short:random"))
        hs.append((mk_world(s, 300), [ev_raw("A", b"", "empty-payload"), g, ev_raw("A", b"", "empty-payload")], "short:empty"))
    return hs


def gen_random(tier, r):
    nh = 700 if tier == "quick" else 30000
    hs = []
    starts = [1, 2, 7, 99, 100, 255, 256, 1000, 4095, 32767, 65300, 65436, 65500, 65534, 65535]
    for _ in range(nh):
        st = {"A": r.choice(starts + [r.randrange(1, 65536)]), "B": r.choice(starts + [r.randrange(1, 65536)])}
        world = mk_world(st["A"], st["B"])
        sent = {"A": [], "B": []}
        pst = dict(st)             # the generator's idea of the persisted copy
        curkey = {"A": "A", "B": "B"}
        gdb = {"A": "1", "B": "2"}      # the generator's idea of the current database / discoveries
        gdisc = set()
        evs = []
        for _ in range(r.choice([3, 4, 6, 8, 10, 12])):
            who = "A" if r.random() < 0.75 else "B"
            other = "B" if who == "A" else "A"
            s = st[who]
            iid, f = r.choice(DBS["1" if gdb[who] in ("1", "1nosig") else "2"] if r.random() < 0.85 else DBS["1"] + DBS["2"])
            val = r.choice(VALUES[:24]) if f != "string" else r.choice(VALUES[24:])
            val = (val + bytes(8))[:8] if r.random() < 0.8 else val
            x = r.random()
            if r.random() < 0.09:
                # another writer of the state number: mostly forward (the accessory's GSN moves on), sometimes not
                if r.random() < 0.12:
                    evs.append(RESTART)
                    st = {k: (pst[k] or st[k]) for k in st}
                    gdisc.clear()
                    continue
                if r.random() < 0.2:
                    k2 = r.choice(["R1", "R2", "R3"])
                    evs.append(ev_setkey(who, k2))
                    if gdb[who] == "1":            # needs the service-signature characteristic of the current database
                        curkey[who] = k2
                    continue
                if r.random() < 0.2:
                    gdb[who] = r.choice(["1", "2", "1nosig", "2", "1"])
                    evs.append(ev_db(who, gdb[who]))
                    continue
                if r.random() < 0.2:
                    evs.append(ev_reload(who))
                    if IDS[who] not in gdisc:
                        st[who] = pst[who] or st[who]
                    continue
                kind = r.choice(["populate", "populate", "update", "plain"])
                n2 = max(1, s + r.choice([0, 1, 2, 3, 6, 50, 99, 120, -1, -3])) & 0xFFFF or 1
                evs.append(ev_op(kind, who, n2))
                st[who] = n2
                if kind != "populate":
                    pst[who] = n2
                if kind == "plain":
                    gdisc.add(IDS[who])
                continue
            if x < 0.35:
                n = s + 1
                e = genuine(who, n, iid, val, "genuine+1")
            elif x < 0.50:
                n = s + r.choice([2, 3, 10, 50, 97, 98, 99])
                e = genuine(who, n, iid, val, "genuine+k")
            elif x < 0.58:
                e = sent[who][-1] if sent[who] and r.random() < 0.7 else genuine(who, s, iid, val, "same")
                e = dict(e, label="replay-current" if e["n"] == s else "replay-older")
            elif x < 0.66:
                if sent[who] and r.random() < 0.6:
                    e = dict(r.choice(sent[who]), label="replay-older")
                else:
                    e = genuine(who, max(0, s - r.choice([1, 2, 3, 5, 50, 99, 100])), iid, val, "older")
            elif x < 0.71:
                e = genuine(who, s + r.choice([100, 101, 150, 1000]), iid, val, "beyond-window")
            elif x < 0.77:
                n = s + r.choice([1, 1, 2, 50])
                e = ev_seal(who, r.choice([other, "Z"]), who, n, R.plaintext(n, iid, val), "wrong-key")
            elif x < 0.82:
                n = s + r.choice([1, 1, 2, 50])
                e = ev_seal(who, who, r.choice([other, "X"]), n, R.plaintext(n, iid, val), "wrong-aad")
            elif x < 0.86:
                n = s + 1
                if r.random() < 0.5:
                    fid = r.choice(["X", "aabbccddee00", "010203040507"])
                    e = ev_seal(fid, r.choice([who, who, other]), r.choice([fid, fid, who]), n, R.plaintext(n, iid, val), "foreign-id",
                                addr=r.choice([who, who, other, "U"]))
                else:
                    e = ev_seal(r.choice([other, "X", "C", "D", "E"]), who, who, n, R.plaintext(n, iid, val), "wrong-frame-id",
                                addr=r.choice([who, other, "U"]))
            elif x < 0.92:
                n = s + r.choice([1, 1, 2, 50, 99])
                inner = r.choice([n + 1, n - 1, s, s + 1, 0, n ^ 0x100, r.randrange(65536)])
                e = ev_seal(who, who, who, n, R.plaintext(inner, iid, val), "inner-mismatch" if inner & 0xFFFF != n else "genuine+k")
            elif x < 0.96:
                e = dict(genuine(who, s + 1, iid, val), flip=r.randrange(128), label="bitflip")
            else:
                e = ev_raw(who, bytes(r.getrandbits(8) for _ in range(r.choice([0, 1, 2, 3, 4, 16, 16, 20]))), "raw")
            if e["k"] == "seal" and e["key"] == who and curkey[who] != who and e.get("_fixed") is None:
                if r.random() < 0.85:
                    e = dict(e, key=curkey[who])
                else:
                    e = dict(e, label="old-epoch-key")
            evs.append(e)
            # the generator's own bookkeeping of what a correct receiver stores (used only to aim the offsets)
            data, intact = realise(e)
            t = target(world, data)
            if t is not None and world[t]["name"] in st and e["k"] == "seal":
                nm = world[t]["name"]
                if why_not_fresh(world, e, data, intact, t, st[nm], curkey[nm]) is None:
                    st[nm] = e["n"]
                    sent[nm].append(e)
        hs.append((world, evs, "random"))
    return hs


def ev_op(kind, to, sn, label=None):
    return dict(k=kind, to=IDS[to], sn=sn, label=label or kind)


RESTART = dict(k="restart", label="restart")


def gen_ops(tier):
    """histories in which the state number is also advanced by another route between notifications:
    connection populate (description only), poll/_update_state_num (both copies), regular advertisement, restart.
    A number learned by ANY route must not be undercut by a broadcast (bcast_no_replay_ops)."""
    hs = []
    starts = [20, 255, 65400] if tier == "quick" else [1, 20, 255, 256, 4095, 32767, 65400, 65430]
    for s in starts:
        def g(n, lab="genuine"):
            return genuine("A", n, label=lab)
        for kind in ("populate", "update", "plain"):
            for jump in (1, 5, 50, 99, 150):
                k = s + 1 + jump                          # the number learned by the other route
                for old in sorted({s + 1, s + 2, s + 3, k - 1, k}):
                    if s < old <= k:
                        hs.append((mk_world(s, 300), [g(s + 1), ev_op(kind, "A", k), g(old, "older-than-learned"),
                                                      g(k + 1), g(k + 1, "replay-current")], "ops:%s-after-accept" % kind))
            hs.append((mk_world(s, 300), [ev_op(kind, "A", s + 5), g(s + 3, "older-than-learned"), g(s + 5, "older-than-learned"),
                                          g(s + 6)], "ops:%s-first" % kind))
            hs.append((mk_world(s, 300), [ev_op(kind, "A", s + 5), genuine("B", 301), g(s + 6)], "ops:%s-other-pairing" % kind))
            hs.append((mk_world(s, 300), [g(s + 1), ev_op(kind, "A", s + 1), g(s + 1, "replay-current"), g(s + 2)], "ops:%s-same" % kind))
            # two routes in a row, then a restart in between
            hs.append((mk_world(s, 300), [ev_op(kind, "A", s + 4), ev_op("populate", "A", s + 9), g(s + 6, "older-than-learned"),
                                          g(s + 10)], "ops:%s-then-populate" % kind))
            hs.append((mk_world(s, 300), [ev_op(kind, "A", s + 5), RESTART, g(s + 3, "after-restart"), g(s + 6), RESTART,
                                          g(s + 6, "after-restart")], "ops:%s-restart" % kind))
        hs.append((mk_world(s, 300), [g(s + 1), g(s + 1, "replay-current"), RESTART, g(s + 1, "after-restart")], "ops:restart-replay"))
        hs.append((mk_world(s, 300), [g(s + 1), ev_op("populate", "A", s + 6), RESTART, g(s + 3, "after-restart"),
                                      g(s + 7)], "ops:populate-restart"))
        hs.append((mk_world(s, 300), [RESTART, g(s + 1), ev_seal("D", "D", "D", 5, pt_for(5, 11), "no-description"),
                                      ev_seal("E", "A", "E", 5, pt_for(5, 11), "wrong-frame-id")], "ops:restart-first"))
    return hs


def ev_setkey(to, key):
    return dict(k="setkey", to=IDS[to], key=key, label="setkey")


def gen_keys(tier):
    """one long-lived pairing whose broadcast key is (re)generated between notifications
    (_async_set_broadcast_encryption_key, real HKDF), restarts that must restore the saved key, the 16-bit
    roll-over of the state number, and authentic notifications whose value cannot be delivered."""
    hs = []
    starts = [20, 65400] if tier == "quick" else [1, 20, 255, 4095, 32767, 65400, 65430]

    def gk(n, key, lab="genuine", who="A", iid=11):
        return genuine(who, n, iid, label=lab, key=key)
    for s in starts:
        w = mk_world(s, 300)
        hs.append((w, [gk(s + 1, "A"), ev_setkey("A", "R1"), gk(s + 2, "A", "old-epoch-key"), gk(s + 2, "R1"),
                       gk(s + 2, "R1", "replay-current"), RESTART, gk(s + 3, "A", "old-epoch-key"), gk(s + 3, "R1", "after-restart"),
                       ev_setkey("A", "R2"), gk(s + 4, "R1", "old-epoch-key"), gk(s + 4, "R2")], "keys:rotate"))
        hs.append((w, [ev_setkey("A", "R1"), gk(s + 1, "R2", "wrong-key"), gk(s + 1, "R1"), ev_setkey("A", "R1"), gk(s + 2, "R1")],
                   "keys:same-key-again"))
        # B's database has no service-signature characteristic: the method returns early, the key stays
        hs.append((w, [ev_setkey("B", "R1"), gk(301, "R1", "wrong-key", "B"), gk(301, "B", "genuine", "B")], "keys:no-signature-char"))
        # rotation of A does not touch B, and B's key does not open A's
        hs.append((w, [ev_setkey("A", "R1"), gk(301, "B", "genuine", "B"), gk(s + 1, "B", "wrong-key"), gk(s + 1, "R1")], "keys:other-pairing"))
        # key regenerated for a pairing that had none (C: cache without key) - it starts accepting
        hs.append((w, [ev_seal("C", "R3", "C", 6, pt_for(6, 11), "no-key-yet"), ev_setkey("C", "R3"),
                       ev_seal("C", "R3", "C", 6, pt_for(6, 11), "genuine"), RESTART,
                       ev_seal("C", "R3", "C", 7, pt_for(7, 11), "after-restart")], "keys:first-key"))
        # undelivered but advanced (repaired behaviour): unknown iid, short value, bad UTF-8, database without accessory 1
        hs.append((w, [gk(s + 1, "A", "unknown-iid", iid=999), gk(s + 1, "A", "replay-current", iid=999),
                       ev_seal("A", "A", "A", s + 2, pt_for(s + 2, 12, ptlen=5), "short-value"),
                       ev_seal("A", "A", "A", s + 2, pt_for(s + 2, 12, ptlen=5), "replay-current"),
                       ev_seal("A", "A", "A", s + 3, R.plaintext(s + 3, 16, b"\xff\xfe" + bytes(6)), "bad-utf8"),
                       gk(s + 3, "A", "replay-current"), gk(s + 4, "A")], "keys:undelivered"))
        hs.append((w, [ev_seal("F", "F", "F", 41, pt_for(41, 2), "no-accessory-1"), ev_seal("F", "F", "F", 41, pt_for(41, 2), "replay-current"),
                       ev_seal("F", "F", "F", 42, pt_for(42, 11), "no-accessory-1"), RESTART,
                       ev_seal("F", "F", "F", 41, pt_for(41, 2), "after-restart")], "keys:no-accessory-1"))
    # the 16-bit roll-over: 65535 is a dead end for broadcasts; the code's handling = number 1 AND a new key
    for s in ([65534, 65535] if tier == "quick" else [65436, 65500, 65534, 65535]):
        w = mk_world(s, 300)
        hs.append((w, [gk(65535, "A"), gk(65536, "A", "beyond-16-bit"), gk(65537, "A", "beyond-16-bit"), ev_setkey("A", "R1"),
                       ev_op("update", "A", 1), gk(2, "A", "old-epoch-key"), gk(50, "A", "old-epoch-key"), gk(2, "R1"),
                       gk(2, "R1", "replay-current"), gk(3, "R1")], "keys:rollover"))
    return hs


def ev_event(to, g, req="ok", key="R1"):
    """(begin, end) of the first connected GATT event of a session; the accessory's GSN is g; req = what becomes of
    the 'generate broadcast key' request of a roll-over: ok / fail (accessory disconnects) / pdu (refused, only logged)"""
    b = dict(k="evt_begin", to=IDS[to], g=g, req=req, key=key, label="connected-event-begin")
    e = dict(k="evt_end", to=IDS[to], g=g, req=req, key=key, label="connected-event-end:" + req)
    return b, e


def gen_events(tier):
    """the connected-event callback (_async_start_notify's handler) on the live pairing, with advertisements
    delivered while the roll-over's key request is in flight, after it failed, and after it completed"""
    hs = []

    def old(n, key="A"):
        return genuine("A", n, label="old-epoch-replay", key=key)
    for s in ([65500, 20] if tier == "quick" else [65500, 65533, 65534, 20, 4095]):
        for g in (65534, 65535):
            for req in ("ok", "fail", "pdu"):
                b, e = ev_event("A", g, req, "R1")
                newkey = "A" if req == "fail" else "R1"
                tail = [old(5), old(2), genuine("A", 2, key=newkey, label="new-epoch" if req != "fail" else "old-epoch-replay"),
                        genuine("A", 2, key=newkey, label="replay-current"), old(3)]
                hs.append((mk_world(s, 300), [genuine("A", s + 1), b, old(5), old(2), old(100), old(g), e] + tail,
                           "event:rollover-" + req))
                hs.append((mk_world(s, 300), [b, e] + tail + [RESTART, old(5), genuine("A", 3, key=newkey, label="after-restart")],
                           "event:rollover-%s-no-interleaving" % req))
            # a failed roll-over, then the next session succeeds
            b1, e1 = ev_event("A", g, "fail", "R1")
            b2, e2 = ev_event("A", g, "ok", "R2")
            hs.append((mk_world(s, 300), [b1, old(5), e1, old(5), b2, old(5), e2, old(5), genuine("A", 2, key="R2", label="new-epoch")],
                       "event:rollover-fail-then-ok"))
        # no roll-over: number := g + 1 at once, key untouched
        for g in (s, s + 7, 65533):
            b, e = ev_event("A", g, "ok", "R1")
            hs.append((mk_world(s, 300), [b, genuine("A", g + 1, label="replay-current"), genuine("A", g + 2), e,
                                          genuine("A", g + 3), genuine("A", g + 3, key="R1", label="wrong-key")], "event:no-rollover"))
    return hs


def ev_poll(to, sn):
    """(begin, end) of a disconnected-events poll; sn = the number the accessory reports, None = the poll fails"""
    return (dict(k="poll_begin", to=IDS[to], label="poll-begin"),
            dict(k="poll_end", to=IDS[to], sn=sn, label="poll-end:" + ("fail" if sn is None else "ok")))


def gen_polls(tier):
    """advertisements delivered while the poll hangs in its connection attempt; the poll then fails or succeeds.
    Nothing accepted in the meantime may be un-accepted (bcast_replay_after_failed_poll)."""
    hs = []
    for s in ([20, 65400] if tier == "quick" else [1, 20, 255, 4095, 65400, 65500]):
        w = mk_world(s, 300)

        def g(n, lab="genuine"):
            return genuine("A", n, label=lab)
        junk = ev_raw("A", bytes(range(16)), "junk")          # anyone can send this; it triggers the poll fallback
        for k in (1, 2, 50, 99):
            b, e = ev_poll("A", None)
            hs.append((w, [g(s + 1), junk, b, junk, g(s + 1 + k), e, g(s + 1 + k, "replay-current"), g(s + 1, "replay-older"),
                           g(s + 2 + k)], "poll:fail"))
        b, e = ev_poll("A", None)
        hs.append((w, [genuine("A", s + 1, 999, label="unknown-iid"), b, g(s + 2), g(s + 3), e, g(s + 2, "replay-older"),
                       g(s + 3, "replay-current"), RESTART, g(s + 3, "after-restart")], "poll:fail-unknown-iid-trigger"))
        for rep_sn in (s + 5, s + 1, s + 2):
            b, e = ev_poll("A", rep_sn)
            hs.append((w, [b, g(s + 1), g(s + 2), e, g(s + 1, "replay-older"), g(s + 2, "replay-older"), g(s + 3, "older-than-learned"),
                           g(s + 6)], "poll:ok"))
        b, e = ev_poll("A", None)
        b2, e2 = ev_poll("B", 305)
        hs.append((w, [b, b2, g(s + 1), genuine("B", 301), e2, e, g(s + 1, "replay-current"), genuine("B", 301, label="replay-older"),
                       genuine("B", 306)], "poll:two-pairings"))
    return hs


def ev_db(to, db):
    return dict(k="db", to=IDS[to], db=db, label="database-replaced:" + db)


def ev_reload(to):
    return dict(k="reload", to=IDS[to], label="pairing-loaded-again")


def ev_cfg(to, sn, db, g):
    """(begin, end) of a config-number change: regular advertisement (c#+1, state number sn) -> re-read of the database
    (suspended in its connection attempt until end) -> database db, accessory GSN g"""
    return (dict(k="cfg_begin", to=IDS[to], sn=sn, db=db, g=g, label="config-changed-begin"),
            dict(k="cfg_end", to=IDS[to], sn=sn, db=db, g=g, label="config-changed-end:" + db))


def world_pre(sa, sb, pre_a=None, pre_b=None):
    w = mk_world(sa, sb)
    if pre_a is not None:
        w[0]["pre"] = pre_a
    if pre_b is not None:
        w[1]["pre"] = pre_b
    return w


def gen_db(tier):
    """the accessory database is replaced between notifications (restore_accessories_state; config-number change re-read as a
    suspendable operation): an accepted notification must be decoded with the format its iid has in the database the
    pairing holds NOW (db 1 -> 2: iid 9 bool->uint64, 10 uint8->string, 11 uint16->uint8, 12.. gone, 300/65535 new)"""
    hs = []
    for s in ([20, 65400] if tier == "quick" else [1, 20, 255, 4095, 65400]):
        w = mk_world(s, 300)

        def g(n, iid=11, lab="genuine", who="A", key=None):
            return genuine(who, n, iid, label=lab, **({"key": key} if key else {}))
        hs.append((w, [g(s + 1, 11), g(s + 2, 12), g(s + 3, 300, "unknown-iid"), ev_db("A", "2"), g(s + 4, 11), g(s + 5, 12, "unknown-iid"),
                       g(s + 6, 300), g(s + 4, 11, "replay-older"), g(s + 7, 10), RESTART, g(s + 7, 10, "after-restart"), g(s + 8, 9)],
                   "db:restore"))
        for x in ("2", "1nosig", "noaid1"):
            hs.append((w, [g(s + 1, 11), g(s + 2, 9), ev_db("A", x), g(s + 3, 11), g(s + 4, 9), g(s + 4, 9, "replay-current"),
                           ev_db("A", "1"), g(s + 5, 11), g(s + 6, 9)], "db:restore-and-back"))
            hs.append((w, [ev_db("A", x), g(s + 1, 11), g(s + 2, 10), g(s + 3, 16)], "db:restore-first"))
        # the other pairing's database: B gets db 1, A is untouched
        hs.append((w, [g(s + 1, 11), genuine("B", 301, 11), ev_db("B", "1"), genuine("B", 302, 11), genuine("B", 303, 12), g(s + 2, 11),
                       ev_db("B", "2"), genuine("B", 304, 11), genuine("B", 305, 300)], "db:other-pairing"))
        # key generation needs the signature characteristic of the CURRENT database
        hs.append((w, [ev_db("A", "1nosig"), ev_setkey("A", "R1"), g(s + 1, 11, "wrong-key", key="R1"), g(s + 1, 11), ev_db("A", "1"),
                       ev_setkey("A", "R1"), g(s + 2, 11, "old-epoch-key"), g(s + 2, 11, key="R1")], "db:setkey-after-replace"))
        hs.append((w, [ev_db("B", "1"), ev_setkey("B", "R2"), genuine("B", 301, 11, label="old-epoch-key"), genuine("B", 301, 11, key="R2"),
                       RESTART, genuine("B", 302, 12, key="R2", label="after-restart")], "db:setkey-after-replace"))
        # config-number change: notifications delivered while the re-read hangs see the OLD database
        for gsn, x in ((s + 3, "2"), (s + 10, "1nosig")):
            b, e = ev_cfg("A", s + 1, x, gsn)
            hs.append((w, [g(s + 1, 11), b, g(s + 2, 11), g(s + 3, 12), e, g(s + 3, 12, "replay-current"), g(s + 2, 11, "replay-older"),
                           g(gsn + 1, 11), g(gsn + 2, 12), g(gsn + 3, 300), g(gsn + 3, 300, "replay-current"), g(gsn + 4, 10)],
                       "db:config-change"))
        b, e = ev_cfg("A", s, "2", s)
        hs.append((w, [b, e, g(s + 1, 11), RESTART, g(s + 2, 11, "after-restart-no-description"),
                       dict(k="plain", to=IDS["A"], sn=s + 1, label="plain-adv-forward"), g(s + 2, 11)], "db:config-change-restart"))
        b, e = ev_cfg("A", s + 1, "2", s + 1)
        b2, e2 = ev_cfg("A", s + 2, "1", s + 3)
        hs.append((w, [g(s + 1, 10), b, e, g(s + 1, 10, "replay-current"), g(s + 2, 10), b2, g(s + 3, 10), e2, g(s + 3, 10, "replay-current"),
                       g(s + 4, 10), g(s + 5, 11)], "db:config-change-twice"))
    return hs


def gen_reload(tier):
    """load_pairing again for the same id on the SAME controller (integration reload).  With a discovery in the controller the
    last accepted number survives (bcast_reload_with_discovery); without one it is a restart of that pairing."""
    hs = []
    for s in ([20, 65400] if tier == "quick" else [1, 20, 255, 4095, 65400]):
        def g(n, iid=11, lab="genuine", who="A", key=None):
            return genuine(who, n, iid, label=lab, **({"key": key} if key else {}))
        pl = dict(k="plain", to=IDS["A"], sn=s, label="plain-adv-same")
        rl = ev_reload("A")
        w = mk_world(s, 300)
        hs.append((w, [pl, g(s + 1), g(s + 2), g(s + 5), rl, g(s + 1, lab="replay-older"), g(s + 2, lab="replay-older"),
                       g(s + 5, lab="replay-current"), g(s + 6), rl, g(s + 6, lab="replay-current"), g(s + 7)], "reload:after-plain"))
        hs.append((w, [pl, rl, g(s + 1), g(s + 2), rl, g(s + 1, lab="replay-older"), g(s + 2, lab="replay-current"), g(s + 3), rl, rl,
                       g(s + 3, lab="replay-current")], "reload:twice"))
        # the regular advertisement was seen BEFORE the pairing was loaded the first time
        for pre in (s, s + 3):
            wp = world_pre(s, 300, pre_a=pre)
            hs.append((wp, [g(pre + 1), g(pre + 2), g(pre + 5), rl, g(pre + 1, lab="replay-older"), g(pre + 5, lab="replay-current"),
                            g(pre + 6), RESTART, g(pre + 6, lab="after-restart")], "reload:discovery-before-load"))
            hs.append((wp, [g(pre + 1, 999, "unknown-iid"), rl, g(pre + 1, 999, "replay-current"), g(pre + 2)],
                       "reload:discovery-before-load"))
        hs.append((world_pre(s, 300, pre_a=s, pre_b=300), [g(s + 1), genuine("B", 301), ev_reload("B"), g(s + 1, lab="replay-current"),
                                                           genuine("B", 301, label="replay-current"), genuine("B", 302), g(s + 2)],
                   "reload:other-pairing"))
        # no discovery: like a restart of that pairing (persisted copy)
        hs.append((w, [g(s + 1), rl, g(s + 1, lab="after-restart"), g(s + 1, lab="replay-current"), ev_op("update", "A", s + 4), rl,
                       g(s + 3, lab="older-than-learned"), g(s + 5)], "reload:no-discovery"))
        # number learned over a connection (description only) + reload; key regenerated + reload; database replaced + reload
        hs.append((w, [pl, ev_op("populate", "A", s + 6), rl, g(s + 3, lab="older-than-learned"), g(s + 7)], "reload:after-populate"))
        hs.append((w, [pl, ev_setkey("A", "R1"), g(s + 1, key="R1"), rl, g(s + 2, lab="old-epoch-key"), g(s + 1, key="R1", lab="replay-current"),
                       g(s + 2, key="R1")], "reload:after-setkey"))
        hs.append((w, [pl, g(s + 1, 11), ev_db("A", "2"), rl, g(s + 1, 11, "replay-current"), g(s + 2, 11), g(s + 3, 12, "unknown-iid")],
                   "reload:after-db"))
    return hs


def gen_rollover_obs():
    """observation: a roll-over of the number WITHOUT a new key re-admits the previous epoch"""
    g = genuine("A", 2)
    return [(mk_world(1, 300), [g, g, ev_op("update", "A", 65535), ev_op("update", "A", 1), g], "keys:rollover-without-rotation")]


def gen_plain():
    """outside the quantifier: plain type-0x06 advertisements interleaved (observation only)"""
    hs = []
    for s in (10, 65000):
        g = genuine("A", s + 1)
        hs.append((mk_world(s, 300), [g, g, dict(k="plain", to=IDS["A"], sn=s, label="plain-adv-rollback"), g], "plain:rollback"))
        hs.append((mk_world(s, 300), [dict(k="plain", to=IDS["A"], sn=s + 50, label="plain-adv-forward"), g, genuine("A", s + 51)], "plain:forward"))
        hs.append((mk_world(s, 300), [dict(k="plain", to=IDS["D"], sn=s, label="plain-adv-first-description"),
                                      ev_seal("D", "D", "D", s + 1, pt_for(s + 1, 11), "genuine+1")], "plain:first-description"))
    return hs


# ------------------------------------------------------------------ value stream (values.from_bytes alone)
def gen_val_cases(tier, r):
    cases = []
    for a in range(256):
        cases.append(("string", bytes([a])))
    for a in range(0x80, 256):
        for b in range(256):
            cases.append(("string", bytes([a, b])))
    alpha = [0x00, 0x41, 0x7f, 0x80, 0x8f, 0x90, 0x9f, 0xa0, 0xbf, 0xc0, 0xc1, 0xc2, 0xdf, 0xe0, 0xe1, 0xec, 0xed, 0xee, 0xef,
             0xf0, 0xf1, 0xf3, 0xf4, 0xf5, 0xff]
    for t in itertools.product(alpha, repeat=3):
        cases.append(("string", bytes(t)))
    lead4 = [0xe0, 0xed, 0xf0, 0xf1, 0xf4, 0xf5]
    for a in lead4:
        for t in itertools.product(alpha, repeat=3):
            cases.append(("string", bytes((a,) + t)))
    fmts = ["bool", "uint8", "uint16", "uint32", "uint64", "int", "float", "string", "tlv8", "data", "array", "dict"]
    for f in fmts:
        for v in VALUES:
            cases.append((f, v[:8]))
        for ln in range(0, 9):
            for _ in range(8 if tier == "quick" else 200):
                cases.append((f, bytes(r.getrandbits(8) for _ in range(ln))))
    return cases


def impl_values(cases):
    import logging
    logging.disable(logging.CRITICAL)
    from aiohomekit.controller.ble.values import from_bytes
    from aiohomekit.model import Accessories
    acc = Accessories.from_list(accessories_json("1"))
    chars = {f: acc.aid(1).characteristics.iid(iid) for iid, f in DBS["1"]}
    out = []
    for f, v in cases:
        try:
            out.append(R.canon_py_value(from_bytes(chars[f], v)))
        except Exception as e:  # noqa
            out.append(EXC.get(type(e).__name__, "exc:" + type(e).__name__))
    return out


def canon_model_val(a):
    if a[0] == "x":
        return "s" + R.hexs(R.hexs(bytes.fromhex(a[1:]) if a[1:] != "-" else b"").replace("-", "").encode())
    if a[0] == "f":
        return R.canon_float_bits(int(a[1:]))
    return a


# ------------------------------------------------------------------ extraction cross-check (vm_compute)
_XC_OUT = {"notapple": 0, "othertype": 1, "nopairing": 2, "nokey": 3, "nodesc": 4, "nodecrypt": 5, "stale": 6,
           "mismatch": 7, "accepted": 8, "crash-struct": 10, "crash-unicode": 11, "crash-nochar": 12,
           "undelivered-struct": 10, "undelivered-unicode": 11, "undelivered-nochar": 12, "op": 99}
_XC_FMT = {"bool": "FBool", "u8": "FU8", "u16": "FU16", "u32": "FU32", "u64": "FU64", "int": "FInt",
           "float": "FFloat", "string": "FString", "other": "FOther"}
_XC_PRELUDE = """From Coq Require Import List NArith ZArith.
From AHK Require Import Lib.ByteStr Model.Bcast Model.BcastDb.
Import ListNotations.
Open Scope Z_scope.
Definition xo (l : list op) : list xop := map XOp l.
Definition zb (l : bytes) : list Z := Z.of_nat (length l) :: map Z.of_N l.
Definition show_v (v : value) : list Z :=
  match v with
  | VBool b => [0; if b then 1 else 0; 0]
  | VInt z => [1; z; 0]
  | VFloat n => [2; Z.of_N n; 0]
  | VStr s => 3 :: 0 :: zb s
  | VHex s => 4 :: 0 :: zb s
  end.
Definition show_ck (k : crashkind) : Z := match k with CkStruct => 10 | CkUnicode => 11 | CkNoChar => 12 end.
Definition show_o (o : outcome) : Z :=
  match o with
  | ONotApple => 0 | OOtherType => 1 | ONoPairing => 2 | ONoKey => 3 | ONoDesc => 4 | ONoDecrypt => 5
  | OStale => 6 | OMismatch => 7 | OAccepted => 8 | OUndelivered k => show_ck k
  end.
Definition show_call (x : call) : list Z :=
  let '(i, aid, iid, v) := x in zb i ++ [Z.of_N aid; Z.of_N iid] ++ show_v v.
Definition show_sns (c : ctrl) : list Z :=
  Z.of_nat (length c) :: flat_map (fun p => match p_sn p with None => [0; 0] | Some n => [1; Z.of_N n] end) c.
Definition show_psns (c : ctrl) : list Z :=
  Z.of_nat (length c) :: flat_map (fun p => match p_psn p with None => [0; 0] | Some n => [1; Z.of_N n] end) c.
Definition show_keys (c : ctrl) : list Z :=
  Z.of_nat (length c) :: flat_map (fun p => match p_key p with None => [0; 0] | Some n => [1; Z.of_N n] end) c.
Definition show_step (o : Z) (fb : bool) (cl : list call) (c : ctrl) : list Z :=
  o :: Z.of_nat (length cl) :: flat_map show_call cl ++ show_sns c ++ show_psns c ++ [if fb then 1 else 0] ++ show_keys c.
Fixpoint run_ops (c : xstate) (l : list xop) (last : Z * bool * list call) : xstate * (Z * bool * list call) :=
  match l with
  | [] => (c, last)
  | x :: r => let '(c', o, cl) := xapply c x in
              run_ops c' r (match x with XOp (OAdv _) => (show_o o, falls_back o, cl) | _ => (99, false, []) end)
  end.
Fixpoint show_hist (c : xstate) (h : list (list xop)) : list Z :=
  match h with
  | [] => []
  | l :: r => let '(c', (o, fb, cl)) := run_ops c l (99, false, []) in show_step o fb cl (x_c c') ++ show_hist c' r
  end.
Definition show_val (r : crashkind + value) : list Z :=
  match r with inl k => [0; show_ck k] | inr v => 1 :: show_v v end.
"""


def _xc_bytes(h):
    return "[]" if h == "-" else "[" + "; ".join("%d%%N" % b for b in bytes.fromhex(h)) + "]"


def _xc_optn(s):
    return "None" if s == "-" else "(Some %d%%N)" % int(s)


def _xc_term(line):
    """a driver request line -> the Gallina term the driver evaluates for it (same parse as ocaml/drv_c18.ml)"""
    toks = line.split(" ")
    if toks[0] == "val":
        return "show_val (from_bytes %s %s)" % (_XC_FMT[toks[1]], _xc_bytes(toks[2]))
    ps, evs, inits = [], [], []

    def xchars(c):
        return "[]" if c == "-" else "[" + "; ".join(
            "(%d%%N, %s)" % (int(x.split(".")[0]), _XC_FMT[x.split(".")[1]]) for x in c.split(",")) + "]"
    for t in toks[1:]:
        f = t.split(":")
        if f[0] == "I":
            inits.append(_xc_bytes(f[1]))
        elif f[0] == "DB":
            evs.append("[XDb %s %s %s %s]" % (_xc_bytes(f[1]), xchars(f[2]), "true" if f[3] == "1" else "false",
                                              "true" if f[4] == "1" else "false"))
        elif f[0] == "RL":
            evs.append("[XReload %s]" % _xc_bytes(f[1]))
        elif f[0] == "CB":
            evs.append("cfg_begin %s %d%%N" % (_xc_bytes(f[1]), int(f[2])))
        elif f[0] == "CE":
            evs.append("cfg_end %s %s %s %d%%N" % (_xc_bytes(f[1]), xchars(f[2]), "true" if f[3] == "1" else "false", int(f[4])))
        elif f[0] == "P":
            chars = "[]" if f[5] == "-" else "[" + "; ".join(
                "(%d%%N, %s)" % (int(c.split(".")[0]), _XC_FMT[c.split(".")[1]]) for c in f[5].split(",")) + "]"
            ps.append("mkP %s %s %s %s %s %s" % (_xc_bytes(f[1]), _xc_optn(f[2]), _xc_optn(f[3]), _xc_optn(f[4]), chars,
                                                 "true" if f[6] == "1" else "false"))
        elif f[0] == "A":
            b = f[2].split(".")
            if b[0] == "S":
                body = "PSeal %d%%N %d%%N %s %s" % (int(b[1]), int(b[2]), _xc_bytes(b[3]), _xc_bytes(b[4]))
            elif b[0] == "J":
                body = "PJunk"
            elif b[0] == "H":
                body = "PShort [%s]" % ("" if b[1] == "-" else "; ".join("%d%%N" % int(x) for x in b[1].split(",")))
            else:
                body = "PEmpty"
            evs.append("xo [OAdv (%s, %s)]" % (_xc_bytes(f[1]), body))
        elif f[0] == "X":
            evs.append("xo [ORestart]")
        elif f[0] == "K":
            evs.append("xo [OSetKey %s %d%%N]" % (_xc_bytes(f[1]), int(f[2])))
        elif f[0] == "LB":
            evs.append("xo (poll_begin %s)" % _xc_bytes(f[1]))
        elif f[0] == "LE":
            evs.append("xo (poll_end %s %s)" % (_xc_bytes(f[1]), "PollFail" if f[2] == "fail" else "(PollOk %d%%N)" % int(f[2])))
        elif f[0] == "EB":
            evs.append("xo (event_begin %s %d%%N)" % (_xc_bytes(f[1]), int(f[2])))
        elif f[0] == "EE":
            evs.append("xo (event_end %s %d%%N %s)" % (_xc_bytes(f[1]), int(f[2]),
                                                      "ReqFail" if f[3] == "fail" else "(ReqOk %d%%N)" % int(f[3])))
        else:
            evs.append("xo [%s %s %d%%N]" % ({"R": "OPlain", "O": "OPopulate", "U": "OUpdate"}[f[0]], _xc_bytes(f[1]), int(f[2])))
    return "show_hist (mkX [%s] [%s]) [%s]" % ("; ".join(ps), "; ".join(inits), "; ".join(evs))


def _xc_val(v):
    hb = lambda h: [] if h == "-" else list(bytes.fromhex(h))  # noqa: E731
    if v[0] == "b":
        return [0, int(v[1:]), 0]
    if v[0] == "i":
        return [1, int(v[1:]), 0]
    if v[0] == "f":
        return [2, int(v[1:]), 0]
    s = hb(v[1:])
    return [3 if v[0] == "s" else 4, 0, len(s)] + s


def _xc_expect(line, ans):
    """the driver's answer line -> the flat list of integers show_hist / show_val must evaluate to"""
    if line.startswith("val "):
        return [0, _XC_OUT[ans]] if ans.startswith("crash-") else [1] + _xc_val(ans)
    out = []
    for tok in ([] if ans == "." else ans.split(" ")):
        o, calls, sns, psns, fb, keys = tok.split("/")
        cl = [] if calls == "-" else calls.split("+")
        out += [_XC_OUT[o], len(cl)]
        for c in cl:
            pid, aid, iid, v = c.split(".", 3)
            idb = [] if pid == "-" else list(bytes.fromhex(pid))
            out += [len(idb)] + idb + [int(aid), int(iid)] + _xc_val(v)
        for grp in (sns, psns, None, keys):
            if grp is None:
                out.append(int(fb))
                continue
            sl = grp.split(",") if grp else []
            out.append(len(sl))
            for x in sl:
                out += [0, 0] if x == "-" else [1, int(x)]
    return out


def xc_sample(hist_pairs, val_pairs, nhist=24, nval=10):
    """deterministic sample of (request line, driver answer): first the histories that add a model outcome / payload
    kind / event kind not yet covered, then an even spread over the streams; values spread over formats and results"""
    ok = lambda a: not (a.startswith("driver-exception") or a == "bad-request")  # noqa: E731
    hp = [(i, l, a) for i, (l, a, _) in enumerate(hist_pairs) if ok(a) and len(l) < 6000]
    picked, seen = [], set()
    for i, l, a in hp:
        feats = {"o:" + t.split("/")[0] for t in a.split(" ") if "/" in t}
        feats |= {"b:" + t.split(":")[2][0] for t in l.split(" ") if t.startswith("A:")}
        feats |= {"e:" + t.split(":")[0] for t in l.split(" ") if t[0] in "ROUXKELDCI"}
        if feats - seen and len(picked) < nhist - 4:
            seen |= feats
            picked.append(i)
    by_stream = {}
    for i, _, _ in hp:
        by_stream.setdefault(hist_pairs[i][2].split(":")[0], []).append(i)
    for st in sorted(by_stream):
        idx = by_stream[st]
        for j in (len(idx) // 3, (2 * len(idx)) // 3):
            if idx[j] not in picked and len(picked) < nhist:
                picked.append(idx[j])
    sample = [(hist_pairs[i][0], hist_pairs[i][1]) for i in sorted(picked)]
    vseen, vp = set(), []
    cls = lambda a: a[:9] if a.startswith("crash") else a[0]  # noqa: E731
    # first one of every result class (b i f s x crash-struct crash-unicode), then one of every (format, class)
    for keyf in (lambda l, a: cls(a), lambda l, a: (l.split(" ")[1], cls(a))):
        for l, a in val_pairs:
            k = keyf(l, a)
            if ok(a) and k not in vseen and (l, a) not in vp and len(vp) < nval and len(l.split(" ")[2]) > 2:
                vseen.add(k)
                vp.append((l, a))
    return sample + vp


def vm_crosscheck(ctx, sample):
    """Evaluate the sampled driver requests with vm_compute inside Coq (same model functions the driver calls:
    apply (= detect and the other writers of the state number) folded over the history, from_bytes) and compare the complete answer content with what the
    extracted OCaml driver printed.  Takes extraction + ocaml/drv.ml + ocaml/drv_c18.ml out of the
    single-point-of-trust position.  -> (requests, disagreements, first disagreeing request or None)"""
    import re
    body = _XC_PRELUDE + "".join("Eval vm_compute in (%s).\n" % _xc_term(l) for l, _ in sample)
    out = coq_eval(ctx["verif"], "C18", "crosscheck", body, timeout=600)
    blocks = out.split("= ")[1:]
    bad, first = abs(len(blocks) - len(sample)), None
    for blk, (l, a) in zip(blocks, sample):
        got = [int(x) for x in re.findall(r"-?\d+", blk.split(":")[0])]
        if got != _xc_expect(l, a):
            bad += 1
            first = first or dict(request=l[:600], driver=a[:600], vm_compute=" ".join(map(str, got))[:600])
    return len(sample), bad, first


# ------------------------------------------------------------------ run
def run_histories(drv, hs):
    lines = [model_line(w, evs) for w, evs, _ in hs]
    model = drv.batch(lines)
    impl = impl_all([(w, evs) for w, evs, _ in hs])
    return lines, model, impl


def run(ctx):
    tier, seed = ctx["tier"], ctx["seed"]
    drv = Driver(ctx["driver"])
    cov = Coverage("a history counts when it is distinct and at least one of its advertisements reaches the decrypt loop "
                   "of a pairing that has a key and a stored state number (model outcome other than "
                   "notapple/othertype/nopairing/nokey/nodesc)")
    viols = []
    seen_keys = set()

    # (the bit-exact cipher tie runs AFTER the history streams, sequentially: a helper thread alive while run_histories forks
    # its process pool left a child with an inherited lock held and the check hung - seen once under load)
    if ctx.get("replay"):
        rp = json.load(open(ctx["replay"]))
        hs = [(rp["world"], rp["events"], "replay")]
    else:
        hs = gen_core(tier) + gen_values(tier) + gen_flips(tier, rng(seed, "c18flip")) + gen_short(tier, rng(seed, "c18short")) \
            + gen_random(tier, rng(seed, "c18rand")) + gen_ops(tier) + gen_keys(tier) + gen_events(tier) + gen_polls(tier) \
            + gen_db(tier) + gen_reload(tier)
    plain = [] if ctx.get("replay") else gen_plain() + gen_rollover_obs()
    allh = hs + plain
    lines, model, impl = run_histories(drv, allh)

    outcomes_hit = set()
    fallback_disagree = 0
    fb_samples = []
    mismatches = 0
    for hi, ((world, evs, stream), line, mans, isteps) in enumerate(zip(allh, lines, model, impl)):
        if mans.startswith("driver-exception") or mans == "bad-request":
            viols.append(violation("driver-failure", "model driver failed: " + mans[:200], False, line=line[:400]))
            continue
        msteps, mout = canon_model(mans, len(world))
        ist = [s for s, _ in isteps]
        for o, (ms, (si, fb)) in zip(mout, zip(msteps, isteps)):
            if o != "op":
                outcomes_hit.add(o)
            if ms.split("|")[3] != si.split("|")[3]:
                fallback_disagree += 1
                if len(fb_samples) < 3:
                    fb_samples.append(dict(stream=stream, model_outcome=o, impl_fallback_calls=fb, line=line[:600]))
        orc = oracle_history(world, evs, ist)
        for key, what, idx in orc:
            if key in seen_keys:
                continue
            seen_keys.add(key)

            def still(sub, key=key, world=world):
                if not sub:
                    return False
                st = [s for s, _ in impl_history((world, sub))]
                return any(k == key for k, _, _ in oracle_history(world, sub, st))
            small = shrink_list(evs, still, budget=40) if len(evs) > 1 else evs
            sst = [s for s, _ in impl_history((world, small))]
            viols.append(violation(key, what, True, stream=stream, world=world, events=small,
                                   impl_steps=sst, full_events=evs if len(evs) != len(small) else None,
                                   model_steps=canon_model(drv.batch([model_line(world, small)])[0], len(world))[0],
                                   expected="listener calls / state change only for a notification sealed under the pairing's key, "
                                            "AAD = its advertising id, stored < n < stored+100, inner counter = n"))
        if ist != msteps:
            mismatches += 1
            if not orc and "model-mismatch" not in seen_keys:
                seen_keys.add("model-mismatch")
                k = next((i for i, (a, b) in enumerate(zip(ist, msteps)) if a != b), 0)
                viols.append(violation("hist:model-mismatch",
                                       "implementation and model differ at advertisement #%d of a %s history: impl %s, model %s"
                                       % (k, stream, ist[k] if k < len(ist) else None, msteps[k] if k < len(msteps) else None),
                                       False, stream=stream, world=world, events=evs, impl_steps=ist, model_steps=msteps,
                                       broken="correspondence Model/Bcast.v <-> aiohomekit/controller/ble/pairing.py::_async_notification"))
        nontriv = any(o in ("nodecrypt", "stale", "mismatch", "accepted") or o.startswith("undelivered-") for o in mout)
        sample = None
        if hi % 397 == 0:
            sample = dict(stream=stream, stored=[p["sn"] for p in world], events=[e.get("label") for e in evs], impl=ist[:3])
        cov.case(line, nontriv, sample=sample, stream=stream.split(":")[0], history_len=len(evs),
                 start_state=str(world[0]["sn"]) if world[0]["sn"] in (1, 7, 255, 65436, 65535) else "other")
        for e, o in zip(evs, mout):
            cov.hist["event_kind"][str(e.get("label"))] += 1
            cov.hist["model_outcome"][o] += 1
            if e["k"] == "seal" and o.startswith(("accepted", "undelivered")):
                pt = bytes.fromhex(e["pt"])
                t = target(world, realise(e)[0])
                if t is not None and world[t]["db"]:
                    cov.hist["accepted_format"][pdb(world[t]).get(int.from_bytes(pt[2:4], "little"), "unknown-iid")] += 1

    # observation (not a violation: plain advertisements are outside the property's quantifier)
    obs = []
    for (world, evs, stream), isteps in zip(plain, impl[len(hs):]):
        if stream == "plain:rollback":
            st = [parse_step(s) for s, _ in isteps]
            obs.append(dict(history=[e.get("label") for e in evs], stored_after=[s[2][0] for s in st],
                            listener_calls=[len(s[1]) for s in st],
                            replay_accepted_after_plain_adv_rollback=bool(st[3][1])))
    obs_roll = []
    for (world, evs, stream), isteps in zip(allh, impl):
        if stream == "keys:rollover-without-rotation":
            st = [parse_step(s) for s, _ in isteps]
            obs_roll.append(dict(history=[e.get("label") for e in evs], stored_after=[s[2][0] for s in st],
                                 listener_calls=[len(s[1]) for s in st], previous_epoch_accepted_again=bool(st[4][1])))
    obs_restart = []
    for (world, evs, stream), isteps in zip(allh, impl):
        if stream == "ops:restart-replay":
            st = [parse_step(s) for s, _ in isteps]
            obs_restart.append(dict(history=[e.get("label") for e in evs], stored_after=[s[2][0] for s in st],
                                    listener_calls=[len(s[1]) for s in st],
                                    replay_accepted_after_restart=bool(st[3][1])))

    # values.from_bytes on its own: implementation vs model vs reference
    vcases = gen_val_cases(tier, rng(seed, "c18val"))
    vi = impl_values(vcases)
    vlines = ["val %s %s" % (MODEL_FMT.get(f, "other"), R.hexs(v)) for f, v in vcases]
    vraw = drv.batch(vlines)
    vm = [canon_model_val(a) for a in vraw]
    for (f, v), a, b in zip(vcases, vi, vm):
        ref = R.decode_value(f, v)
        refc = ref if ref is not None else ("crash-unicode" if f == "string" else "crash-struct")
        cov.case("v" + f + v.hex(), True, sample=dict(stream="val", fmt=f, value=v.hex(), impl=a) if cov.evaluations % 9973 == 0 else None,
                 stream="val", val_fmt=f, val_result=a.split("-")[0] if a.startswith("crash") else a[0])
        if a != refc and "val:wrong-decoding" not in seen_keys:
            seen_keys.add("val:wrong-decoding")
            viols.append(violation("val:wrong-decoding:" + f, "values.from_bytes(%s, %s) = %s, reference %s" % (f, v.hex(), a, refc), True,
                                   fmt=f, value=v.hex(), impl=a, expected=refc, model=b))
        elif a != b and "val:model-mismatch" not in seen_keys:
            seen_keys.add("val:model-mismatch")
            viols.append(violation("val:model-mismatch", "from_bytes(%s, %s): impl %s != model %s" % (f, v.hex(), a, b), False,
                                   fmt=f, value=v.hex(), impl=a, model=b))

    if not ctx.get("replay"):
        xs = xc_sample([(l, a, st) for l, a, (_, _, st) in zip(lines, model, allh)], list(zip(vlines, vraw)))
        xn, xbad, xfirst = vm_crosscheck(ctx, xs)
        cov.extra["vm_compute_crosscheck"] = dict(requests=xn, disagreements=xbad,
                                                  kinds=dict(hist=sum(1 for l, _ in xs if l.startswith("hist")),
                                                             val=sum(1 for l, _ in xs if l.startswith("val "))))
        if xbad:
            viols.append(violation("extraction-vs-vm_compute",
                                   "%d of %d sampled requests: extracted driver and vm_compute disagree" % (xbad, xn),
                                   False, first=xfirst, broken="extraction / ocaml driver glue (ocaml/drv.ml, ocaml/drv_c18.ml)"))

    if not ctx.get("replay"):
        # the symbolic AEAD terms are justified by the shared bit-exact cipher model (Model/ChaChaPoly.v, partial-tag open
        # = bcast_aead_* in Props/C18.v); tie that model to aiohomekit.crypto.chacha20poly1305 here too (vm_compute, own oracle)
        import aeadtie
        aead_info, aead_viols = aeadtie.run(ctx, "mini")
        cov.extra["aead_bit_exact"] = aead_info
        viols.extend(aead_viols)

    all_out = {"notapple", "othertype", "nopairing", "nokey", "nodesc", "nodecrypt", "stale", "mismatch", "accepted",
               "undelivered-struct", "undelivered-unicode", "undelivered-nochar"}
    cov.extra["histories"] = len(allh)
    cov.extra["advertisements"] = sum(len(e) for _, e, _ in allh)
    cov.extra["model_outcomes_hit"] = sorted(outcomes_hit)
    cov.extra["model_outcomes_missed"] = sorted(all_out - outcomes_hit)
    cov.extra["disagreements_checked"] = mismatches
    cov.extra["fallback_disagreements"] = fallback_disagree     # compared (part of the step string) since the 242be4e repair
    cov.extra["fallback_outcome_disagreement_samples"] = fb_samples
    cov.extra["exhaustive"] = True
    cov.extra["exhaustive_part"] = ("every single-bit flip of the 16 payload+tag bytes and of the 8 header bytes of %d notifications; "
                                    "the full grid starts x offsets {+1,+2,+50,+99,+100,+101,0,-1,-5,-6,-100} (thorough: also +3,+98,+150,-2) x %d variants, "
                                    "each as [variant, genuine, variant] (thorough: [variant, variant, genuine, genuine, variant]); "
                                    "values.from_bytes: all 1-byte and all 2-byte strings with a non-ASCII lead for the string format"
                                    % (2 if tier == "quick" else 4, len(variants(7, 8))))
    cov.extra["observations"] = dict(
        plain_advertisement_rollback=obs,
        restart_replay=obs_restart,
        rollover_without_new_key=obs_roll,
        note="outside C18's quantifier: description.state_num is also overwritten by plain type-0x06 advertisements "
             "(unauthenticated); after such a roll-back a previously accepted broadcast is accepted again "
             "(Coq: c18_plain_adv_rollback_observation).  An accepted broadcast does not advance the persisted state_num, so "
             "after a restart the same advertisement is accepted again (Coq: c18_restart_replay_observation).")
    cov.extra["domain"] = ("state numbers and nonce counters < 2^64 - 100 (PACK_NONCE); accessory database has aid 1; symbolic AEAD: "
                           "a corrupted or foreign string of >= 4 bytes opens nowhere (real: 100 * 2^-32 per advertisement)")
    cov.extra["trusted_base_extra"] = [
        "C18: symbolic AEAD (perfect 4-byte-tag ChaCha20-Poly1305); harness mapping bytes -> PSeal/PJunk/PShort/PEmpty; "
        "cryptography's ChaCha20Poly1305 as the reference sealer; bleak BLEDevice/AdvertisementData data classes",
    ]
    return dict(coverage=cov.to_dict(), violations=viols)
