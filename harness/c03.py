"""C03 correspondence: perform_pair_setup_part1/part2 vs Model/Setup.v.

Scenarios (DESIGN.md Appendix B): honest pairings; wrong-code accessory (honest and malicious);
field surgery, bit/byte flips and substitutions on M2, M4, M6 and on the decrypted M6 sub-TLV;
M6 sealed under another key / nonce / aad, signed by another key or over another identifier / key.
Each is realised in bytes by the reference accessory (ref/accessory.py: SRP server on Python ints)
driving the REAL generators, interpreted symbolically by the extracted model (build/drv_c03) against
the Coq specification accessory, and judged by the bytes-only oracle ref.accessory.oracle_setup.

3072-bit SRP makes one exchange cost ~50 ms, so the SRP work of one exchange is shared by the many
mutations of its M4 / M6: the built-in pow is memoised (a pure function; seam = module-level name `pow`
in aiohomekit.crypto.srp), which is sound because those runs have the same code, salt, a and B.
"""
from __future__ import annotations

import contextlib
import hashlib
import multiprocessing
import os

import c01 as H
from c01 import (HarnessError, const_v, d_attr, d_items, d_rawflip, flip_v, l_add, l_drop, l_dup_adj, l_dup_end,
                 l_perm, l_set, r_append, r_flipbit, r_trunc, r_xor, raw, realise, sub, top)
from common import Coverage, Driver, violation
from ref import accessory as R
from ref.accessory import (T_ENC, T_ERROR, T_ID, T_PK, T_PROOF, T_SALT, T_SIG, T_STATE, SetupAccessory, Universe, V,
                           lit, msg, reply_term)
from ref.tlv8 import ref_decode, ref_encode

ACC_LTSK, CTRL_LTSK, OTHER_LTSK = 11, 12, 13
SRP_A, SRP_B, SRP_B2 = 41, 42, 43
TRANSPORTS = ["ip", "ble", "coap"]
CFGS = [  # code, salt, accessory id, controller id
    (b"111-22-333", bytes(range(1, 17)), b"AA:BB:CC:DD:EE:FF", b"4d8b2f9a-31c7-4d0e-9f53-6a1e0c7b2d11"),
    (b"031-45-154", b"\x00\x00" + bytes(range(30, 44)), "café:€😀".encode(), b"ios"),
    (b"999-99-999", bytes(16), b"A", b"x" * 36),
]
WRONG_CODE = b"111-22-334"


def srp_a_value(name=SRP_A) -> int:
    return int.from_bytes(hashlib.sha512(b"verif|srp-a|" + str(name).encode()).digest()[:16], "big")


@contextlib.contextmanager
def fixed_randomness(U: Universe, a_int=None):
    """Ed25519PrivateKey.generate() and the SRP client secret chosen by the harness (no source hook).
    The SRP seam is best-effort: the oracle falls back to the accessory's view when it is not effective."""
    from cryptography.hazmat.primitives.asymmetric import ed25519
    cls = ed25519.Ed25519PrivateKey
    orig = cls.__dict__["generate"]
    seed = U.edsk(CTRL_LTSK)
    cls.generate = classmethod(lambda c: cls.from_private_bytes(seed))
    srp_cls = srp_orig = None
    try:
        import aiohomekit.crypto.srp as srp_mod
        srp_cls = srp_mod.Srp
        srp_orig = srp_cls.__dict__.get("generate_private_key")
        if srp_orig is not None:
            srp_cls.generate_private_key = staticmethod(lambda: srp_a_value() if a_int is None else a_int)
    except Exception:  # noqa: BLE001
        srp_cls = None
    try:
        yield
    finally:
        cls.generate = orig
        if srp_cls is not None and srp_orig is not None:
            srp_cls.generate_private_key = srp_orig


class Scn:
    def __init__(self, family, transport, cfg=0, acc=None, m2=(), m4=(), m6=(), honest=False, detail="", with_auth=True,
                 srp=None, pre=(), ios_id=None, frames=None):
        self.frames = dict(frames or {})   # BLE only: which reply ("m2"/"m4"/"m6") -> framing (see build_frames)
        self.family, self.transport, self.cfg, self.acc = family, transport, cfg, acc or {}
        self.pre = list(pre)           # complete pairings run first, in the same process (setup sequences)
        self.srp = srp                 # (client secret a, server secret b) pinned by the directed search, or None
        self.ios_id = ios_id           # controller pairing identifier override (length sweeps)
        self.m2, self.m4, self.m6 = list(m2), list(m4), list(m6)
        self.honest, self.detail, self.with_auth = honest, detail, with_auth

    def ident(self):
        return f"{self.family}|{self.transport}|{self.cfg}|{self.detail}"

    def stage(self):
        return "m2" if (self.m2 or self.pre) else ("m4" if self.m4 else ("m6" if self.m6 else "none"))

    def base_key(self):
        return (self.transport, self.cfg, tuple(sorted(self.acc.items())), self.with_auth, self.srp)


class State:
    pass


def b01(x):
    return "-" if x is None else ("1" if x else "0")


def new_state(s: Scn) -> State:
    st = State()
    st.U = U = Universe("c03")
    code, salt, acc_id, ios_id = CFGS[s.cfg]
    if s.ios_id is not None:
        ios_id = s.ios_id
    st.code, st.ios_id = code, ios_id
    a = dict(code=code, salt=salt, b=SRP_B, acc_id=acc_id, ltsk=ACC_LTSK, lenient=False)
    a.update(s.acc)
    st.acc_cfg = a
    st.a_int = s.srp[0] if s.srp else srp_a_value()
    st.acc = SetupAccessory(U, a["code"], a["salt"], a["b"], a["acc_id"], a["ltsk"], SRP_A, CTRL_LTSK, a["lenient"],
                            b_value=s.srp[1] if s.srp else None)
    st.ctx = H.Ctx()
    st.ctx.U, st.ctx.acc, st.ctx.state = U, st.acc, st
    st.mutated = set()
    st.bytes = dict(m1=None, m2=None, m3=None, m4=None, m5=None, m6=None)
    st.sym = dict(m2="honest", m4="honest", m6="honest")
    st.not_tlv = None
    st.exc = None
    st.result = "fail"
    st.record = None
    st.gen = None
    st.A = None
    st.transport, st.with_auth = s.transport, s.with_auth
    st.frames = dict(s.frames)
    st.gatt = {}                      # which -> the GATT frames (hex) the reply was delivered in
    st.reasm_diff = None
    if st.frames and s.transport != "ble":
        raise HarnessError("framed replies exist on BLE only")
    return st


def deliver(st: State, gen, which, ops, out, expected, request=None):
    """mutate the accessory's reply, run it through the transport's decoder, hand it to the generator"""
    raw_b, sym = realise(ops, out, st.ctx, None if st.transport == "ble" else [int(x) for x in expected])
    if st.frames.get(which) is not None:
        return deliver_framed(st, gen, which, ops, sym, st.frames[which], request)
    st.bytes[which] = raw_b
    if sym is None:
        st.not_tlv = st.not_tlv or which
    elif which == "m4":
        # the server proof is compared as an integer
        sym = [(t, st.U.abstract_int(v) if t == T_PROOF else v) for t, v in sym]
    st.sym[which] = None if sym is None else reply_term(sym)
    if ops:
        st.mutated.add(which)
    dec = H.decode_for(st.transport, raw_b, expected)
    return gen.send(dec)


# ---- BLE: one reply = several GATT frames (the REAL _pairing_char_write reassembles them) -------------------------
T_FRAG_DATA, T_FRAG_LAST = 12, 13
PS_TYPES = (T_STATE, T_ERROR, T_SALT, T_PK, T_PROOF, T_ENC)


class LinkStarved(Exception):
    """the controller asked for another frame after the accessory had completed its reply"""


def build_frames(U, items, fr):
    """items = the (mutated) reply as [(type, V)]; fr = dict(n, nsib, sibframe, cut, end, after):
    the first nsib items travel NEXT TO the fragment items (sibling i in frame sibframe[i]), the remaining items are
    encoded and cut into the payloads of the fragment items: cut = 'items' (at item boundaries), 'bytes' (evenly,
    anywhere) or a tuple of byte offsets; end = 'last' (frame n-1 carries FragmentLast) or 'plain' (frames 0..n-2
    carry FragmentData, frame n-1 carries no fragment item: unterminated buffer); after = siblings behind the
    fragment item.  Returns (frames as bytes, frames as symbolic item lists).
    For cuts that are not at item boundaries the SYMBOLIC frames carry the whole payload in the first fragment and
    empty payloads after it: theorem ble_frames_cut_irrelevant (same siblings and continue/complete decision per frame,
    same concatenated payload => same reply)."""
    n, nsib, cut, end = fr["n"], fr["nsib"], fr["cut"], fr["end"]
    sibs, body = list(items[:nsib]), list(items[nsib:])
    nfrag = n if end == "last" else n - 1
    if nfrag == 0 and body:
        raise HarnessError("framing without fragment item but with a payload")
    body_b = ref_encode([(t, v.b) for t, v in body])
    if cut == "items":
        groups = [[] for _ in range(nfrag)]
        for i, it in enumerate(body):
            groups[min(nfrag - 1, i * nfrag // max(1, len(body)))].append(it)
        pieces = [U.tlv(g) if g else V(b"", ()) for g in groups]
    else:
        if cut == "bytes":
            offs = [len(body_b) * j // nfrag for j in range(1, nfrag)]
        else:
            offs = [min(len(body_b), int(o)) for o in cut]
            if len(offs) != nfrag - 1 or offs != sorted(offs):
                raise HarnessError(f"bad cut {cut} for {nfrag} fragments")
        bounds = [0] + offs + [len(body_b)]
        whole = U.tlv(body) if body else V(b"", ())
        pieces = [V(body_b[bounds[j]:bounds[j + 1]], whole.t if j == 0 else ()) for j in range(nfrag)]
    frames_b, frames_sym = [], []
    for j in range(n):
        sj = [sibs[i] for i in range(nsib) if fr["sibframe"][i] == j]
        frag = []
        if j < nfrag:
            frag = [(T_FRAG_LAST if (end == "last" and j == n - 1) else T_FRAG_DATA, pieces[j])]
        f_items = (frag + sj) if fr.get("after") else (sj + frag)
        frames_sym.append(f_items)
        frames_b.append(ref_encode([(t, v.b) for t, v in f_items]))
    return frames_b, frames_sym


def ble_logical(frames_b):
    """the reassembly rule, stated on bytes and independently of the code: every item of every frame the accessory sent
    counts.  Reply = siblings (items other than 12/13) of all frames up to the completing one, in order, followed by
    the items of the concatenated fragment payloads; as a mapping the last value of a type wins.
    Returns (items with one entry per type | None if the payload is not TLV8, number of frames consumed)."""
    sibs, buf, used = [], b"", 0
    for fb in frames_b:
        used += 1
        items = ref_decode(fb)
        if items is None:
            return None, used
        d = dict(items)
        sibs += [(t, v) for t, v in items if t not in (T_FRAG_DATA, T_FRAG_LAST)]
        if T_FRAG_LAST in d:
            buf += d[T_FRAG_LAST]
            break
        if T_FRAG_DATA in d:
            buf += d[T_FRAG_DATA]
            continue
        break
    body = ref_decode(buf)
    if body is None:
        return None, used
    seq = sibs + body
    last = {t: i for i, (t, _) in enumerate(seq)}
    return [(t, v) for i, (t, v) in enumerate(seq) if last[t] == i], used


def run_pairing_char_write(frames_b, request):
    """the real aiohomekit.controller.ble.client._pairing_char_write over a scripted GATT characteristic: the first
    write is the request, every further write must be the empty-FragmentData acknowledgement"""
    import aiohomekit.controller.ble.client as bc
    pending, writes = list(frames_b), []

    class Client:
        address = "AA:BB:CC:DD:EE:FF"

    async def fake_char_write(client, ek, dk, handle, iid, body):
        body = bytes(body)
        writes.append(body)
        if len(writes) > 1 and body != bytes([T_FRAG_DATA, 0]):
            raise HarnessError(f"write {len(writes)} during reassembly is not the fragment acknowledgement: {body.hex()}")
        if not pending:
            raise LinkStarved("no further frame")
        return pending.pop(0)

    saved = bc.char_write
    bc.char_write = fake_char_write
    try:
        coro = bc._pairing_char_write(Client(), object(), 1, request)
        try:
            coro.send(None)
        except StopIteration as e:
            return e.value, len(frames_b) - len(pending)
        coro.close()
        raise HarnessError("_pairing_char_write suspended on something else than char_write")
    finally:
        bc.char_write = saved


def deliver_framed(st: State, gen, which, ops, sym, fr, request):
    if sym is None or any(o[0] == "raw" for o in ops) or request is None:
        raise HarnessError("framed delivery needs an item-level reply and the controller's request")
    items = [(t, st.U.abstract_int(v) if (which == "m4" and t == T_PROOF) else v) for t, v in sym]
    frames_b, frames_sym = build_frames(st.U, items, fr)
    logical, used = ble_logical(frames_b)
    if logical is None or used != len(frames_b):
        raise HarnessError("generated framing is not exact")
    st.bytes[which] = ref_encode(logical)        # what the oracle judges: the reply AS SENT, all frames counted
    st.gatt[which] = [f.hex() for f in frames_b]
    st.sym[which] = "F:" + "/".join(reply_term(f) for f in frames_sym)
    st.mutated.add(which)
    dec, consumed = run_pairing_char_write(frames_b, request)
    want = {t: v for t, v in logical if t in PS_TYPES}
    got = {int(t): bytes(v) for t, v in dict(dec).items() if int(t) in PS_TYPES}
    if got != want or consumed != used:
        st.reasm_diff = dict(message=which, frames=st.gatt[which], frames_read=consumed,
                             expected={t: v.hex() for t, v in want.items()}, got={t: v.hex() for t, v in got.items()})
    return gen.send(dec)


def step_to_m4(st: State, m2_ops):
    """part 1 and the start of part 2; returns True when M4 is due"""
    from aiohomekit.protocol import perform_pair_setup_part1, perform_pair_setup_part2
    g1 = perform_pair_setup_part1(st.with_auth)
    req, exp = g1.send(None)
    st.exp_lists = [[int(x) for x in exp]]
    st.bytes["m1"] = ref_encode([(int(t), bytes(v)) for t, v in req])
    want_m1 = [(T_STATE, b"\x01"), (0, b"\x01" if st.with_auth else b"\x00")]
    st.m1_ok = ref_decode(st.bytes["m1"]) == want_m1
    out2 = st.acc.on_m1(st.bytes["m1"])
    try:
        deliver(st, g1, "m2", m2_ops, out2, exp, req)
        raise HarnessError("part 1 yielded a second request")
    except StopIteration as e:
        salt, pk = e.value
    except HarnessError:
        raise
    except Exception as e:  # noqa: BLE001
        st.exc = "m2:" + type(e).__name__
        return False
    try:
        with fixed_randomness(st.U, st.a_int):
            g2 = perform_pair_setup_part2(st.code.decode(), st.ios_id.decode(), salt, pk)
            req3, exp4 = g2.send(None)
    except Exception as e:  # noqa: BLE001
        st.exc = "m3:" + type(e).__name__
        return False
    st.gen, st.exp4, st.req3 = g2, exp4, req3
    st.exp_lists.append([int(x) for x in exp4])
    st.bytes["m3"] = ref_encode([(int(t), bytes(v)) for t, v in req3])
    d3 = dict(ref_decode(st.bytes["m3"]))
    st.A = d3.get(T_PK)
    st.m3_ok, st.out4 = st.acc.on_m3(st.bytes["m3"])
    return True


def step_to_m6(st: State, m4_ops):
    try:
        req5, exp6 = deliver(st, st.gen, "m4", m4_ops, st.out4, st.exp4, st.req3)
    except StopIteration:
        raise HarnessError("part 2 returned at M4")
    except HarnessError:
        raise
    except Exception as e:  # noqa: BLE001
        st.exc = "m4:" + type(e).__name__
        return False
    st.exp6, st.req5 = exp6, req5
    st.exp_lists.append([int(x) for x in exp6])
    st.bytes["m5"] = ref_encode([(int(t), bytes(v)) for t, v in req5])
    st.m5_ok, st.out6 = st.acc.on_m5(st.bytes["m5"])
    return True


def step_finish(st: State, m6_ops):
    try:
        deliver(st, st.gen, "m6", m6_ops, st.out6, st.exp6, st.req5)
        raise HarnessError("part 2 yielded a fourth request")
    except StopIteration as e:
        st.result = "done"
        st.record = dict(e.value)
    except HarnessError:
        raise
    except Exception as e:  # noqa: BLE001
        st.exc = "m6:" + type(e).__name__


def summarise(s: Scn, st: State) -> dict:
    """plain (picklable) record of one run: implementation line, model request, oracle verdict"""
    U, acc = st.U, st.acc
    m3acc = getattr(st, "m3_ok", None) if st.bytes["m3"] else None
    m5acc = acc.m5_ok if st.bytes["m5"] else None
    rec = st.record
    stored = None
    rec_id = rec_ltpk = None
    rec_problems = []
    if rec is not None:
        from cryptography.hazmat.primitives import serialization
        from cryptography.hazmat.primitives.asymmetric.ed25519 import Ed25519PrivateKey
        try:
            ltsk = bytes.fromhex(rec["iOSDeviceLTSK"])
            pub = Ed25519PrivateKey.from_private_bytes(ltsk).public_key().public_bytes(
                encoding=serialization.Encoding.Raw, format=serialization.PublicFormat.Raw)
            if pub.hex() != rec["iOSDeviceLTPK"]:
                rec_problems.append("iOSDeviceLTPK is not the public key of iOSDeviceLTSK")
            if rec["iOSPairingId"] != st.ios_id.decode():
                rec_problems.append("iOSPairingId is not the caller's identifier")
            stored = acc.stored == (st.ios_id, pub)
            U._reg(R.V(pub, (f"pub({CTRL_LTSK})",)))
            rec_id = rec["AccessoryPairingID"].encode()
            rec_ltpk = bytes.fromhex(rec["AccessoryLTPK"])
        except Exception as e:  # noqa: BLE001
            rec_problems.append("record malformed: " + type(e).__name__)
    impl = f"result={st.result} m3acc={b01(m3acc)} m5acc={b01(m5acc)}"
    out = dict(family=s.family, transport=s.transport, cfg=s.cfg, detail=s.detail, ident=s.ident(), honest=s.honest,
               impl=impl, exc=st.exc, stored=stored, rec_problems=rec_problems, record=rec,
               bytes={k: (v.hex() if v is not None else None) for k, v in st.bytes.items()},
               code=st.code.decode(), ios_id=st.ios_id.decode(), with_auth=st.with_auth,
               exp_lists=getattr(st, "exp_lists", []), m1_ok=getattr(st, "m1_ok", None), a_int=hex(st.a_int),
               b_int=hex(st.acc.b),
               mutated=sorted(getattr(st, "mutated", set())), not_tlv=st.not_tlv,
               srp_K=(st.acc.K.b.hex() if getattr(st.acc, "K", None) is not None else None),
               gatt=dict(st.gatt), reasm_diff=st.reasm_diff, framing={k: dict(v) for k, v in st.frames.items()})
    # ---- model request
    a = st.acc_cfg
    if st.sym["m2"] is None:
        out["model_req"] = None
    else:
        hx = lambda x: x.hex() if x else "-"  # noqa: E731
        sym = {k: (v if (v is not None and st.bytes[k] is not None) else "honest") for k, v in st.sym.items()}
        out["model_req"] = " ".join([
            "ps", s.transport, msg(lit(st.code)), hx(st.ios_id), str(SRP_A), str(CTRL_LTSK), "1" if st.with_auth else "0",
            msg(lit(a["code"])), msg(lit(a["salt"])), str(a["b"]), hx(a["acc_id"]), str(a["ltsk"]),
            sym["m2"], sym["m4"], sym["m6"],
            (rec_id.hex() or "-") if rec_id is not None else "none",
            msg(U.abstract(rec_ltpk)) if rec_ltpk is not None else "-"])
    # ---- oracle
    just = why = None
    if st.A is not None:
        a_int = st.a_int
        if R._powm(R.SRP_G, a_int, R.SRP_N).to_bytes(384, "big") == bytes(st.A):
            just, why = R.oracle_setup(st.bytes["m2"], st.bytes["m4"], st.bytes["m6"], s.transport, st.code, a_int, bytes(st.A))
            out["oracle"] = "client-view"
        else:
            out["oracle"] = "unavailable (SRP seam ineffective)"
            why = "unknown"
    else:
        why = "m2:rejected-before-m3"
        out["oracle"] = "n/a"
    out["just"] = [just[0], just[1].hex()] if just else None
    out["why_not"] = why
    return out


# ---- execution ----------------------------------------------------------------
_FAN = {}
_POW_CACHE = {}


def _cached_pow(base, exp, mod=None):
    """pure memoisation of the built-in pow for the 3072-bit SRP exponentiations: mutations of M4 / M6
    share (code, salt, a, B) with their base exchange, so only the first run of a group pays for SRP"""
    if mod is None:
        return pow(base, exp)
    k = (base, exp, mod)
    r = _POW_CACHE.get(k)
    if r is None:
        r = _POW_CACHE[k] = pow(base, exp, mod)
    return r


@contextlib.contextmanager
def shared_srp_work():
    """seam: a module-level name `pow` in aiohomekit.crypto.srp shadows the built-in with the memoised one"""
    import aiohomekit.crypto.srp as srp_mod
    had = "pow" in srp_mod.__dict__
    old = srp_mod.__dict__.get("pow")
    srp_mod.pow = _cached_pow
    try:
        yield
    finally:
        if had:
            srp_mod.pow = old
        else:
            del srp_mod.pow


def _whole(i):
    s = _FAN["scns"][i]
    try:
        earlier = []
        for p in s.pre:                # earlier pairings of this process (other accessory identities / codes)
            pst = new_state(p)
            if step_to_m4(pst, p.m2) and step_to_m6(pst, p.m4):
                step_finish(pst, p.m6)
            pr = summarise(p, pst)
            earlier.append(dict(scenario=pr["ident"], impl=pr["impl"], record=pr["record"], messages=pr["bytes"],
                                setup_code=pr["code"]))
        st = new_state(s)
        if step_to_m4(st, s.m2) and step_to_m6(st, s.m4):
            step_finish(st, s.m6)
        out = summarise(s, st)
        out["earlier_pairings"] = earlier
        return out
    except Exception as e:  # noqa: BLE001
        import traceback
        return dict(harness_error=f"{s.ident()}: {type(e).__name__}: {e}\n{traceback.format_exc()[-800:]}")


def _chunk(idx):
    with shared_srp_work():
        return [(i, _whole(i)) for i in idx]


def run_all(scns, workers):
    """scenarios sharing an exchange prefix go to the same worker process (memoised SRP work)"""
    groups = {}
    for i, s in enumerate(scns):
        groups.setdefault(s.base_key() if s.stage() != "m2" else ("m2", i % workers), []).append(i)
    chunks = [[] for _ in range(workers)]
    for g in sorted(groups.values(), key=len, reverse=True):
        # split big groups so that every worker gets a share (each pays the SRP of the group once)
        if len(g) > 4 * workers:
            for w in range(workers):
                chunks[w] += g[w::workers]
        else:
            min(chunks, key=len).extend(g)
    _FAN.update(scns=scns)
    results = {}
    ctx = multiprocessing.get_context("fork")
    with ctx.Pool(processes=workers) as pool:
        for part in pool.map(_chunk, [c for c in chunks if c], chunksize=1):
            for i, r in part:
                results[i] = r
    return [results[i] for i in range(len(scns))]


# ---- directed search: exchanges whose S, A, B, M1 or M2 start with a zero byte ---------------------------------
LZ_KINDS = ["S", "K", "A", "B", "M1", "M2"]


def _lz_candidate(kind, i):
    h = hashlib.sha512(f"verif|c03|leading-zero|{kind}|{i}".encode()).digest()
    a = int.from_bytes(h[:16], "big")
    b = int.from_bytes(hashlib.sha512(b"verif|c03|lz-b").digest()[:16], "big")
    if kind == "B":
        a, b = srp_a_value(), int.from_bytes(h[16:32], "big")
    return a, b


def _lz_holds(kind, a, b):
    code, salt = CFGS[0][0], CFGS[0][1]
    if kind == "A":
        return R._powm(R.SRP_G, a, R.SRP_N) >> (8 * 383) == 0
    if kind == "B":
        v = R._powm(R.SRP_G, R.srp_x(salt, code), R.SRP_N)
        return ((R.SRP_K * v + pow(R.SRP_G, b, R.SRP_N)) % R.SRP_N) >> (8 * 383) == 0
    return R.srp_exchange_values(code, salt, a, b)[kind][0] == 0


def leading_zero_params(verif, budget=4000):
    """{kind: (a, b)}: a fixed, reproducible candidate sequence per kind is searched with Python ints (expected
    256 candidates each); hits are remembered in harness/corpus/C03.json and re-verified on every run"""
    import json
    path = os.path.join(verif, "harness", "corpus", "C03.json")
    known = {}
    if os.path.exists(path):
        try:
            known = {e["kind"]: (int(e["a"], 16), int(e["b"], 16)) for e in json.load(open(path))}
        except Exception:  # noqa: BLE001
            known = {}
    out, tried = {}, 0
    for kind in LZ_KINDS:
        if kind in known and _lz_holds(kind, *known[kind]):
            out[kind] = known[kind]
            tried += 1
            continue
        for i in range(budget):
            a, b = _lz_candidate(kind, i)
            tried += 1
            if _lz_holds(kind, a, b):
                out[kind] = (a, b)
                break
    return out, tried


# ---- the real pairing glue over a scripted link (BLE with link drops; IP and CoAP once, honestly) ----------------
LINK_FAULTS = [None, ("m1", "write"), ("m1", "read"), ("m3", "write"), ("m3", "read"), ("m5", "write"), ("m5", "read")]


class LinkSession:
    """one connection = one SRP session of the reference accessory (fresh salt and server secret)"""

    def __init__(self, U, k, code, acc_id):
        self.k = k
        self.salt = hashlib.sha512(b"verif|c03|link-salt|%d" % k).digest()[:16]
        self.acc = SetupAccessory(U, code, self.salt, 50 + k, acc_id, ACC_LTSK, SRP_A, CTRL_LTSK)
        self.U = U
        self.log = []

    def respond(self, body: bytes):
        d = dict(ref_decode(body) or [])
        name = {b"\x01": "m1", b"\x03": "m3", b"\x05": "m5"}.get(d.get(T_STATE), "?")
        if name == "m1":
            items = self.acc.on_m1(body)
        elif name == "m3":
            _, items = self.acc.on_m3(body)
        elif name == "m5":
            _, out = self.acc.on_m5(body)
            items = out.build(self.U) if hasattr(out, "build") else out
        else:
            items = [(T_STATE, lit(b"\x00")), (T_ERROR, lit(b"\x01"))]
        reply = ref_encode([(t, v.b) for t, v in items])
        return name, reply


class Link:
    def __init__(self, fault, code=b"111-22-333", acc_id=b"AA:BB:CC:DD:EE:FF"):
        self.U = Universe("c03-link")
        self.fault, self.fired = fault, False
        self.code, self.acc_id = code, acc_id
        self.sessions = []

    def connect(self):
        s = LinkSession(self.U, len(self.sessions), self.code, self.acc_id)
        self.sessions.append(s)
        return s

    def exchange(self, session, body: bytes, drop):
        """one request/response over the link; drop() severs the connection"""
        d = dict(ref_decode(bytes(body)) or [])
        name = {b"\x01": "m1", b"\x03": "m3", b"\x05": "m5"}.get(d.get(T_STATE), "?")
        if self.fault == (name, "write") and not self.fired:
            self.fired = True
            session.log.append(dict(request=bytes(body).hex(), fault="link dropped while the request was written"))
            drop()
            return None
        _, reply = session.respond(bytes(body))
        if self.fault == (name, "read") and not self.fired:
            self.fired = True
            session.log.append(dict(request=bytes(body).hex(), reply=reply.hex(), fault="link dropped before the reply was read"))
            drop()
            return None
        session.log.append(dict(request=bytes(body).hex(), reply=reply.hex()))
        return reply

    def verdict(self, record, exc):
        """the conformance half of C03 for a pairing that (possibly after a retry) must succeed"""
        last = self.sessions[-1].acc if self.sessions else None
        problems = []
        if record is None:
            problems.append(f"pairing raised {exc}")
        if last is None or not last.m3_ok:
            problems.append("the accessory did not accept M3 in the final session")
        if last is None or not last.m5_ok:
            problems.append("the accessory did not accept M5 in the final session")
        if record is not None and last is not None:
            from cryptography.hazmat.primitives import serialization
            from cryptography.hazmat.primitives.asymmetric.ed25519 import Ed25519PrivateKey
            pub = Ed25519PrivateKey.from_private_bytes(bytes.fromhex(record["iOSDeviceLTSK"])).public_key().public_bytes(
                encoding=serialization.Encoding.Raw, format=serialization.PublicFormat.Raw)
            if pub.hex() != record["iOSDeviceLTPK"]:
                problems.append("iOSDeviceLTPK is not the public key of iOSDeviceLTSK")
            if last.stored != (record["iOSPairingId"].encode(), pub):
                problems.append("the accessory stored another controller identity than the record holds")
            if record["AccessoryPairingID"].encode() != self.acc_id or record["AccessoryLTPK"] != self.U.edpub(ACC_LTSK).b.hex():
                problems.append("the record does not hold the accessory's identifier / LTPK")
        return problems

    def transcript(self):
        return [dict(connection=s.k, salt=s.salt.hex(), srp_server_secret_b=hex(s.acc.b), exchanges=s.log,
                     m3_accepted=s.acc.m3_ok, m5_accepted=s.acc.m5_ok) for s in self.sessions]


async def pair_over_ble(link: Link, pin: str):
    """the real BleDiscovery.async_start_pairing / finish_pairing (real retry decorator, real
    drive_pairing_state_machine and _pairing_char_write) over a scripted GATT link"""
    import bleak_retry_connector as brc
    from bleak.exc import BleakError

    import aiohomekit.controller.ble.client as bc
    import aiohomekit.controller.ble.discovery as bd

    class FakeClient:
        address = "AA:BB:CC:DD:EE:FF"

        def __init__(self):
            self.is_connected = True
            self.session = link.connect()

        async def disconnect(self):
            self.is_connected = False

        async def clear_cache(self):
            pass

        async def get_characteristic(self, *a, **k):
            return object()

        async def get_characteristic_iid(self, *a, **k):
            return 1

    async def fake_establish(*a, **k):
        return FakeClient()

    async def fake_char_read(client, ek, dk, handle, iid):
        return b"\x00"                                  # feature flags: no MFi auth

    async def fake_char_write(client, ek, dk, handle, iid, body):
        if not client.is_connected:
            raise BleakError("not connected")

        def drop():
            client.is_connected = False
        reply = link.exchange(client.session, bytes(body), drop)
        if reply is None:
            raise BleakError("link dropped")
        return reply

    made = {}

    class RecordingPairing:
        def __init__(self, controller, pairing, **kw):
            made["pairing"] = dict(pairing)

    class Desc:
        name, address = "acc", "AA:BB:CC:DD:EE:FF"

    class Ctl:
        pairings = {}

    saved = (bd.establish_connection, bd.char_read, bc.char_write, bd.BlePairing, getattr(brc, "calculate_backoff_time", None))
    bd.establish_connection, bd.char_read, bc.char_write, bd.BlePairing = fake_establish, fake_char_read, fake_char_write, RecordingPairing
    if saved[4] is not None:
        brc.calculate_backoff_time = lambda exc: 0.0
    exc = None
    try:
        disc = bd.BleDiscovery(Ctl(), object(), Desc(), None)
        with fixed_randomness(link.U), shared_srp_work():
            try:
                finish = await disc.async_start_pairing("alias")
                await finish(pin)
            except Exception as e:  # noqa: BLE001
                exc = type(e).__name__
    finally:
        bd.establish_connection, bd.char_read, bc.char_write, bd.BlePairing = saved[:4]
        if saved[4] is not None:
            brc.calculate_backoff_time = saved[4]
    return made.get("pairing"), exc


async def pair_over_ip(link: Link, pin: str):
    """the real IpDiscovery.async_start_pairing / finish_pairing (real post_tlv) with the HTTP layer scripted"""
    import aiohomekit.controller.ip.connection as ipc
    import aiohomekit.controller.ip.discovery as idisc
    from aiohomekit.protocol.tlv import TLV
    session = link.connect()
    made = {}

    class Resp:
        def __init__(self, body):
            self.body = body

    class RecordingPairing:
        def __init__(self, controller, pairing, **kw):
            made["pairing"] = dict(pairing)

    class Desc:
        address, addresses, port, feature_flags = "127.0.0.1", ["127.0.0.1"], 1, 0

    class Ctl:
        pairings = {}

    conn = ipc.HomeKitConnection(None, ["127.0.0.1"], 1)

    async def fake_post(target, body, content_type=None):
        return Resp(link.exchange(session, bytes(body), lambda: None))

    async def nothing(*a, **k):
        return None
    conn.post, conn.ensure_connection, conn.close = fake_post, nothing, nothing
    disc = idisc.IpDiscovery.__new__(idisc.IpDiscovery)
    disc.description, disc.controller, disc.connection = Desc(), Ctl(), conn
    saved = idisc.IpPairing
    idisc.IpPairing = RecordingPairing
    exc = None
    try:
        with fixed_randomness(link.U), shared_srp_work():
            try:
                finish = await disc.async_start_pairing("alias")
                await finish(pin)
            except Exception as e:  # noqa: BLE001
                exc = type(e).__name__
    finally:
        idisc.IpPairing = saved
    _ = TLV
    return made.get("pairing"), exc


async def pair_over_coap(link: Link, pin: str):
    """the real CoAPDiscovery.async_start_pairing / finish_pairing (do_pair_setup, do_pair_setup_finish) with aiocoap scripted"""
    import aiohomekit.controller.coap.connection as cc
    import aiohomekit.controller.coap.discovery as cdisc
    session = link.connect()
    made = {}

    class Resp:
        def __init__(self, payload):
            self.payload = payload

    class Req:
        def __init__(self, payload):
            async def r():
                return Resp(payload)
            self.response = r()

    class FakeCtx:
        def request(self, message):
            return Req(link.exchange(session, bytes(message.payload), lambda: None))

        async def shutdown(self):
            pass

    class FakeContext:
        @staticmethod
        async def create_client_context():
            return FakeCtx()

        @staticmethod
        async def create_server_context(root, bind=None):
            return FakeCtx()

    class RecordingPairing:
        def __init__(self, controller, pairing, **kw):
            made["pairing"] = dict(pairing)

    class Desc:
        address, addresses, port, feature_flags = "::1", ["::1"], 5683, 0

    class Ctl:
        pairings = {}

    disc = cdisc.CoAPDiscovery.__new__(cdisc.CoAPDiscovery)
    disc.description, disc.controller = Desc(), Ctl()
    disc.connection = cc.CoAPHomeKitConnection(None, "::1", 5683)
    saved = (cc.Context, cdisc.CoAPPairing)
    cc.Context, cdisc.CoAPPairing = FakeContext, RecordingPairing
    exc = None
    try:
        with fixed_randomness(link.U), shared_srp_work():
            try:
                finish = await disc.async_start_pairing("alias")
                await finish(pin)
            except Exception as e:  # noqa: BLE001
                exc = type(e).__name__
    finally:
        cc.Context, cdisc.CoAPPairing = saved
    return made.get("pairing"), exc


def link_pass():
    """returns [(name, link, record, exc, problems)]"""
    import asyncio
    out = []

    async def main():
        for fault in LINK_FAULTS:
            link = Link(fault)
            rec, exc = await pair_over_ble(link, link.code.decode())
            out.append(("ble:" + ("no-fault" if fault is None else f"drop-on-{fault[0]}-{fault[1]}"), link, rec, exc))
        # wrong setup code over the real glue must still fail (and not be "repaired" by the retry)
        link = Link(("m3", "read"))
        rec, exc = await pair_over_ble(link, "111-22-334")
        out.append(("ble:wrong-code:drop-on-m3-read", link, rec, exc))
        link = Link(None)
        rec, exc = await pair_over_ip(link, link.code.decode())
        out.append(("ip:no-fault", link, rec, exc))
        link = Link(None)
        rec, exc = await pair_over_coap(link, link.code.decode())
        out.append(("coap:no-fault", link, rec, exc))
    asyncio.run(main())
    return out


# ---- scenario generation ------------------------------------------------------
def honest_lengths(cfg):
    code, salt, acc_id, ios_id = CFGS[cfg]
    m2 = 3 + (2 * 2 + 384) + (2 + 16)
    m4 = 3 + 2 + 64
    pt = 2 + len(acc_id) + 2 + 32 + 2 + 64
    m6 = 3 + 2 + pt + 16
    return m2, m4, m6, pt


def gen_scenarios(tier, rnd, lz=None):
    S = []
    full = tier == "thorough"
    # setup sequences: several pairings in ONE process, each judged on its own (model and oracle are history-free)
    for tr in TRANSPORTS:
        first = Scn("pre:honest", tr, 0, honest=True)
        failed = Scn("pre:wrong-code", tr, 0, acc=dict(code=WRONG_CODE, lenient=True))
        S.append(Scn("setup-sequence:same-id-new-ltsk", tr, 0, acc=dict(ltsk=OTHER_LTSK), honest=True, pre=[first]))
        S.append(Scn("setup-sequence:same-ltsk-new-id", tr, 0, acc=dict(acc_id=b"AA:BB:CC:DD:EE:00"), honest=True, pre=[first]))
        S.append(Scn("setup-sequence:other-accessory", tr, 1, honest=True, pre=[first]))
        S.append(Scn("setup-sequence:then-wrong-code", tr, 0, acc=dict(code=WRONG_CODE, lenient=True), pre=[first]))
        S.append(Scn("setup-sequence:after-failure", tr, 0, honest=True, pre=[failed]))
        S.append(Scn("setup-sequence:m6-signed-by-previous-ltsk", tr, 0, acc=dict(ltsk=OTHER_LTSK), pre=[first],
                     m6=[sub(d_items(l_set(T_SIG, lambda ctx, v: ctx.U.sign(
                         ACC_LTSK, ctx.U.hkdf(ctx.acc.K, lit(R.L_PSA_SALT), lit(R.L_PSA_INFO)) + lit(ctx.acc.acc_id)
                         + ctx.U.edpub(ACC_LTSK)))), "sig-by-first-ltsk")]))
    # directed stream: honest exchanges (and a few mutations) whose S / K / A / B / M1 / M2 have a leading zero byte
    for kind, (a_, b_) in sorted((lz or {}).items()):
        for tr in TRANSPORTS:
            S.append(Scn("leading-zero:" + kind + ":honest", tr, 0, honest=True, srp=(a_, b_), detail=kind))
        S.append(Scn("leading-zero:" + kind + ":m4-proof-flip", "ip", 0, srp=(a_, b_), detail=kind,
                     m4=[raw(r_flipbit(5, 0), "flip")]))
        S.append(Scn("leading-zero:" + kind + ":m4-proof-stripped", "ip", 0, srp=(a_, b_), detail=kind,
                     m4=[top(l_set(T_PROOF, lambda ctx, v: ctx.U.abstract(v.b.lstrip(b"\x00"))), "lstrip")]))
        S.append(Scn("leading-zero:" + kind + ":m6-sig-other-key", "ip", 0, srp=(a_, b_), detail=kind,
                     m6=[sub(d_items(l_set(T_SIG, lambda ctx, v: ctx.U.sign(OTHER_LTSK, lit(b"x")))), "othersig")]))
    for tr in TRANSPORTS:
        for cfg in range(len(CFGS)):
            S.append(Scn("honest", tr, cfg, honest=True))
        S.append(Scn("honest:no-mfi-auth", tr, 0, honest=True, with_auth=False))
        S.append(Scn("acc:other-ltsk", tr, 0, acc=dict(ltsk=OTHER_LTSK), honest=True))
        S.append(Scn("acc:other-srp-secret", tr, 0, acc=dict(b=SRP_B2), honest=True))
        S.append(Scn("acc:wrong-code:honest-error", tr, 0, acc=dict(code=WRONG_CODE)))
        S.append(Scn("acc:wrong-code:own-proof", tr, 0, acc=dict(code=WRONG_CODE, lenient=True)))
        S.append(Scn("acc:wrong-code:own-proof", tr, 1, acc=dict(code=b"031-45-155", lenient=True)))

        def other_B(ctx, v):
            a2 = SetupAccessory(ctx.U, ctx.acc.code, ctx.acc.salt, SRP_B2, ctx.acc.acc_id, ctx.acc.ltsk)
            return a2.B_v

        def wrong_code_B(ctx, v):
            a2 = SetupAccessory(ctx.U, WRONG_CODE, ctx.acc.salt, SRP_B, ctx.acc.acc_id, ctx.acc.ltsk)
            return a2.B_v

        M2 = []
        for t, nm in ((T_STATE, "state"), (T_PK, "pk"), (T_SALT, "salt")):
            M2.append((f"m2:drop:{nm}", [top(l_drop(t), "drop")]))
            M2.append((f"m2:dup-adjacent:{nm}", [top(l_dup_adj(t), "dup")]))
            M2.append((f"m2:dup-end:{nm}", [top(l_dup_end(t), "dup-end")]))
        M2.append(("m2:reorder", [top(l_perm((2, 1, 0)), "rev")]))
        M2.append(("m2:reorder", [top(l_perm((1, 2, 0)), "rot")]))
        M2.append(("m2:pk:other-b", [top(l_set(T_PK, other_B), "other-b")]))
        M2.append(("m2:pk:of-other-code", [top(l_set(T_PK, wrong_code_B), "wrong-code-B")]))
        M2.append(("m2:pk:zero", [top(l_set(T_PK, const_v(bytes(384))), "zero")]))
        M2.append(("m2:pk:empty", [top(l_set(T_PK, const_v(b"")), "empty")]))
        M2.append(("m2:pk:len383", [top(l_set(T_PK, lambda ctx, v: ctx.U.abstract(v.b[1:])), "383")]))
        M2.append(("m2:pk:len385", [top(l_set(T_PK, lambda ctx, v: ctx.U.abstract(b"\x00" + v.b)), "385")]))
        M2.append(("m2:salt:other", [top(l_set(T_SALT, const_v(bytes(range(100, 116)))), "other")]))
        M2.append(("m2:salt:len17", [top(l_set(T_SALT, lambda ctx, v: lit(v.b + b"\x01")), "17")]))
        M2.append(("m2:salt:len15", [top(l_set(T_SALT, lambda ctx, v: lit(v.b[:15])), "15")]))
        M2.append(("m2:salt:zero-extended", [top(l_set(T_SALT, lambda ctx, v: lit(b"\x00" + v.b)), "00+salt")]))
        M2.append(("m2:salt:empty", [top(l_set(T_SALT, const_v(b"")), "empty")]))
        for st_ in (b"\x01", b"\x04", b"", b"\x02\x00"):
            M2.append(("m2:state:value", [top(l_set(T_STATE, const_v(st_)), "state=" + st_.hex())]))
        for code in (1, 2, 3, 4, 5, 6, 7, 0):
            M2.append(("m2:add-error:end", [top(l_add(-1, T_ERROR, bytes([code])), f"err{code}")]))
            M2.append(("m2:add-error:nostate", [top(l_drop(T_STATE), "nostate"), top(l_add(-1, T_ERROR, bytes([code])), f"err{code}")]))
        M2.append(("m2:unknown-field:end", [top(l_add(-1, 0x42, b"zz"), "unk")]))
        M2.append(("m2:unknown-field:front", [top(l_add(0, 0x42, b"zz"), "unk")]))
        n2, n4, n6, npt = honest_lengths(0)
        # byte level on M2: TLV headers, state and salt completely; the 384-byte key sampled
        hdr = [0, 1, 2, 3, 4, 3 + 2 + 255, 3 + 2 + 256] + list(range(n2 - 18, n2))
        for i in hdr:
            for bit in (range(8) if (full or tr == "ip") else (0,)):
                M2.append(("m2:raw:flipbit", [raw(r_flipbit(i, bit), "flip")], f"byte{i}bit{bit}"))
        keybytes = range(5, n2 - 18, 1 if full else (16 if tr == "ip" else 96))
        for i in keybytes:
            M2.append(("m2:raw:flipbit", [raw(r_flipbit(i, i % 8), "flip")], f"byte{i}bit{i % 8}"))
        for n in (0, 1, 2, 3, 4, 5, 200, n2 - 19, n2 - 18, n2 - 17, n2 - 1):
            M2.append(("m2:raw:truncate", [raw(r_trunc(n), "trunc")], f"len{n}"))
        # an accessory whose REAL salt is all zeros (cfg 2): a dropped Salt item would normalise to the same value
        S.append(Scn("m2:drop:salt:zero-salt-accessory", tr, 2, m2=[top(l_drop(T_SALT), "drop")], detail="drop"))
        S.append(Scn("m2:salt:empty:zero-salt-accessory", tr, 2, m2=[top(l_set(T_SALT, const_v(b"")), "empty")], detail="empty"))
        S.append(Scn("m2:salt:short:zero-salt-accessory", tr, 2, m2=[top(l_set(T_SALT, const_v(bytes(3))), "3zeros")], detail="3zeros"))
        for it in M2:
            fam, ops = it[0], it[1]
            S.append(Scn(fam, tr, 0, m2=ops, detail=it[2] if len(it) > 2 else "+".join(o[2] for o in ops)))

        # ---- M4
        def proof_of(code):
            def mk(ctx, v):      # what an accessory holding another code's verifier would answer
                a2 = SetupAccessory(ctx.U, code, ctx.acc.salt, ctx.acc.bname, ctx.acc.acc_id, ctx.acc.ltsk, lenient=True)
                ok, items = a2.on_m3(ctx.state.bytes["m3"])
                return dict(items)[T_PROOF]
            return mk
        M4 = []
        M4.append(("m4:drop:proof", [top(l_drop(T_PROOF), "drop")]))
        M4.append(("m4:drop:state", [top(l_drop(T_STATE), "drop")]))
        M4.append(("m4:dup-adjacent:proof", [top(l_dup_adj(T_PROOF), "dup")]))
        M4.append(("m4:dup-end:proof", [top(l_dup_end(T_PROOF), "dup-end")]))
        M4.append(("m4:reorder", [top(l_perm((1, 0)), "swap")]))
        M4.append(("m4:proof:of-other-code", [top(l_set(T_PROOF, proof_of(WRONG_CODE)), "othercode")]))
        M4.append(("m4:proof:random", [top(l_set(T_PROOF, const_v(bytes(range(64)))), "rnd")]))
        M4.append(("m4:proof:empty", [top(l_set(T_PROOF, const_v(b"")), "empty")]))
        M4.append(("m4:proof:zero", [top(l_set(T_PROOF, const_v(bytes(64))), "zero")]))
        M4.append(("m4:proof:client-proof-reflected", [top(l_set(T_PROOF, lambda ctx, v: ctx.U.abstract(dict(ref_decode(ctx.state.bytes["m3"]))[T_PROOF])), "reflect")]))
        M4.append(("m4:proof:len63", [top(l_set(T_PROOF, lambda ctx, v: ctx.U.abstract(v.b[:63])), "63")]))
        M4.append(("m4:proof:len65", [top(l_set(T_PROOF, lambda ctx, v: ctx.U.abstract(v.b + b"\x00")), "65")]))
        M4.append(("m4:proof:zero-prefixed", [top(l_set(T_PROOF, lambda ctx, v: lit(b"\x00") + v), "00+proof")]))
        M4.append(("m4:proof:first-32", [top(l_set(T_PROOF, lambda ctx, v: ctx.U.abstract(v.b[:32])), "32")]))
        for n_ in (1, 2, 8, 16, 32, 48, 63):     # a proper SUFFIX of the genuine proof (right-aligned truncation)
            M4.append(("m4:proof:suffix", [top(l_set(T_PROOF, lambda ctx, v, n_=n_: ctx.U.abstract(v.b[-n_:])), f"last{n_}")]))
        M4.append(("m4:mfi-encrypted-data", [top(l_add(-1, T_ENC, bytes(range(40))), "mfi")]))
        for st_ in (b"\x02", b"\x05", b"\x06", b"", b"\x04\x00"):
            M4.append(("m4:state:value", [top(l_set(T_STATE, const_v(st_)), "state=" + st_.hex())]))
        for code in (1, 2, 3, 4, 5, 6, 7, 0):
            M4.append(("m4:add-error:end", [top(l_add(-1, T_ERROR, bytes([code])), f"err{code}")]))
            M4.append(("m4:add-error:nostate", [top(l_drop(T_STATE), "nostate"), top(l_add(-1, T_ERROR, bytes([code])), f"err{code}")]))
        M4.append(("m4:unknown-field:front", [top(l_add(0, 0x42, b"zz"), "unk")]))
        for i in range(n4):
            for bit in (range(8) if (full or tr == "ip") else (0, 7)):
                M4.append(("m4:raw:flipbit", [raw(r_flipbit(i, bit), "flip")], f"byte{i}bit{bit}"))
            if full or tr == "ip":
                M4.append(("m4:raw:xorbyte", [raw(r_xor(i, 0xFF), "xor")], f"byte{i}^ff"))
        for n in range(0, n4, 1 if full else 9):
            M4.append(("m4:raw:truncate", [raw(r_trunc(n), "trunc")], f"len{n}"))
        for it in M4:
            S.append(Scn(it[0], tr, 0, m4=it[1], detail=it[2] if len(it) > 2 else "+".join(o[2] for o in it[1])))

        # ---- M6
        def k_of(salt, info):
            return lambda ctx, v: ctx.U.hkdf(ctx.acc.K, lit(salt), lit(info))

        def sig_over(parts, key=None, pk_name=None):
            def mk(ctx, v):
                U, acc = ctx.U, ctx.acc
                src = dict(X=U.hkdf(acc.K, lit(R.L_PSA_SALT), lit(R.L_PSA_INFO)),
                           C=U.hkdf(acc.K, lit(R.L_PSC_SALT), lit(R.L_PSC_INFO)),
                           I=lit(acc.acc_id), O=lit(b"AA:BB:CC:DD:EE:F0"), P=U.edpub(acc.ltsk), Q=U.edpub(OTHER_LTSK))
                m = R.V(b"", ())
                for p in parts:
                    m = m + src[p]
                return U.sign(key or acc.ltsk, m)
            return mk
        M6 = []
        M6.append(("m6:drop:enc", [top(l_drop(T_ENC), "drop")]))
        M6.append(("m6:drop:state", [top(l_drop(T_STATE), "drop")]))
        M6.append(("m6:dup-adjacent:enc", [top(l_dup_adj(T_ENC), "dup")]))
        M6.append(("m6:dup-end:enc", [top(l_dup_end(T_ENC), "dup-end")]))
        M6.append(("m6:reorder", [top(l_perm((1, 0)), "swap")]))
        M6.append(("m6:enc:random", [top(l_set(T_ENC, const_v(bytes(range(140)))), "rnd")]))
        M6.append(("m6:enc:empty", [top(l_set(T_ENC, const_v(b"")), "empty")]))
        M6.append(("m6:enc:m5-reflected", [top(l_set(T_ENC, lambda ctx, v: ctx.U.abstract(dict(ref_decode(ctx.state.bytes["m5"]))[T_ENC])), "reflect")]))
        M6.append(("m6:enc:under-controller-sign-key", [sub(d_attr("key", k_of(R.L_PSC_SALT, R.L_PSC_INFO)), "csign")]))
        M6.append(("m6:enc:under-accessory-sign-key", [sub(d_attr("key", k_of(R.L_PSA_SALT, R.L_PSA_INFO)), "asign")]))
        M6.append(("m6:enc:under-verify-labels-key", [sub(d_attr("key", k_of(R.L_PVE_SALT, R.L_PVE_INFO)), "pv")]))
        M6.append(("m6:enc:under-other-key", [sub(d_attr("key", lambda ctx, v: ctx.U.hkdf(lit(b"attacker"), lit(b"s"), lit(b"i"))), "other")]))
        for lab in (b"PS-Msg05", b"PS-Msg04", b"PV-Msg02", b"ps-msg06"):
            M6.append(("m6:enc:under-other-nonce", [sub(d_attr("nonce", const_v(R.nonce12(lab))), lab.decode())]))
        M6.append(("m6:enc:with-aad", [sub(d_attr("aad", const_v(b"x")), "aad")]))
        for t, nm in ((T_ID, "id"), (T_PK, "pk"), (T_SIG, "sig")):
            M6.append((f"m6:sub:drop:{nm}", [sub(d_items(l_drop(t)), "drop")]))
            M6.append((f"m6:sub:dup-adjacent:{nm}", [sub(d_items(l_dup_adj(t)), "dup")]))
            M6.append((f"m6:sub:dup-end:{nm}", [sub(d_items(l_dup_end(t)), "dup-end")]))
        # a required field travels IN THE CLEAR next to EncryptedData instead of inside it (BLE delivers every item;
        # the IP/CoAP expectation filter drops it)
        def move_out(types):
            def f(draft, ctx):
                ctx.moved = [(t, v) for t, v in draft.sub_items if t in types]
                draft.sub_items = [(t, v) for t, v in draft.sub_items if t not in types]
            return f

        def put_clear(pos):
            def f(items, ctx):
                it = list(items)
                for m in ctx.moved:
                    it.insert(len(it) if pos < 0 else pos, m)
                return it
            return f
        for types, nm in (((T_SIG,), "sig"), ((T_ID,), "id"), ((T_PK,), "pk"), ((T_ID, T_PK, T_SIG), "all")):
            M6.append((f"m6:sub:moved-to-cleartext:{nm}", [sub(move_out(types), "moved"), top(put_clear(-1), "clear-after")]))
            M6.append((f"m6:sub:moved-to-cleartext:{nm}", [sub(move_out(types), "moved"), top(put_clear(1), "clear-before")]))
        M6.append(("m6:sub:reorder", [sub(d_items(l_perm((2, 0, 1))), "rot")]))
        M6.append(("m6:sub:unknown-field", [sub(d_items(l_add(-1, 0x42, b"zz")), "unk")]))
        M6.append(("m6:sub:empty", [sub(d_items(lambda it, ctx: []), "empty")]))
        M6.append(("m6:sub:sig:by-other-key", [sub(d_items(l_set(T_SIG, sig_over("XIP", OTHER_LTSK))), "otherkey")]))
        M6.append(("m6:sub:sig:over-other-id", [sub(d_items(l_set(T_SIG, sig_over("XOP"))), "XOP")]))
        M6.append(("m6:sub:sig:over-other-key", [sub(d_items(l_set(T_SIG, sig_over("XIQ"))), "XIQ")]))
        M6.append(("m6:sub:sig:controller-salt", [sub(d_items(l_set(T_SIG, sig_over("CIP"))), "CIP")]))
        for perm in ("XPI", "IXP", "IPX", "PXI", "PIX", "IP", "XI"):
            M6.append(("m6:sub:sig:over-permuted", [sub(d_items(l_set(T_SIG, sig_over(perm))), perm)]))
        M6.append(("m6:sub:sig:random", [sub(d_items(l_set(T_SIG, const_v(bytes(range(64))))), "rnd")]))
        M6.append(("m6:sub:sig:len63", [sub(d_items(l_set(T_SIG, lambda ctx, v: ctx.U.abstract(v.b[:63]))), "63")]))
        M6.append(("m6:sub:pk:other-unsigned", [sub(d_items(l_set(T_PK, lambda ctx, v: ctx.U.edpub(OTHER_LTSK))), "otherpk")]))
        M6.append(("m6:sub:pk:other-and-resigned", [sub(d_items(l_set(T_PK, lambda ctx, v: ctx.U.edpub(OTHER_LTSK))), "otherpk"),
                                                    sub(d_items(l_set(T_SIG, sig_over("XIQ", OTHER_LTSK))), "resigned")]))
        M6.append(("m6:sub:pk:len31", [sub(d_items(l_set(T_PK, lambda ctx, v: ctx.U.abstract(v.b[:31]))), "31")]))
        M6.append(("m6:sub:pk:len33", [sub(d_items(l_set(T_PK, lambda ctx, v: ctx.U.abstract(v.b + b"\x00"))), "33")]))
        M6.append(("m6:sub:id:other-unsigned", [sub(d_items(l_set(T_ID, const_v(b"AA:BB:CC:DD:EE:F0"))), "otherid")]))
        M6.append(("m6:sub:id:other-and-resigned", [sub(d_items(l_set(T_ID, const_v(b"AA:BB:CC:DD:EE:F0"))), "otherid"),
                                                    sub(d_items(l_set(T_SIG, sig_over("XOP"))), "resigned")]))

        def resigned_id(idb):
            def over(ctx, v):
                U, acc = ctx.U, ctx.acc
                return U.sign(acc.ltsk, U.hkdf(acc.K, lit(R.L_PSA_SALT), lit(R.L_PSA_INFO)) + lit(idb) + U.edpub(acc.ltsk))
            return [sub(d_items(l_set(T_ID, const_v(idb))), "id=" + idb.hex()), sub(d_items(l_set(T_SIG, over)), "resigned")]
        for idb in (b"", b"\xff\xfe", b"\xc0\x80", b"\xed\xa0\x80", b"\xed\x9f\xbf", b"\xf4\x90\x80\x80", b"\xf4\x8f\xbf\xbf",
                    b"\xe2\x82", b"a\x80", "€".encode(), "😀".encode(), b"\xe0\x9f\x80", b"\xe0\xa0\x80", b"\xf0\x8f\x80\x80",
                    b"\xc2", b"\xc1\xbf", b"\x00", b"\x7f", b"\xf5\x80\x80\x80"):
            M6.append(("m6:sub:id:resigned-text", resigned_id(idb)))
        for st_ in (b"\x02", b"\x04", b"\x05", b"", b"\x06\x00"):
            M6.append(("m6:state:value", [top(l_set(T_STATE, const_v(st_)), "state=" + st_.hex())]))
        for code in (1, 2, 3, 4, 5, 6, 7, 0):
            M6.append(("m6:add-error:end", [top(l_add(-1, T_ERROR, bytes([code])), f"err{code}")]))
            M6.append(("m6:add-error:nostate", [top(l_drop(T_STATE), "nostate"), top(l_add(-1, T_ERROR, bytes([code])), f"err{code}")]))
        M6.append(("m6:unknown-field:front", [top(l_add(0, 0x42, b"zz"), "unk")]))
        for i in range(n6):
            for bit in (range(8) if (full or tr == "ip") else (0, 7)):
                M6.append(("m6:raw:flipbit", [raw(r_flipbit(i, bit), "flip")], f"byte{i}bit{bit}"))
            if full or tr == "ip":
                M6.append(("m6:raw:xorbyte", [raw(r_xor(i, 0xFF), "xor")], f"byte{i}^ff"))
        for n in range(0, n6, 1 if full else 11):
            M6.append(("m6:raw:truncate", [raw(r_trunc(n), "trunc")], f"len{n}"))
        M6.append(("m6:raw:append-byte", [raw(r_append(b"\x06"), "append")], "06"))
        if full or tr == "ble":
            for i in range(npt):
                for bit in (range(8) if full else (0, 4, 7)):
                    M6.append(("m6:sub:raw:flipbit", [sub(d_rawflip(i, bit), "ptflip")], f"pt{i}bit{bit}"))
        for it in M6:
            S.append(Scn(it[0], tr, 0, m6=it[1], detail=it[2] if len(it) > 2 else "+".join(o[2] for o in it[1])))
        # the identifier SENT in M6 differs from the one the signature covers (the signature stays over the
        # accessory's real id): padding, case, Unicode normal forms, prefixes / suffixes
        import unicodedata
        for cfg in (0, 1):
            real = CFGS[cfg][2]
            text = real.decode()
            var = {"nul-terminated": real + b"\x00", "nul-nul": real + b"\x00\x00", "leading-nul": b"\x00" + real,
                   "trailing-space": real + b" ", "leading-space": b" " + real, "trailing-newline": real + b"\n",
                   "trailing-crlf": real + b"\r\n", "trailing-tab": real + b"\t", "lower": text.lower().encode(),
                   "upper": text.upper().encode(), "swapcase": text.swapcase().encode(), "prefix": real[:-1],
                   "suffix": real[1:], "extended": real + b"0", "doubled": real + real,
                   "trailing-nbsp": real + "\u00a0".encode(), "bom": "\ufeff".encode() + real}
            for form in ("NFC", "NFD", "NFKC", "NFKD"):
                var["unicode-" + form] = unicodedata.normalize(form, text).encode()
            for name, sent in sorted(var.items()):
                if sent != real:
                    S.append(Scn("m6:sub:id:sent-differs-from-signed", tr, cfg, detail=f"cfg{cfg}:{name}",
                                 m6=[sub(d_items(l_set(T_ID, const_v(sent))), name)]))
            # and the converse: the accessory signs a padded identifier but sends the bare one
            def signed_over(padded):
                def over(ctx, v):
                    U, acc = ctx.U, ctx.acc
                    return U.sign(acc.ltsk, U.hkdf(acc.K, lit(R.L_PSA_SALT), lit(R.L_PSA_INFO)) + lit(padded) + U.edpub(acc.ltsk))
                return over
            for name, padded in (("nul-terminated", real + b"\x00"), ("trailing-space", real + b" "), ("lower", text.lower().encode())):
                if padded != real:
                    S.append(Scn("m6:sub:id:signed-differs-from-sent", tr, cfg, detail=f"cfg{cfg}:{name}",
                                 m6=[sub(d_items(l_set(T_SIG, signed_over(padded))), name)]))
        # the controller's own identifier at the lengths that put its M5 items on the TLV8 fragment boundaries
        # (Identifier item 254/255/256 bytes; EncryptedData item 254/255/256/510 bytes): the reference accessory's
        # strict TLV8 parser judges M3 / M5
        for L in (136, 137, 138, 254, 255, 256, 390):
            S.append(Scn("honest:controller-id-length", tr, 0, honest=True, ios_id=(b"0123456789abcdef" * 25)[:L], detail=f"len{L}"))
        # identifier bit flips (validly re-signed would be accepted; here the signature stays) on another identity set
        for i in range(len(CFGS[1][2])):
            S.append(Scn("m6:sub:id:flipbit", tr, 1, m6=[sub(d_items(l_set(T_ID, flip_v(i, 0))), "idflip")], detail=f"id{i}"))
    S += gen_ble_frames(tier)
    return S


# ---- run ----------------------------------------------------------------------
# ------------------------------------------------------------------ extraction cross-check (vm_compute)
# ---- bit-exact primitives: Model/Hkdf.v + Model/ChaChaPoly.v against the bytes of real pairings ----------------------
def _cb(b) -> str:
    return "[" + ";".join(str(x) for x in bytes(b)) + "]"


def start_crypto_ties(ctx):
    """harness/hkdftie.py and harness/aeadtie.py (shared bit-exact models evaluated by vm_compute against
    aiohomekit.crypto.hkdf.hkdf_derive / aiohomekit.crypto.chacha20poly1305, independent oracles) in threads"""
    import threading
    import aiohomekit.crypto.chacha20poly1305  # noqa: F401  (imported here: concurrent first imports deadlock)
    import aiohomekit.crypto.hkdf  # noqa: F401
    import aeadtie  # noqa: F401
    import hkdftie  # noqa: F401
    out = {}

    def _violation(key_, what_, found_, **payload):
        # aeadtie passes the cipher key as payload `key=`, which collides with common.violation's first parameter
        if "key" in payload:
            payload["cipher_key"] = payload.pop("key")
        return violation(key_, what_, found_, **payload)
    aeadtie.violation = _violation

    def one(name):
        try:
            mod = __import__(name)
            out[name] = mod.run(dict(ctx, pid="C03"), "mini")
        except Exception as e:  # noqa: BLE001
            out[name] = e
    ts = [threading.Thread(target=one, args=(n,), daemon=True) for n in ("hkdftie", "aeadtie")]
    for t in ts:
        t.start()
    return ts, out


def bitexact_m5_m6(ctx, recs):
    """The encryption step of real pairings, bit for bit inside Coq: for honest exchanges (one per configuration and
    transport class) the controller's M5 box and the accessory's M6 box must open, in the byte-level models, under
    hkdf_derive(K, Pair-Setup-Encrypt-Salt, Pair-Setup-Encrypt-Info, 32) with nonces PS-Msg05 / PS-Msg06 and empty aad to
    the plaintexts an independent computation (hashlib HMAC + cryptography) gets; a box with its last bit flipped, the
    M5 box under the M6 nonce and a 15-byte box must not open.  K = the reference accessory's SRP session key."""
    import re
    from common import coq_eval
    from cryptography.hazmat.primitives.ciphers.aead import ChaCha20Poly1305
    picked, seen = [], set()
    for r in recs:
        if r.get("family") in ("honest", "honest:controller-id-length") and r.get("srp_K") and r["bytes"]["m5"] and r["bytes"]["m6"] \
                and r["impl"].startswith("result=done") and not r.get("gatt"):
            k = (r["cfg"], r["family"], r["detail"])
            if k in seen:
                continue
            seen.add(k)
            picked.append(r)
    picked = picked[:2] if ctx["tier"] != "thorough" else picked[:10]
    body = ["From Coq Require Import List NArith Bool.", "From AHK Require Import Lib.ByteStr Model.ChaChaPoly Model.Hkdf.",
            "Import ListNotations.", "Local Open Scope N_scope.",
            "Definition chk K salt info nonce box (some : bool) (pt : bytes) : N := match hkdf_derive K salt info 32 with "
            "| None => 9 | Some key => match cp_open key nonce [] box with "
            "| Some p => if some && beq_bytes p pt then 1 else 0 | None => if some then 0 else 1 end end."]
    probes = []
    for r in picked:
        K = bytes.fromhex(r["srp_K"])
        key = R.hkdf_sha512(K, R.L_PSE_SALT, R.L_PSE_INFO)
        for which, label in (("m5", b"PS-Msg05"), ("m6", b"PS-Msg06")):
            d = dict(ref_decode(bytes.fromhex(r["bytes"][which])) or [])
            box = d.get(T_ENC)
            if box is None:
                continue
            nonce = b"\0\0\0\0" + label
            try:
                pt = ChaCha20Poly1305(key).decrypt(nonce, box, b"")
            except Exception:  # noqa: BLE001
                pt = None
            other = b"\0\0\0\0" + (b"PS-Msg06" if which == "m5" else b"PS-Msg05")
            probes.append((r, which, "as-sent", nonce, box, pt))
            probes.append((r, which, "last-bit-flipped", nonce, box[:-1] + bytes([box[-1] ^ 1]), None))
            probes.append((r, which, "other-nonce", other, box, None))
            probes.append((r, which, "15-bytes", nonce, box[:15], None))
    for r, which, name, nonce, box, pt in probes:
        body.append(f"Eval vm_compute in chk {_cb(bytes.fromhex(r['srp_K']))} {_cb(R.L_PSE_SALT)} {_cb(R.L_PSE_INFO)} {_cb(nonce)} "
                    f"{_cb(box)} {'true' if pt is not None else 'false'} {_cb(pt or b'')}.")
    viols = []
    if not probes:
        return dict(pairings=0, probes=0, disagreements=None), viols
    out = coq_eval(ctx["verif"], "C03", "bitexact", "\n".join(body) + "\n", timeout=600)
    codes = [int(x) for x in re.findall(r"=\s*(\d+)\s*:\s*N", out)]
    if len(codes) != len(probes):
        viols.append(violation("bitexact-m5m6:model-eval-failed", f"vm_compute returned {len(codes)} answers for {len(probes)} probes",
                               False, broken="correspondence Model/Hkdf.v + Model/ChaChaPoly.v vs the bytes of real pairings"))
        return dict(pairings=len(picked), probes=len(probes), disagreements=None), viols
    bad = [i for i, c in enumerate(codes) if c != 1]
    for i in bad[:4]:
        r, which, name, nonce, box, pt = probes[i]
        if name == "as-sent" and which == "m5" and pt is None:
            viols.append(violation("bitexact-m5m6:m5-not-openable:" + r["transport"],
                                   "the controller's M5 box does not open under HKDF-SHA-512(K, Pair-Setup-Encrypt-Salt/Info) / "
                                   "PS-Msg05 / empty aad - neither in the byte-level Coq models nor with hashlib + cryptography: a "
                                   "conformant accessory cannot accept this exchange message", True, srp_session_key_K=r["srp_K"],
                                   m5=r["bytes"]["m5"], scenario=r["ident"]))
        else:
            viols.append(violation("bitexact-m5m6:model-mismatch", f"Model/Hkdf.v + Model/ChaChaPoly.v disagree with the independent "
                                   f"computation on {which} ({name}) of {r['ident']}: code {codes[i]}", False,
                                   srp_session_key_K=r["srp_K"], nonce=nonce.hex(), box=box.hex(), expected_plaintext=pt.hex() if pt else None))
    return dict(pairings=len(picked), probes=len(probes), disagreements=len(bad),
                plaintext_lengths=sorted({len(p[5]) for p in probes if p[5] is not None}),
                scenarios=[r["ident"] for r in picked]), viols


def FR(n, nsib=0, sibframe=(), cut="items", end="last", after=False):
    return dict(n=n, nsib=nsib, sibframe=tuple(sibframe), cut=cut, end=end, after=after)


def fr_label(fr):
    cut = fr["cut"] if isinstance(fr["cut"], str) else "at" + "-".join(str(x) for x in fr["cut"])
    return (f"n{fr['n']}:sib{'.'.join(str(x) for x in fr['sibframe']) or '-'}:{cut}:{fr['end']}:"
            f"{'after' if fr['after'] else 'before'}")


def gen_ble_frames(tier):
    """BLE: replies delivered as several GATT frames through the REAL _pairing_char_write.  Dimensions: which reply,
    number of frames, which frame carries a sibling item (first / middle / final), sibling before or after the
    fragment item, where the payload is cut (item boundaries, arbitrary bytes, inside a TLV header, empty pieces,
    255/256), how the reply ends (FragmentLast / unterminated), and what the siblings are (the reply's own State,
    an Error item, a wrong State, required fields)."""
    S = []
    full = tier == "thorough"
    ERR = lambda code=2: top(l_add(0, T_ERROR, bytes([code])), f"err{code}")  # noqa: E731
    honest_state = {"m2": b"\x02", "m4": b"\x04", "m6": b"\x06"}
    nitems = {"m2": 3, "m4": 2, "m6": 2}

    def add(fam, which, ops, fr, honest=False, cfg=0, acc=None, extra=None):
        kw = {which: ops}
        frames = {which: fr}
        frames.update(extra or {})
        S.append(Scn("ble-frames:" + which + ":" + fam, "ble", cfg, acc=acc, honest=honest, frames=frames,
                     detail="+".join(o[2] for o in ops) + "|" + "|".join(f"{k}:{fr_label(v)}" for k, v in sorted(frames.items())),
                     **kw))

    ns = (2, 3, 4, 7, 50) if full else (2, 3, 5)
    for which in ("m2", "m4", "m6"):
        # -- honest content, only the framing varies: must pair
        for n in ns:
            for cut in ("items", "bytes"):
                add("honest:fragmented", which, [], FR(n, cut=cut), honest=True)
            add("honest:unterminated", which, [], FR(n, end="plain", cut="bytes"), honest=True)
            for j in sorted({0, n // 2, n - 1}):
                for after in (False, True):
                    add("honest:state-as-sibling", which, [], FR(n, 1, (j,), cut="bytes", after=after), honest=True)
            add("honest:state-as-sibling:unterminated", which, [], FR(n, 1, (n - 1,), cut="bytes", end="plain"), honest=True)
        add("honest:single-fragment-last", which, [], FR(1), honest=True)
        add("honest:all-items-siblings:empty-last", which, [], FR(1, nitems[which], (0,) * nitems[which]), honest=True)
        add("honest:all-items-siblings:plain", which, [], FR(1, nitems[which], (0,) * nitems[which], end="plain"), honest=True)
        add("honest:all-items-siblings:spread", which, [], FR(nitems[which], nitems[which], tuple(range(nitems[which]))),
            honest=True)
        for cut in ((1,), (2,), (3,), (4,), (5,), (0,), (1, 1), (0, 0), (3, 3, 4), (255,), (256,), (257, 258), (9999,)):
            add("honest:cut", which, [], FR(len(cut) + 1, cut=cut), honest=True)
        # -- an Error item next to a fragment: in ANY frame it must make pairing fail
        for n in ns[:3] if not full else ns:
            for j in sorted({0, 1, n // 2, n - 1}):
                if j >= n:
                    continue
                for after in (False, True):
                    add("error-sibling", which, [ERR()], FR(n, 1, (j,), cut="bytes", after=after))
                add("error-sibling:state-sibling-too", which, [ERR()], FR(n, 2, (j, min(n - 1, j + 1)), cut="items"))
                add("error-sibling:nostate", which, [top(l_drop(T_STATE), "nostate"), ERR()], FR(n, 1, (j,), cut="bytes"))
            add("error-sibling:unterminated", which, [ERR()], FR(n, 1, (0,), cut="bytes", end="plain"))
            add("error-sibling:unterminated", which, [ERR()], FR(n, 1, (n - 1,), cut="bytes", end="plain"))
            add("error-in-payload", which, [top(l_add(-1, T_ERROR, b"\x02"), "err2-end")], FR(n, cut="bytes"))
        for code in (1, 3, 4, 5, 6, 7, 0):
            add("error-sibling:code", which, [ERR(code)], FR(2, 1, (0,), cut="bytes"))
        add("error-sibling:single-frame-last", which, [ERR()], FR(1, 1, (0,)))
        # -- State items next to a fragment
        wrong = {"m2": b"\x04", "m4": b"\x02", "m6": b"\x04"}[which]
        for n in ns[:2]:
            for j in sorted({0, n - 1}):
                # the reply's only State item is wrong and travels as a sibling
                add("wrong-state-sibling", which, [top(l_set(T_STATE, const_v(wrong)), "state=" + wrong.hex())],
                    FR(n, 1, (j,), cut="bytes"))
                # wrong State next to a fragment, the right one inside the payload (later item wins, as in a plain reply)
                add("wrong-state-sibling:right-in-payload", which, [top(l_add(0, T_STATE, wrong), "state+" + wrong.hex())],
                    FR(n, 1, (j,), cut="bytes"))
                # right State next to a fragment, a wrong one inside the payload
                add("right-state-sibling:wrong-in-payload", which,
                    [top(l_set(T_STATE, const_v(wrong)), "state=" + wrong.hex()), top(l_add(0, T_STATE, honest_state[which]), "state+ok")],
                    FR(n, 1, (j,), cut="bytes"))
        # -- required fields
        req = {"m2": (T_PK, T_SALT), "m4": (T_PROOF,), "m6": (T_ENC,)}[which]
        for t in req:
            add("drop-field", which, [top(l_drop(t), f"drop{t}")], FR(2, 1, (0,), cut="bytes"))
            add("drop-field", which, [top(l_drop(t), f"drop{t}")], FR(3, cut="bytes"))
    # -- content attacks behind a fragmented transport
    add("proof-random", "m4", [top(l_set(T_PROOF, const_v(bytes(range(64)))), "random")], FR(2, 1, (0,), cut="bytes"))
    add("proof-of-other-code", "m4", [], FR(3, cut="bytes"), acc=dict(code=WRONG_CODE, lenient=True))
    add("wrong-code:honest-error-reply", "m4", [], FR(2, 1, (0,), cut="items"), acc=dict(code=WRONG_CODE))
    add("wrong-code:honest-error-reply", "m4", [], FR(2, 2, (0, 0)), acc=dict(code=WRONG_CODE))
    add("wrong-code:honest-error-reply", "m4", [], FR(2, 2, (0, 1)), acc=dict(code=WRONG_CODE))
    add("wrong-code:honest-error-reply", "m4", [], FR(3, 1, (1,), cut="bytes", end="plain"), acc=dict(code=WRONG_CODE))
    add("sig-by-other-key", "m6", [sub(d_items(l_set(T_SIG, lambda ctx, v: ctx.U.sign(OTHER_LTSK, lit(b"x")))), "othersig")],
        FR(3, 1, (0,), cut="bytes"))
    add("sub-drop-sig", "m6", [sub(d_items(l_drop(T_SIG)), "dropsig")], FR(2, cut="bytes"))
    # -- every reply of one pairing framed (one object-less process, three reassemblies in a row)
    for n in (2, 3):
        add("honest:all-three-replies", "m2", [], FR(n, cut="bytes"), honest=True,
            extra=dict(m4=FR(n, 1, (0,), cut="bytes"), m6=FR(n + 1, 1, (n,), cut="bytes")))
        add("honest:all-three-replies", "m2", [], FR(n, cut="bytes"), honest=True, cfg=1,
            extra=dict(m4=FR(n, 1, (0,), cut="bytes"), m6=FR(n + 1, 1, (n,), cut="bytes")))
        add("error-sibling:all-three-replies-framed", "m6", [ERR()], FR(n + 1, 1, (0,), cut="bytes"),
            extra=dict(m2=FR(n, cut="bytes"), m4=FR(n, 1, (0,), cut="bytes")))
    return S


def coq_request(line):
    """one `ps ...` driver request as the Gallina term `show_ps ...` (same arguments, same order as drv_c03.ml);
    the term syntax is the one of drv_c01.ml, rendered by c01.coq_msg / coq_reply / coq_hexbytes"""
    w = line.split(" ")
    if len(w) != 17 or w[0] != "ps":
        raise ValueError("not a ps request")
    _, tr, code, ios_id, a, ltsk, wa, sa_code, sa_salt, sa_b, sa_id, sa_ltsk, m2, m4, m6, rid, rltpk = w
    c = (f"{{| ps_code := {H.coq_msg(code)}; ps_ios_id := {H.coq_hexbytes(ios_id)}; ps_a := {int(a)}%N; "
         f"ps_ltsk := {int(ltsk)}%N |}}")
    acc = (f"{{| sa_code := {H.coq_msg(sa_code)}; sa_salt := {H.coq_msg(sa_salt)}; sa_b := {int(sa_b)}%N; "
           f"sa_id := {H.coq_hexbytes(sa_id)}; sa_ltsk := {int(sa_ltsk)}%N |}}")
    rec = "None" if rid == "none" else f"(Some ({H.coq_hexbytes(rid)}, {H.coq_msg(rltpk)}))"
    return (f"(show_ps {dict(ip='TIP', ble='TBLE', coap='TCOAP')[tr]} {c} {'true' if wa == '1' else 'false'} {acc} "
            f"{coq_reply_f(m2)} {coq_reply_f(m4)} {coq_reply_f(m6)} {rec})")


def coq_reply_f(s):
    """a reply argument; `F:frame/frame/...` (BLE frames) becomes `bf_reply [frame; ...]` (Model/SetupFrames.v)"""
    if not s.startswith("F:"):
        return H.coq_reply(s)
    frames = []
    for f in s[2:].split("/"):
        t = H.coq_reply(f)
        if not (t.startswith("(Some ") and t.endswith(")")):
            raise ValueError("frame")
        frames.append(t[len("(Some "):-1])
    return "(bf_reply [" + "; ".join(frames) + "])"


XC_PRELUDE = """From Coq Require Import List NArith Bool.
From AHK Require Import Lib.Res Lib.ByteStr Model.Tlv Model.Sym Model.Setup Model.SetupFrames.
Import ListNotations.
Fixpoint items_eqb (a b : list sitem) : bool :=
  match a, b with
  | [], [] => true
  | (k, v) :: r, (k', v') :: s => N.eqb k k' && msg_eqb v v' && items_eqb r s
  | _, _ => false
  end.
Definition show_fail (f : fail) : N :=
  match f with FInvalid => 0 | FErr _ => 1 | FAuthTag => 2 | FParse => 3 | FWrongId => 4 | FSig => 5 | FProof => 6
  | FCrash => 7 end%N.
Definition show_ob (o : option bool) : N := match o with None => 2 | Some true => 1 | Some false => 0 end%N.
Definition show_b (b : bool) : N := if b then 1%N else 0%N.
Definition show_ps (tr : transport) (c : ps_cfg) (wa : bool) (a : sacc) (m2x m4x m6x : option (list sitem))
           (impl_rec : option (bytes * msg)) : list N :=
  let t := ps_exchange tr c wa a m2x m4x m6x in
  [ (match m2x with None => 1 | Some x => show_b (items_eqb x (pt_m2_spec t)) end);
    (match pt_result t with SDone _ => 0 | SSend _ _ => 1 | SUnsup => 2 | SFail f => 10 + show_fail f end);
    show_ob (pt_m3_accepted t); show_ob (pt_m5_accepted t);
    (match pt_result t with
     | SDone r =>
         match impl_rec with
         | None => 0
         | Some (rid, rltpk) =>
             show_b (bytes_eqb (r_acc_id r) rid && msg_eqb (r_acc_ltpk r) rltpk && bytes_eqb (r_ios_id r) (ps_ios_id c)
                     && N.eqb (r_ios_ltsk r) (ps_ltsk c) && msg_eqb (r_ios_ltpk r) [APub (ps_ltsk c)])
         end
     | _ => 2
     end);
    (match pt_result t, pt_stored t with
     | SDone _, Some (cid, cpk) => show_b (msg_eqb cid (lit (ps_ios_id c)) && msg_eqb cpk [APub (ps_ltsk c)])
     | SDone _, None => 0
     | _, _ => 2
     end) ]%N.
"""
XC_FAIL = ["invalid", "error-item", "authtag", "parse", "wrongid", "signature", "proof", "crash"]


def xc_expected(answer):
    """the driver's answer line as the list of numbers show_ps yields (None if it is not an answer line)"""
    try:
        p = dict(x.split("=", 1) for x in answer.split(" "))
        if set(p) != {"m2spec", "result", "m3acc", "m5acc", "rec", "stored"}:
            return None
        res = p["result"]
        rc = 10 + XC_FAIL.index(res[5:]) if res.startswith("fail:") else {"done": 0, "send": 1, "unsupported": 2}[res]
        ob = {"-": 2, "1": 1, "0": 0}
        return [{"0": 0, "1": 1}[p["m2spec"]], rc, ob[p["m3acc"]], ob[p["m5acc"]], ob[p["rec"]], ob[p["stored"]]]
    except (KeyError, ValueError):
        return None


def xc_sample(pairs, n=24):
    """deterministic sample of the run's (request, answer) stream: the shortest request of every distinct driver
    answer (rotating over the transports), topped up with further (transport, answer, which replies were
    substituted, implementation record present) classes, evenly spaced"""
    groups = {}
    for req, ans in pairs:
        w = req.split(" ")
        if len(w) != 17 or len(req) > 6000:
            continue
        k = (ans, w[1], w[13] != "honest", w[14] != "honest", w[15] != "none", any(x.startswith("F:") for x in w[12:15]))
        if k not in groups or len(req) < len(groups[k][0]):
            groups[k] = (req, ans)
    picked = []
    for i, ans in enumerate(sorted({k[0] for k in groups})):
        ks = sorted(k for k in groups if k[0] == ans)
        pref = [k for k in ks if k[1] == TRANSPORTS[i % 3]] or ks
        picked.append(pref[0])
    picked = picked[:n]
    rest = [k for k in sorted(groups) if k not in picked]
    room = n - len(picked)
    if room > 0 and rest:
        step = max(1, len(rest) // room)
        picked += rest[::step][:room]
    return [groups[k] for k in picked]


def vm_crosscheck(ctx, sample):
    """Evaluate the sampled requests inside Coq (`Eval vm_compute`) through the SAME model functions the extracted
    driver calls (ps_exchange, msg_eqb, bytes_eqb, lit, s_dh, srp_kc, srp_ks) and compare every field of the driver's
    answer.  Takes extraction + ocaml/drv.ml + ocaml/drv_c03.ml out of the single-point-of-trust position.
    Returns (number of requests evaluated, list of disagreements)."""
    import re
    from common import coq_eval
    body = [XC_PRELUDE] + [f"Eval vm_compute in {coq_request(req)}." for req, _ in sample]
    out = coq_eval(ctx["verif"], "C03", "crosscheck", "\n".join(body) + "\n", timeout=600)
    blocks = out.split("= ")[1:]
    bad = []
    if len(blocks) != len(sample):
        bad.append(dict(request=None, driver=None, vm_compute=f"{len(blocks)} results for {len(sample)} requests"))
    for (req, ans), blk in zip(sample, blocks):
        got = [int(x) for x in re.findall(r"(\d+)%N", blk.split(":")[0])]
        if xc_expected(ans) != got:
            bad.append(dict(request=req, driver=ans, vm_compute=got))
    return len(blocks), bad


def frame_hist(r):
    """per-dimension histogram keys of the BLE framing of a case (one bucket = a finding about the harness)"""
    if r["transport"] != "ble":
        return {}
    fr = r.get("framing") or {}
    if not fr:
        return dict(ble_frames_per_reply="1 (unfragmented)")
    out = {}
    which = sorted(fr)[-1] if len(fr) == 1 else "m2+m4+m6"
    f = fr[sorted(fr)[-1]]
    n = f["n"]
    pos = sorted({("first" if j == 0 and n > 1 else "final" if j == n - 1 else "middle") for j in f["sibframe"]})
    out["ble_framed_reply"] = which
    out["ble_frames_per_reply"] = str(n)
    out["ble_sibling_in_frame"] = "+".join(pos) or "none"
    out["ble_sibling_side"] = ("after" if f["after"] else "before") if f["nsib"] else "-"
    out["ble_payload_cut"] = f["cut"] if isinstance(f["cut"], str) else "explicit-offsets"
    out["ble_reply_end"] = f["end"]
    return out


def coarse(model_line):
    parts = dict(x.split("=", 1) for x in model_line.split(" "))
    res, cls = parts["result"], None
    if res.startswith("fail:"):
        res, cls = "fail", res[5:]
    return f"result={res} m3acc={parts['m3acc']} m5acc={parts['m5acc']}", cls, parts


def replay_payload(r, model=None):
    return dict(scenario=r["ident"], transport=r["transport"], setup_code=r["code"], ios_pairing_id=r["ios_id"],
                with_auth=r["with_auth"], srp_client_secret_a=r["a_int"], reference_accessory_srp_secret_b=r["b_int"],
                controller_ltsk_seed=Universe("c03").edsk(CTRL_LTSK).hex(), messages=r["bytes"],
                ble_gatt_frames=(r.get("gatt") or None),
                ble_note=("messages.<mN> of a framed reply is the reply AS SENT with all frames counted (siblings of every "
                          "frame + reassembled payload, last value per type); ble_gatt_frames.<mN> are the frames to return from "
                          "aiohomekit.controller.ble.client.char_write, one per write (first write = the request, then the "
                          "controller's 0c00 acknowledgements), while drive_pairing_state_machine / _pairing_char_write runs"
                          if r.get("gatt") else None),
                impl=r["impl"], impl_exception=r["exc"], impl_record=r["record"], model=model,
                earlier_pairings_in_this_process=r.get("earlier_pairings") or None,
                oracle_reason=r["why_not"], oracle_record=r["just"],
                how_to_replay="patch Srp.generate_private_key -> srp_client_secret_a and Ed25519PrivateKey.generate -> "
                              "controller_ltsk_seed; g1 = perform_pair_setup_part1(with_auth); g1.send(None); "
                              "salt, pk = g1.send(TLV.decode_bytes(m2, expected)) via StopIteration; "
                              "g2 = perform_pair_setup_part2(setup_code, ios_pairing_id, salt, pk); g2.send(None); "
                              "g2.send(decode(m4)); g2.send(decode(m6)) (dict(...) of the decoded list on BLE)")


def run(ctx):
    from common import rng
    tier = ctx["tier"]
    rnd = rng(ctx["seed"], "c03")
    drv = Driver(ctx["driver"])
    workers = int(os.environ.get("VERIF_WORKERS", "10"))
    cov = Coverage("distinct (transport, configuration, M2, M4, M6 bytes) on which part 2 of the generator was started "
                   "(SRP computed) or part 1 rejected M2 through its own checks")
    viol = []
    lz, lz_tried = leading_zero_params(ctx["verif"])
    scns = gen_scenarios(tier, rnd, lz)
    if ctx.get("replay"):
        # --replay <file>: re-run exactly the scenario a replay file names (deterministic secrets), all three ways
        import json
        want = json.load(open(ctx["replay"])).get("scenario")
        ctx = dict(ctx, replay_scenario=want)
        if str(want).startswith("real-glue:"):
            scns = []
        scns = [s for s in scns if s.ident() == want] or \
               [s for s in gen_scenarios("thorough", rng(ctx["seed"], "c03"), lz) if s.ident() == want]
        if not scns and not str(want).startswith("real-glue:"):
            return dict(coverage=dict(evaluations=0, distinct_nontrivial=0, rule="replay", samples=[]),
                        violations=[violation("replay:unknown-scenario", f"no scenario named {want}", False)])
        scns, workers = scns[:1], 1
    recs = run_all(scns, workers)
    # (started only after the fork pool is done: forking with live threads deadlocks the workers)
    tie_threads, tie_out = ([], {}) if ctx.get("replay") else start_crypto_ties(ctx)
    for r in recs:
        if "harness_error" in r:
            raise HarnessError(r["harness_error"])
    lines = [r["model_req"] for r in recs if r["model_req"]]
    model_answers = drv.batch(lines)
    answers = iter(model_answers)
    n_model = 0
    exp_lists = set()
    for s, r in zip(scns, recs):
        exp_lists.add(str(r["exp_lists"]))
        model_line = next(answers) if r["model_req"] else None
        impl = r["impl"]
        done = impl.startswith("result=done")
        mcoarse = mcls = None
        parts = {}
        if model_line is not None:
            n_model += 1
            if not model_line.startswith("m2spec="):
                viol.append(violation("model-driver-error", f"driver answered {model_line[:200]} for {r['ident']}", False,
                                      request=r["model_req"]))
                continue
            mcoarse, mcls, parts = coarse(model_line)
            if r["not_tlv"] in ("m4", "m6") and r["exc"] and r["exc"].startswith(r["not_tlv"] + ":"):
                mcoarse = impl            # the transport decoder rejected a non-TLV8 M4/M6 before the generator
                parts = {}
            if parts.get("result") == "unsupported":
                viol.append(violation("model-unsupported:" + s.family, "scenario outside the symbolic abstraction", False,
                                      scenario=r["ident"]))
                continue
            if "m2" not in r["mutated"] and parts and parts["m2spec"] != "1":
                viol.append(violation("bridge:spec-accessory-differs:" + s.family,
                                      "the reference accessory's symbolic M2 differs from the Coq specification accessory's",
                                      False, scenario=r["ident"], request=r["model_req"]))
        else:
            mcoarse = "result=fail m3acc=- m5acc=-"
        fr_h = frame_hist(r)
        cov.case("|".join(str(r["bytes"][k]) for k in ("m2", "m4", "m6")) + f"|{s.transport}|{s.cfg}|{sorted(s.acc.items())}"
                 + (f"|{sorted(r['gatt'].items())}" if r.get("gatt") else ""),
                 model_line is not None, **fr_h,
                 sample=dict(scenario=r["ident"], impl=impl, model=model_line) if s.family in SAMPLE_FAMILIES else None,
                 transport=s.transport, family=":".join(s.family.split(":")[:2]),
                 outcome=("done" if done else "fail:" + str(r["exc"]).split(":")[-1]),
                 model_outcome=(mcls or ("done" if "result=done" in (mcoarse or "") else "transport-parse-error")))
        bad = None
        if r["m1_ok"] is False:
            bad = ("m1-malformed", "the first request is not {State=1, Method=PairSetup[WithAuth]}")
        elif done and r["oracle"] == "client-view" and not r["just"]:
            bad = ("returned-unauthenticated:" + str(r["why_not"]) + ":" + s.transport,
                   "pairing data was returned although the delivered replies fail the C03 acceptance condition, "
                   f"evaluated independently on the bytes (reason: {r['why_not']})")
        elif (r["oracle"] == "client-view" and str(r["why_not"]).startswith("m2:") and r["bytes"]["m3"]) or \
             (r["oracle"] == "client-view" and str(r["why_not"]).startswith("m4:") and r["bytes"]["m5"]):
            # the message that fails the acceptance condition must itself make pairing fail: the controller
            # must not answer it (M3 after a bad M2 / M5 - which carries its identity - after a bad M4)
            nxt = "M3" if str(r["why_not"]).startswith("m2:") else "M5"
            bad = ("continued-after-unauthenticated:" + str(r["why_not"]) + ":" + s.transport,
                   f"the controller answered with {nxt} although the reply before it fails the C03 acceptance condition "
                   f"(reason: {r['why_not']}): that message must make pairing fail with an error")
        elif done and r["rec_problems"]:
            bad = ("record-inconsistent:" + s.transport, "returned record is not self-consistent: " + "; ".join(r["rec_problems"]))
        elif done and r["just"] and (r["record"]["AccessoryPairingID"] != r["just"][0]
                                     or r["record"]["AccessoryLTPK"] != r["just"][1]):
            bad = ("record-not-authenticated-identity:" + s.transport,
                   "the returned accessory identifier / LTPK are not the ones authenticated by M6")
        elif s.honest and not (done and " m3acc=1" in impl and " m5acc=1" in impl and r["stored"]):
            bad = ("honest-run-failed:" + s.family + ":" + s.transport,
                   "against a specification-conformant accessory with the right code, pairing must return, the accessory "
                   "must accept M3 and M5 and store the controller's identifier and the public key of the returned LTSK")
        if bad:
            viol.append(violation(bad[0], bad[1] + f" [{r['ident']}]", True, **replay_payload(r, model_line)))
        elif mcoarse != impl:
            viol.append(violation("model-mismatch:" + s.family + ":" + s.transport,
                                  f"model and implementation disagree on {r['ident']}: impl '{impl}' model '{mcoarse}'",
                                  False, **replay_payload(r, model_line)))
        elif done and parts and (parts["rec"] != "1" or parts["stored"] != b01(r["stored"])):
            viol.append(violation("model-mismatch:record:" + s.family + ":" + s.transport,
                                  f"returned record / accessory-side state differ from the model on {r['ident']}: "
                                  f"model {model_line}, impl stored={r['stored']} record={r['record']}",
                                  False, **replay_payload(r, model_line)))
        if not bad and r.get("reasm_diff"):
            viol.append(violation("model-mismatch:ble-reassembly:" + s.family,
                                  f"_pairing_char_write handed the pairing state machine other State/Error/field items than the "
                                  f"frames carried (or read another number of frames) on {r['ident']}: {r['reasm_diff']}",
                                  False, **replay_payload(r, model_line)))
    # ---- the real discovery / finish_pairing glue over a scripted link
    n_link = 0
    if not ctx.get("replay") or "real-glue" in str(ctx.get("replay_scenario", "")):
        for name, link, record, exc in link_pass():
            n_link += 1
            problems = link.verdict(record, exc)
            wrong_code = ":wrong-code" in name
            cov.case("link|" + name, True, sample=dict(scenario="real-glue:" + name, connections=len(link.sessions),
                                                       returned=record is not None, exception=exc),
                     transport="glue-" + name.split(":")[0], family="real-glue", outcome="done" if record else "fail:" + str(exc))
            payload = dict(scenario="real-glue:" + name, setup_code=link.code.decode(), fault=link.fault,
                           gatt_or_http_transcript=link.transcript(), returned_record=record, exception=exc,
                           srp_client_secret_a=hex(srp_a_value()),
                           how_to_replay="drive BleDiscovery.async_start_pairing(alias) and the returned finish_pairing(pin) over a "
                                         "fake client whose char_write answers with the transcript's replies and raises BleakError "
                                         "at the marked exchange; each connection is a fresh SRP session (salt, b as listed)")
            if wrong_code:
                if record is not None:
                    viol.append(violation("real-glue:wrong-code-paired:" + name, "pairing with a wrong setup code returned a record "
                                          "through the real pairing glue", True, **payload))
            elif problems:
                viol.append(violation("real-glue:honest-pairing-failed:" + name,
                                      "with the right setup code and a specification-conformant accessory (one SRP session per "
                                      "connection), pairing through the real discovery/finish_pairing glue"
                                      + (" after a link drop and the library's own retry" if link.fault else "")
                                      + " must succeed: " + "; ".join(problems), True, **payload))
    cov.extra["real_glue_pairings"] = n_link
    # ---- extraction cross-check: a sample of the same requests evaluated by the Coq kernel's VM
    if not ctx.get("replay"):
        n_xc, xc_bad = vm_crosscheck(ctx, xc_sample(list(zip(lines, model_answers))))
        cov.extra["vm_compute_crosscheck"] = {"requests": n_xc, "disagreements": len(xc_bad)}
        if xc_bad:
            viol.append(violation("extraction-vs-vm_compute",
                                  f"the extracted driver and vm_compute disagree on {len(xc_bad)} of {n_xc} sampled requests "
                                  f"(first: driver '{xc_bad[0]['driver']}', vm_compute {xc_bad[0]['vm_compute']})", False,
                                  disagreements=xc_bad[:5]))
    # ---- bit-exact primitives (shared models) + the encryption step of real pairings inside Coq
    if not ctx.get("replay"):
        info, v = bitexact_m5_m6(ctx, recs)
        cov.extra["bitexact_m5_m6"] = info
        viol += v
        for t in tie_threads:
            t.join()
        for name in ("hkdftie", "aeadtie"):
            res = tie_out.get(name)
            if isinstance(res, Exception) or res is None:
                raise HarnessError(f"{name} failed: {res!r}")
            cov.extra["primitive_tie_" + name] = res[0]
            viol += res[1]
    cov.extra["exhaustive"] = True
    cov.extra["exhaustive_part"] = ("every single-bit flip of every byte of the honest M4 and M6 of one exchange (IP; other "
                                    "transports bits 0 and 7; thorough: everything) and of the TLV headers, state and salt "
                                    "of M2 (its 384-byte key sampled: one bit per 16th byte in quick, per byte in thorough); "
                                    "every field drop/duplicate of M2, M4, M6 and the M6 sub-TLV")
    cov.extra["directed_leading_zero"] = dict(
        found={k: dict(a=hex(v[0]), b=hex(v[1])) for k, v in lz.items()}, candidates_evaluated=lz_tried,
        note="exchanges whose SRP premaster secret S, session key K, public keys A, B or proofs M1, M2 start with 0x00 (1 in 256 each); "
             "the controller's SRP secret is pinned through the Srp.generate_private_key seam")
    cov.extra["disagreements_checked"] = n_model
    cov.extra["model_cases"] = n_model
    cov.extra["expectation_lists_yielded"] = sorted(exp_lists)
    cov.extra["distinct_srp_inputs"] = len({(s.base_key()) for s in scns if s.stage() != "m2"}) + \
        sum(1 for s in scns if s.stage() == "m2")
    cov.extra["domain_exclusions"] = [
        "replies that are not TLV8 are rejected by the transport decoder before the generator; the model is not consulted",
        "setup codes and controller identifiers are text (the API takes str)",
    ]
    cov.extra["trusted_base_extra"] = [
        "symbolic<->concrete bridge: harness/ref/accessory.py dual values + atom registry (DESIGN.md 3.2, Appendix B)",
        "reference accessory: SRP-6a server on Python ints with the RFC 3526/5054 3072-bit modulus derived from its pi "
        "formula and Miller-Rabin checked; cryptography (OpenSSL) ChaCha20-Poly1305/Ed25519; hmac/hashlib HKDF-SHA-512",
        "memoised built-in pow inside aiohomekit.crypto.srp (module-level name seam) and in the reference: mutations of "
        "M4/M6 reuse the modular exponentiations of their base exchange; results are those of pow itself",
    ]
    return dict(coverage=cov.to_dict(), violations=viol)


SAMPLE_FAMILIES = {"honest", "acc:wrong-code:own-proof", "m6:enc:under-other-nonce", "m6:sub:sig:by-other-key",
                   "m4:proof:of-other-code", "m6:sub:id:resigned-text", "m2:salt:len17", "m6:sub:drop:sig"}
