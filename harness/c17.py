"""C17 correspondence: HAP PDU fragmentation / reassembly / attribution vs Model/Pdu.v.

Streams
  enc    aiohomekit.pdu.encode_pdu called directly (tiny / degenerate fragment sizes, out-of-range fields)
  ble    the real `ble_request` (= _write_pdu + _read_pdu) driven through a scripted fake GATT client:
         request grid fragment-size x body-length, plain and under real ChaCha20-Poly1305 keys; the scripted
         accessory (harness/ref/hap_pdu.py) reassembles the writes and answers with a response cut into
         fragments in every possible way, with optional faults (wrong tid, missing continuation flag, short
         fragment, undefined status, wrong nonce, flipped ciphertext bit, surplus / missing fragments)
  coap   the real EncryptionContext.post_all (encode_all_pdus / decode_all_pdus) and the result -> (aid, iid)
         loops of CoAPHomeKitConnection against a scripted accessory: batches of 1..6 with every outcome vector
For every case: implementation result, model result (extracted OCaml) and the independent reference oracle.
Nothing in /repo is modified; the only seams are constructor-free instances with a patched `post_bytes`
and duck-typed client / handle objects handed to `ble_request`.
"""
from __future__ import annotations

import asyncio
import itertools
import struct

from common import Coverage, Driver, coq_eval, hx, rng, unhx, violation
from ref import hap_pdu as ref
from ref.tlv8 import ref_encode as tlv_encode

KEY_W = bytes(range(32))
KEY_R = bytes(range(100, 132))
BLE_OPS = [1, 2, 3, 4, 5, 6, 7, 8]
IIDS = [1, 10, 255, 256, 0x1234, 65535, 0]
REAL_FS = [20, 155, 244, 496, 512]
MAXV = 6  # violations kept per key


class ScriptExhausted(Exception):
    pass


def body_of(n, salt=0):
    return bytes(((i * 7 + salt * 13 + (i >> 8)) & 0xFF) for i in range(n))


def toy(ctr, plain):
    return ctr.to_bytes(16, "little") + bytes(plain)


# ---------------------------------------------------------------- the GATT link (round 9)
# write_gatt_char / read_gatt_char of a real backend are suspension points: the bytes reach the characteristic some loop
# iterations after the call and the link does not order calls that are in flight together (Model/PduLink.v: a write is
# (lat, w); Props/C17.v ble_fragments_arrive_in_order).  The fake radios below deliver a write after `link_latency`
# loop iterations and record the ARRIVAL order - that is what the accessory reassembles - next to the issue order, the
# number of calls in flight together and the `response` argument.
LINKS = ["sync", "const", "bylen", "firstslow", "falling", "random"]
CHAR_PROPS = [["read", "write"], ["read", "write", "write-without-response"], ["write-without-response", "read"]]


def link_latency(profile, k, n, budget, salt=0):
    if profile == "sync":
        return 0                                  # bytes recorded at call time (the only behaviour before round 9)
    if profile == "const":
        return 2
    if profile == "bylen":
        return 1 + (4 * n) // max(1, budget)      # time on air grows with the packet
    if profile == "firstslow":
        return 5 if k == 0 else 1                 # connection-event wait before the first packet
    if profile == "falling":
        return max(0, 6 - k)
    return ((salt + 1) * 2654435761 + k * 40503 >> 5) % 6


class LinkLog:
    def __init__(self, profile, budget, salt=0):
        self.profile, self.budget, self.salt = profile, budget, salt
        self.reset()

    def reset(self):
        self.issued, self.order, self.flags, self.inflight, self.maxfl, self.read_while_writing = [], [], [], 0, 0, False

    async def carry(self, data, response):
        """Returns when the bytes have reached the characteristic."""
        k = len(self.issued)
        self.issued.append(data)
        self.flags.append(response)
        self.inflight += 1
        self.maxfl = max(self.maxfl, self.inflight)
        for _ in range(link_latency(self.profile, k, len(data), self.budget, self.salt)):
            await asyncio.sleep(0)
        self.inflight -= 1
        self.order.append(k)

    async def fetch(self):
        if self.inflight:
            self.read_while_writing = True
        for _ in range(0 if self.profile == "sync" else 1):
            await asyncio.sleep(0)

    def info(self):
        return dict(link=self.profile, order=list(self.order), max_in_flight=self.maxfl, response_flags=list(self.flags),
                    read_while_writing=self.read_while_writing, issued_sizes=[len(x) for x in self.issued])


def oracle_link(prefix, lk, props, sizes):
    """Independent of the model: the characteristic must receive the fragments in the order the controller produced them
    (fragment 0 carries the header, the nonce counter runs with the fragment index), whatever the link's latencies."""
    bad = []
    if lk["order"] != sorted(lk["order"]) or len(lk["order"]) != len(lk["issued_sizes"]) or lk["read_while_writing"]:
        bad.append((prefix + ":fragments-out-of-order", f"GATT link '{lk['link']}' (characteristic properties {props}): the controller had "
                    f"{lk['max_in_flight']} write_gatt_char calls in flight together; the {len(lk['issued_sizes'])} fragments (sizes {lk['issued_sizes'][:8]}) "
                    f"reach the characteristic in the order {lk['order'][:12]}" + (" and the response was read before all of them had arrived" if lk["read_while_writing"] or len(lk["order"]) != len(lk["issued_sizes"]) else "")
                    + ": the accessory sees a continuation before the header fragment / ciphertexts out of nonce order"))
    return bad



# ---------------------------------------------------------------- implementation side: BLE
def exc_token(e):
    from aiohomekit.exceptions import EncryptionError
    if isinstance(e, ScriptExhausted):
        return "err starved"
    if isinstance(e, EncryptionError):
        return "err enc"
    if isinstance(e, struct.error):
        return "crash"
    if isinstance(e, ValueError):
        return "err value"
    return "other:" + type(e).__name__


def impl_encode_direct(fs, op, tid, iid, data):
    from aiohomekit.pdu import OpCode, encode_pdu
    try:
        return "ok " + frs_str(list(encode_pdu(OpCode(op), tid, iid, data, fs)))
    except Exception as e:  # noqa
        return exc_token(e)


def frs_str(l):
    return " ".join(hx(x) for x in l) if l else "."


def build_response(case, tid):
    """Plain response fragments and the nonce counter each is sealed under (None = undecryptable)."""
    rs = case["resp"]
    body = rs["body"]
    pieces = ref.cut(body, rs["lens"])
    if rs.get("nolen"):
        frs = [bytes([rs["control"], tid, rs["status"]]) + bytes(rs.get("tail", b""))]
    else:
        frs = ref.resp_fragments(rs["control"], tid, rs["status"], body, pieces,
                                 cont_controls=rs.get("cont_controls"), declared=rs.get("declared"))
    frs = [bytearray(f) for f in frs]
    ctrs = [case["d0"] + j for j in range(len(frs))]
    for kind, j, arg in rs.get("faults", []):
        if kind == "badtid":
            frs[j][1] = (tid + arg) % 256
        elif kind == "noflag":
            frs[j][0] &= 0x7F
        elif kind == "short":
            frs[j] = frs[j][:arg]
        elif kind == "badstatus":
            frs[0][2] = arg
        elif kind == "extra":
            for _ in range(arg):
                frs.append(bytearray([0x80, tid, 0xEE]))
                ctrs.append(case["d0"] + len(ctrs))
        elif kind == "starve":
            frs, ctrs = frs[:-1], ctrs[:-1]
        elif kind == "emptycont":
            frs.insert(j, bytearray([0x80, tid]))
            ctrs = [case["d0"] + k for k in range(len(frs))]
        elif kind == "badctr":
            ctrs[j] = max(0, ctrs[j] + arg)
        elif kind == "flip":
            ctrs[j] = None
    return [bytes(f) for f in frs], ctrs


async def impl_ble(case):
    """Runs the real ble_request.  Returns dict(writes=<model format>, wctr, tid, read=<token>, plains, sizes, budget)."""
    import aiohomekit.controller.ble.client as bc
    from aiohomekit.controller.ble.key import DecryptionKey, EncryptionKey
    from aiohomekit.pdu import OpCode

    enc = case["mode"] == "c"
    aw, ar = (ref.Aead(KEY_W), ref.Aead(KEY_R)) if enc else (None, None)
    st = dict(writes=[], script=None, reads=0, overheads=[], plains=None, tid=None, total=0)
    budget = case["fs"] + (16 if enc else 0)
    link = LinkLog(case.get("link", "sync"), budget, case["fs"] + len(case["body"]))

    def accessory_plains():
        out = []
        for j, w in enumerate(st["writes"]):
            p = aw.open(case["c0"] + j, w) if enc else w
            out.append(p)
        return out

    class Client:
        address = "AA:BB:CC:DD:EE:FF"

        def determine_fragment_size(self, overhead, handle):
            st["overheads"].append(overhead)
            return budget - overhead

        async def write_gatt_char(self, handle, data, response=None):
            data = bytes(data)
            await link.carry(data, response)
            st["writes"].append(data)                 # arrival order: what the accessory's characteristic sees

        async def read_gatt_char(self, handle):
            await link.fetch()
            if st["script"] is None:
                st["plains"] = accessory_plains()
                p0 = st["plains"][0] if st["plains"] else None
                st["tid"] = p0[2] if p0 is not None and len(p0) >= 3 else 0
                frs, ctrs = build_response(case, st["tid"])
                st["model_frags"] = [f if not enc else toy(c if c is not None else (1 << 120) + k, f)
                                     for k, (f, c) in enumerate(zip(frs, ctrs))]
                wire = []
                for f, c in zip(frs, ctrs):
                    if not enc:
                        wire.append(f)
                    elif c is None:
                        s = bytearray(ar.seal(case["d0"] + len(wire), f))
                        s[len(s) // 2] ^= 0x10
                        wire.append(bytes(s))
                    else:
                        wire.append(ar.seal(c, f))
                st["script"] = wire
                st["total"] = len(wire)
            if not st["script"]:
                raise ScriptExhausted()
            st["reads"] += 1
            return bytearray(st["script"].pop(0))

    class Handle:
        properties = list(case.get("props", CHAR_PROPS[0]))

    ek = dk = None
    if enc:
        ek, dk = EncryptionKey(KEY_W), DecryptionKey(KEY_R)
        ek.counter, dk.counter = case["c0"], case["d0"]
    data = case["body"] if not case.get("none_body") else None
    try:
        status, body = await bc.ble_request(Client(), ek, dk, OpCode(case["op"]), Handle(), case["iid"], data)
        read = f"ok {int(status.value)} {hx(body)} {st['total'] - st['reads']} {dk.counter if enc else case['d0'] + st['reads']}"
    except Exception as e:  # noqa
        read = exc_token(e)
    if st["plains"] is None:
        st["plains"] = accessory_plains()
    p0 = st["plains"][0] if st["plains"] else None
    tid = st["tid"] if st["tid"] is not None else (p0[2] if p0 is not None and len(p0) >= 3 else 1)
    if enc:
        wr = [toy(case["c0"] + j, p) if p is not None else b"\xff" for j, p in enumerate(st["plains"])]
        wctr = ek.counter
    else:
        wr = list(st["writes"])
        wctr = case["c0"] + len(wr)
    return dict(writes=wr, wctr=wctr, tid=tid, read=read, plains=st["plains"], sizes=[len(w) for w in st["writes"]],
                budget=budget, model_frags=st.get("model_frags"), overheads=st["overheads"], nreads=st["reads"],
                nscript=st["total"], link=link.info(), props=Handle.properties)


# ---------------------------------------------------------------- property oracle: BLE
def oracle_ble(case, out):
    """Independent of the model.  Returns list of (slug, text)."""
    bad = []
    in_dom = case["fs"] >= 8 and len(case["body"]) <= 65535 and 0 <= case["iid"] <= 65535
    if in_dom:
        big = [s for s in out["sizes"] if s > out["budget"]]
        if big or not out["sizes"]:
            bad.append(("ble-write:fragment-exceeds-size", f"fs={case['fs']} len={len(case['body'])}: write sizes {out['sizes'][:6]} "
                        f"exceed the negotiated {out['budget']}"))
        bad.extend(oracle_link("ble-write", out["link"], out["props"], out["sizes"]))
        if case["mode"] == "c" and out["sizes"] and out["wctr"] != case["c0"] + len(out["sizes"]):
            bad.append(("ble-write:counter-desync", f"fs={case['fs']} len={len(case['body'])}: {len(out['sizes'])} fragments were sealed from nonce "
                        f"{case['c0']} but the session's encryption counter is {out['wctr']} afterwards (the accessory expects "
                        f"{case['c0'] + len(out['sizes'])} next): the following request cannot be opened"))
        if any(p is None for p in out["plains"]):
            bad.append(("ble-write:nonce-sequence", "a written fragment does not open under the accessory's next nonce"))
        else:
            got = ref.acc_reassemble(out["plains"])
            want_tail = (case["op"], case["iid"], bytes(case["body"]))
            if got is None or (got[0], got[2], got[3]) != want_tail or not (0 <= got[1] <= 255):
                bad.append(("ble-write:reassembly", f"fs={case['fs']} len={len(case['body'])}: a conformant accessory reassembles "
                            f"{None if got is None else (got[0], got[1], got[2], hx(got[3])[:40])} instead of the request "
                            f"(op {case['op']}, iid {case['iid']}, {len(case['body'])} bytes)"))
        exp = case.get("expect")
        rs = case["resp"]
        if exp == "ok":
            ctr_after = case["d0"] + out["nscript"]
            want = f"ok {rs['status']} {hx(rs['body'])} 0 {ctr_after}"
            if out["read"] != want:
                bad.append(("ble-read:fragmentation", f"response status {rs['status']} body {hx(rs['body'])[:40]} cut as {rs['lens']} "
                            f"is read as '{out['read'][:80]}' (want '{want[:80]}')"))
        elif exp == "reject-tid":
            if out["read"] != "err value":
                bad.append(("ble-read:wrong-tid-accepted", f"fragment with a foreign transaction id not rejected: {out['read'][:80]} "
                            f"(faults {rs['faults']}, cut {rs['lens']})"))
        elif exp == "reject-status":
            if out["read"].startswith("ok"):
                bad.append(("ble-read:undefined-status-accepted", f"response with undefined status byte {rs['faults'][0][2]} is returned as "
                            f"'{out['read'][:60]}' instead of failing the request"))
        elif exp == "reject-flag":
            if out["read"] != "err value":
                bad.append(("ble-read:missing-flag-accepted", f"continuation without the 0x80 flag not rejected: {out['read'][:80]} "
                            f"(faults {rs['faults']}, cut {rs['lens']})"))
    return bad


def oracle_enc(fs, op, tid, iid, d, impl):
    """encode_pdu called directly, on the property's domain."""
    if not (fs >= 8 and 0 <= tid <= 255 and 0 <= iid <= 65535 and len(d) <= 65535):
        return None
    if not impl.startswith("ok"):
        return ("ble-write:encode-raises", f"encode_pdu(fs={fs}, tid={tid}, iid={iid}, len={len(d)}) raises: {impl}")
    frs = [unhx(t) for t in impl.split(" ")[1:] if t != "."]
    if any(len(f) > fs for f in frs):
        return ("ble-write:fragment-exceeds-size", f"encode_pdu(fs={fs}, len={len(d)}): fragment sizes {[len(f) for f in frs][:6]} exceed {fs}")
    if ref.acc_reassemble(frs) != (op, tid, iid, bytes(d)):
        return ("ble-write:reassembly", f"encode_pdu(fs={fs}, tid={tid}, iid={iid}, len={len(d)}): a conformant accessory reassembles "
                f"{ref.acc_reassemble(frs)} instead of the request")
    return None


# ---------------------------------------------------------------- generators: BLE
def mk_resp(r, tid_free=True, maxlen=24):
    """A conformant random response (status, body, cut)."""
    n = r.choice([0, 0, 1, 2, 3, 5, 8, 13, r.randrange(0, maxlen + 1)])
    body = bytes(r.getrandbits(8) for _ in range(n))
    lens = []
    left = n
    first = r.randrange(0, n + 1)
    lens.append(first)
    left -= first
    while left:
        k = r.randrange(1, left + 1)
        lens.append(k)
        left -= k
    return dict(control=r.choice([0x02, 0x02, 0x12, 0x00, 0x82 & 0x7F]), status=r.choice([0, 0, 0, 1, 2, 3, 4, 5, 6]),
                body=body, lens=lens, faults=[])


def add_fault(r, rs, enc):
    """Adds one fault to a conformant response; returns the expectation class or None."""
    n = len(rs["lens"])
    kinds = ["badtid", "noflag", "short", "badstatus", "extra", "starve", "emptycont", "declared", "nolen"]
    if enc:
        kinds += ["badctr", "flip", "badctr", "flip"]
    k = r.choice(kinds)
    if k == "badtid":
        j = r.randrange(n)
        rs["faults"] = [("badtid", j, r.choice([1, 255, 0x80, r.randrange(1, 256)]))]
        return "reject-tid"
    if k == "noflag":
        if n < 2:
            return "ok"
        j = r.randrange(1, n)
        rs["faults"] = [("noflag", j, 0)]
        return "reject-flag"
    if k == "short":
        j = r.randrange(n)
        rs["faults"] = [("short", j, r.randrange(0, 5 if j == 0 else 2))]
        return None
    if k == "badstatus":
        rs["faults"] = [("badstatus", 0, r.choice([7, 8, 0x80, 0xFF, r.randrange(7, 256)]))]
        return "reject-status"
    if k == "extra":
        rs["faults"] = [("extra", 0, r.randrange(1, 3))]
        return None
    if k == "starve":
        if n < 2:
            return "ok"
        rs["faults"] = [("starve", 0, 0)]
        return None
    if k == "emptycont":
        rs["faults"] = [("emptycont", r.randrange(1, n + 1), 0)]
        return None
    if k == "declared":
        rs["declared"] = max(0, len(rs["body"]) + r.choice([-2, -1, 1, 2, 300]))
        return None
    if k == "nolen":
        rs.update(body=b"", lens=[0], nolen=True, tail=bytes(r.getrandbits(8) for _ in range(r.choice([0, 0, 1]))))
        return None
    if k == "badctr":
        rs["faults"] = [("badctr", r.randrange(n), r.choice([1, -1, 2, 1 << 32]))]
        return None
    if k == "flip":
        rs["faults"] = [("flip", r.randrange(n), 0)]
        return None
    return None


def gen_ble(tier, r):
    cases = []

    def add(fs, ln, mode, resp, expect, stream, **kw):
        c0 = r.choice([0, 0, 1, 7, 255, 256, 65535, (1 << 32) - 1, (1 << 32)]) if mode == "c" else 0
        d0 = r.choice([0, 0, 3, 255, 65536, (1 << 32) + 5]) if mode == "c" else 0
        k = len(cases)
        cases.append(dict(fs=fs, body=body_of(ln, fs), op=BLE_OPS[(fs + ln) % len(BLE_OPS)], iid=IIDS[(fs * 3 + ln) % len(IIDS)],
                          mode=mode, c0=c0, d0=d0, resp=resp, expect=expect, stream=stream,
                          link=LINKS[(k + k // 7) % len(LINKS)], props=CHAR_PROPS[(k // 2 + k // 11) % len(CHAR_PROPS)], **kw))

    # (1) exhaustive grid fs 8..64 x len 0..200, plain and encrypted
    for fs in range(8, 65):
        for ln in range(0, 201):
            for mode in ("p", "c"):
                rs = mk_resp(r)
                if mode == "c" and tier == "quick" and (fs + ln) % 3:
                    continue             # quick: every plain cell, every third cell under real keys (thorough: all)
                add(fs, ln, mode, rs, "ok", "grid")
    # (2) realistic sizes
    for fs in REAL_FS:
        if tier == "quick":
            lens = set()
            for k in range(0, 6):
                edge = (fs - 7) + k * (fs - 2)
                lens.update(x for x in (edge - 1, edge, edge + 1) if 0 <= x <= 5000)
            lens.update([0, 1, 4999, 5000])
            lens.update(r.randrange(0, 5001) for _ in range(12))
        else:
            lens = set(range(0, 1300))
            k = 0
            while (fs - 7) + k * (fs - 2) <= 5001:
                edge = (fs - 7) + k * (fs - 2)
                lens.update(x for x in range(edge - 2, edge + 3) if 0 <= x <= 5000)
                k += 1
            lens.update(range(4990, 5001))
            lens.update(r.randrange(0, 5001) for _ in range(300))
        for ln in sorted(lens):
            for mode in ("p", "c"):
                add(fs, ln, mode, mk_resp(r), "ok", "real")
    # 16-bit length boundary (struct.pack('<H') range) and iid range
    for ln, iid in ((65535, 1), (65536, 1), (10, 65536), (0, 65536), (70000, 3)):
        for mode in ("p", "c"):
            add(512 if mode == "p" else 496, ln, mode, mk_resp(r), "ok" if ln <= 65535 and iid <= 65535 else None, "limits")
            cases[-1]["iid"] = iid
    add(100, 0, "p", mk_resp(r), "ok", "limits", none_body=True)
    # (3) every fragmentation of short responses
    top_all = 9 if tier == "quick" else 13
    for n in range(0, top_all + 1):
        body = body_of(n, 99)
        for ci, lens in enumerate(ref.compositions(n)):
            mode = "c" if ci % 3 == 0 else "p"
            rs = dict(control=0x02, status=(n + ci) % 7, body=body, lens=lens, faults=[])
            add(100, 3, mode, rs, "ok", "allsplit")
    top_cut = 24 if tier == "quick" else 40
    for n in range(top_all + 1, top_cut + 1):
        body = body_of(n, 98)
        for a in range(0, n + 1):
            for b in range(a, n + 1):
                lens = [a] + [x for x in (b - a, n - b) if x]
                rs = dict(control=0x02, status=(a + b) % 7, body=body, lens=lens, faults=[])
                add(23, 1, "c" if (a + b) % 4 == 0 else "p", rs, "ok", "cuts")
    # long responses (64 KiB limit, many fragments)
    for n, piece in ((65535, 494), (5000, 18), (5000, 153), (1000, 1)):
        body = body_of(n, 5)
        first = max(0, min(n, piece - 3))
        lens = [first] + [piece] * ((n - first) // piece) + ([(n - first) % piece] if (n - first) % piece else [])
        for mode in ("p", "c"):
            add(496, 2, mode, dict(control=2, status=0, body=body, lens=lens, faults=[]), "ok", "longresp")
    # (4) every position of a wrong tid / missing flag in every fragmentation of a 6-byte response
    for n in (4, 6) if tier == "quick" else (4, 6, 8):
        body = body_of(n, 3)
        for lens in ref.compositions(n):
            for j in range(len(lens)):
                for delta in (1, 255, 0x80):
                    rs = dict(control=2, status=0, body=body, lens=lens, faults=[("badtid", j, delta)])
                    add(60, 2, "p" if delta != 255 else "c", rs, "reject-tid", "faultgrid")
                if j >= 1:
                    rs = dict(control=2, status=0, body=body, lens=lens, faults=[("noflag", j, 0)])
                    add(60, 2, "p" if j % 2 else "c", rs, "reject-flag", "faultgrid")
    # (5) random faults
    for i in range(1500 if tier == "quick" else 40000):
        mode = r.choice("pc")
        rs = mk_resp(r, maxlen=40)
        exp = add_fault(r, rs, mode == "c")
        add(r.choice([8, 9, 20, 23, 64, 155, 496]), r.choice([0, 1, 2, 17, 200, 600]), mode, rs, exp, "faults")
    # continuation fragments with every control byte (property: flag = bit 7, nothing else matters)
    for cc in range(256):
        rs = dict(control=2, status=0, body=b"\x01\x02\x03", lens=[1, 2], cont_controls=[cc], faults=[])
        add(30, 1, "p", rs, "ok" if cc & 0x80 else "reject-flag", "contctl")
    return cases


def gen_enc_direct(tier, r):
    cases = []
    for fs in range(0, 12):
        for ln in list(range(0, 14)) + [40]:
            cases.append((fs, 3, 17, 10, body_of(ln, fs)))
    for (op, tid, iid, ln) in ((1, 256, 1, 3), (1, 255, 65535, 3), (1, 0, 65536, 0), (8, 1, 1, 65536), (8, 1, 1, 65535), (1, 300, 1, 0)):
        cases.append((512, op, tid, iid, body_of(ln)))
    for tid in range(0, 256):
        cases.append((9, 2, tid, 0x0102, body_of(5, tid)))
    return cases


# ---------------------------------------------------------------- BLE: request histories on ONE real client object
# The real AIOHomeKitBleakClient (only the radio - write_gatt_char / read_gatt_char - is replaced) computes the fragment
# size itself (determine_fragment_size, with whatever caching it does) over a history of requests on the same
# connection: plain before pair-verify, encrypted afterwards, session resets, several characteristics.
HIST_LENS = [0, 80, 300]
HIST_MTUS = [None, 158, 247, 515, 100, 185]          # None: whatever the client reports without a link (HAP minimum)
HIST_MWWR = [None, None, 20, 250, 0, 120]            # backend's max_write_without_response_size


class HistChar:
    """Duck-typed BleakGATTCharacteristic."""

    def __init__(self, handle, mwwr, props=("read", "write")):
        self.handle = handle
        self.uuid = "00000000-0000-1000-8000-0026bb765291"
        self.properties = list(props)
        self.max_write_without_response_size = mwwr
        self.descriptors = []

    def get_descriptor(self, _):
        return None


def gen_ble_hist(tier, r):
    """Histories (char, encrypted?, body length) on one connection; the last step may carry a response fault:
    'stale' = a complete, well-formed answer to ANOTHER transaction id (the previous request's), 'badstatus' = an
    undefined status byte.  Session keys start at the first encrypted step and are dropped by a plain step."""
    steps = [(ch, enc, ln) for ch in (0, 1) for enc in (False, True) for ln in HIST_LENS]
    cases = []
    for n in (1, 2, 3):
        for hi, h in enumerate(itertools.product(steps, repeat=n)):
            if n == 3 and tier == "quick" and hi % 4 != 1:
                continue
            k = len(cases)
            cases.append(dict(steps=list(h), mtu=HIST_MTUS[k % 6], mwwr=HIST_MWWR[(k // 6 + k) % 6], stream="hist",
                              fault={2: "stale", 4: "badstatus"}.get(k % 6), k0=[0, 0, 7, 255, 65535, 1 << 32][k % 6],
                              link=LINKS[(k + k // 5) % len(LINKS)], props0=(k // 3) % 3))
    for _ in range(150 if tier == "quick" else 5000):
        n = r.randrange(4, 9)
        cases.append(dict(steps=[(r.randrange(3), r.random() < 0.6, r.choice([0, 1, 60, 74, 75, 80, 90, 91, 97, 300, 1000])) for _ in range(n)],
                          mtu=r.choice(HIST_MTUS + [r.randrange(100, 520)]), mwwr=r.choice(HIST_MWWR), stream="hist-random",
                          fault=r.choice([None, None, "stale", "badstatus"]), k0=r.choice([0, 3, 255, 65536, (1 << 32) - 2]),
                          link=LINKS[len(cases) % len(LINKS)], props0=len(cases) % 3))
    return cases


async def impl_ble_hist(case, serial):
    """The real AIOHomeKitBleakClient + ble_request over a whole history; the accessory (reference reassembler +
    ref.demo_answer) keeps its own receive / send counters for the session."""
    import aiohomekit.controller.ble.client as bc
    from aiohomekit.controller.ble.bleak import AIOHomeKitBleakClient
    from aiohomekit.controller.ble.key import DecryptionKey, EncryptionKey
    from aiohomekit.pdu import OpCode

    st = dict(writes=[], script=None, reads=0)
    link = LinkLog(case.get("link", "sync"), 100, serial)

    class Radio(AIOHomeKitBleakClient):
        async def write_gatt_char(self, char, data, response=None):
            data = bytes(data)
            await link.carry(data, response)
            st["writes"].append(data)                 # arrival order

        async def read_gatt_char(self, char):
            await link.fetch()
            if st["script"] is None:
                st["script"] = st["respond"]()
            if not st["script"]:
                raise ScriptExhausted()
            st["reads"] += 1
            return bytearray(st["script"].pop(0))

    client = Radio(f"C1:7A:{(serial >> 24) & 255:02X}:{(serial >> 16) & 255:02X}:{(serial >> 8) & 255:02X}:{serial & 255:02X}")
    if case["mtu"] is not None:
        client.__dict__["mtu_size"] = case["mtu"]        # the link's negotiated MTU (cached_property slot)
    mtu = client.mtu_size
    link.budget = max(mtu - 3, case["mwwr"] or 0)
    chars = [HistChar(0x21 + 4 * i, case["mwwr"], CHAR_PROPS[(i + case.get("props0", 0)) % len(CHAR_PROPS)]) for i in range(3)]
    ek = dk = aw = ar = None
    acc = dict(recv=0, send=0)                              # the accessory's nonce counters for the session
    vctr = dict(e=0, d=0)                                   # plain link: number of writes / reads (what the model counts)
    out = []
    prev_tid = None
    nsteps = len(case["steps"])
    for pos, (ch, enc, ln) in enumerate(case["steps"]):
        if enc and ek is None:                              # pair-verify done: fresh session keys on both sides
            ek, dk, aw, ar = EncryptionKey(KEY_W), DecryptionKey(KEY_R), ref.Aead(KEY_W), ref.Aead(KEY_R)
            ek.counter, dk.counter = case["k0"], case["k0"] + 5
            acc = dict(recv=case["k0"], send=case["k0"] + 5)
        if not enc:                                         # session reset / unauthenticated access
            if ek is not None or pos == 0:
                vctr = dict(e=0, d=0)
            ek = dk = aw = ar = None
        c0 = ek.counter if enc else vctr["e"]
        d0 = dk.counter if enc else vctr["d"]
        fault = case["fault"] if pos == nsteps - 1 else None
        st.update(writes=[], script=None, reads=0)
        link.reset()
        body = body_of(ln, pos + ch)
        iid = IIDS[(pos + ln) % len(IIDS)]
        op = BLE_OPS[(pos + ch) % len(BLE_OPS)]
        info = dict(tid=None, want=None, frs=None)

        def accessory_receive():
            """The accessory opens the GATT writes under ITS OWN receive counter (advanced only by what it could open)."""
            if "acc_plains" in info:
                return info["acc_plains"]
            plains = []
            for w in st["writes"]:
                p = aw.open(acc["recv"], w) if enc else w
                plains.append(p)
                if p is None:
                    break
                if enc:
                    acc["recv"] += 1
            plains += [None] * (len(st["writes"]) - len(plains))
            info["acc_plains"] = plains
            return plains

        def respond():
            plains = accessory_receive()
            rq = ref.acc_reassemble(plains) if all(p is not None for p in plains) else None
            if rq is None:
                return []                                   # a conformant accessory does not answer garbage
            rop, tid, riid, rbody = rq
            info["tid"] = tid
            control, status, rb, pieces = ref.demo_answer(rop, tid, riid, rbody)
            info["want"] = (status, rb)
            rtid = tid
            if fault == "stale":
                rtid = prev_tid if prev_tid is not None and prev_tid != tid else (tid + 1) % 256
            if fault == "badstatus":
                status = 7 + (pos * 37 + ln) % 249
            frs = ref.resp_fragments(control, rtid, status, rb, pieces, cont_controls=[0x80] * (len(pieces) - 1))
            info["frs"] = frs
            wire = [ar.seal(acc["send"] + j, f) for j, f in enumerate(frs)] if enc else list(frs)
            acc["send"] += len(frs) if enc else 0
            return wire
        st["respond"] = respond
        try:
            status, rbody = await bc.ble_request(client, ek, dk, OpCode(op), chars[ch], iid, body)
            read = f"ok {int(status.value)} {hx(rbody)}"
        except Exception as e:  # noqa
            read = exc_token(e)
        writes = list(st["writes"])
        acc_plains = accessory_receive()                    # what the accessory could open (its own nonce sequence)
        plains = [aw.open(c0 + j, w) if enc else w for j, w in enumerate(writes)]      # under the controller's counter: model format
        tid = info["tid"] if info["tid"] is not None else (plains[0][2] if plains and plains[0] is not None and len(plains[0]) >= 3 else 1)
        if enc:
            wr = [toy(c0 + j, p) if p is not None else b"\xff" for j, p in enumerate(plains)]
            e1, d1 = ek.counter, dk.counter
        else:
            wr = writes
            vctr["e"] += len(writes)
            vctr["d"] += st["reads"]
            e1, d1 = vctr["e"], vctr["d"]
        out.append(dict(ch=ch, enc=enc, ln=ln, op=op, iid=iid, body=body, c0=c0, d0=d0, e1=e1, d1=d1, tid=tid, read=read, fault=fault,
                        sizes=[len(w) for w in writes], plains=acc_plains, ctl_plains=plains, impl_w=f"ok {e1 if enc else c0 + len(writes)} {frs_str(wr)}",
                        want=info["want"], resp_frs=info["frs"], acc=dict(acc), unread=len(st["script"] or []),
                        link=link.info(), props=chars[ch].properties))
        prev_tid = tid
    return mtu, out


def oracle_ble_hist(case, mtu, o):
    """(1) every GATT write fits the ATT payload negotiated for the connection - MTU-3, or the backend's larger
    max_write_without_response_size - whatever was sent before, and the accessory reassembles the request;
    (2) the response the accessory gave to THIS request (status, body; fragmented its own way) is what ble_request returns,
    all fragments consumed, and both ends' nonce counters agree afterwards;
    (3) an answer to another transaction id, or with an undefined status byte, raises ValueError."""
    bad = []
    budget = max(mtu - 3, case["mwwr"] or 0)
    bad.extend(oracle_link("ble-session", o["link"], o["props"], o["sizes"]))
    if any(sz > budget for sz in o["sizes"]) or not o["sizes"]:
        bad.append(("ble-session:write-exceeds-negotiated", f"GATT write sizes {o['sizes'][:6]} exceed the negotiated ATT payload {budget} "
                    f"(mtu {mtu}, max_write_without_response {case['mwwr']}, {'secure session' if o['enc'] else 'plain'})"))
    if any(p is None for p in o["plains"]):
        j = [p is None for p in o["plains"]].index(True)
        bad.append(("ble-session:accessory-cannot-decrypt", f"GATT write {j} of {len(o['plains'])} does not open under the accessory's next receive "
                    f"nonce {o['acc']['recv']} (the controller sealed this request from counter {o['c0']}: earlier requests on the session already "
                    f"consumed the accessory's nonces below {o['acc']['recv']}); controller read: {o['read'][:40]}"))
        return bad
    got = ref.acc_reassemble(o["plains"])
    if got is None:
        bad.append(("ble-session:accessory-cannot-reassemble", f"the {len(o['plains'])} decrypted fragments (sizes {[len(p) for p in o['plains']][:6]}) are not a "
                    f"well-formed HAP PDU for op {o['op']} iid {o['iid']} {len(o['body'])} bytes; controller read: {o['read'][:40]}"))
        return bad
    if (got[0], got[2], got[3]) != (o["op"], o["iid"], bytes(o["body"])):
        bad.append(("ble-session:reassembly", f"accessory reassembles {(got[0], got[1], got[2], len(got[3]))} "
                    f"instead of op {o['op']} iid {o['iid']} {len(o['body'])} bytes"))
        return bad
    if o["want"] is None:
        bad.append(("ble-session:accessory-gave-no-answer", f"the accessory reassembled the request but produced no answer; controller read: {o['read'][:40]}"))
        return bad
    if o["fault"] == "stale":
        if o["read"] != "err value":
            bad.append(("ble-session:stale-response-accepted", f"an answer carrying another transaction id is returned as this request's: {o['read'][:60]}"))
    elif o["fault"] == "badstatus":
        if o["read"] != "err value":
            bad.append(("ble-session:undefined-status-accepted", f"a response with an undefined status byte is read as {o['read'][:60]}"))
    else:
        want = f"ok {o['want'][0]} {hx(o['want'][1])}"
        if o["read"] != want:
            bad.append(("ble-session:response-misread", f"the accessory answered status {o['want'][0]} with {len(o['want'][1])} body bytes in "
                        f"{len(o['resp_frs'])} fragments; ble_request returns {o['read'][:60]}"))
        elif o["unread"]:
            bad.append(("ble-session:fragments-left-unread", f"{o['unread']} response fragments left unread"))
        elif o["enc"] and (o["e1"], o["d1"]) != (o["acc"]["recv"], o["acc"]["send"]):
            bad.append(("ble-session:counter-desync", f"after the exchange the controller's nonce counters are {(o['e1'], o['d1'])}, the accessory's "
                        f"{(o['acc']['recv'], o['acc']['send'])}"))
    return bad


def hist_segments(outs_):
    """Maximal runs of fault-free steps on one key session (consecutive encrypted steps) or on the plain link."""
    segs, cur = [], []
    for pos, o in enumerate(outs_):
        if cur and (outs_[cur[-1]]["enc"] != o["enc"]):
            segs.append(cur)
            cur = []
        if o["fault"] is None:
            cur.append(pos)
        else:
            if cur:
                segs.append(cur)
            cur = []
    if cur:
        segs.append(cur)
    return segs


# ---------------------------------------------------------------- CoAP
OK_CTL = [0x02, 0x12, 0x82, 0x03, 0xF3]
BAD_CTL = [0x00, 0x04, 0x0E, 0x06, 0x0A, 0xFD]
COAP_OPS = [1, 2, 3, 4, 5, 6, 9, 0x0B, 0x0C]
KINDS = ["ok0", "okN", "err", "errB", "wtid", "wctl"]


def coap_item(kind, i, n, salt):
    val = body_of([1, 2, 5, 255, 256, 300][(i + salt) % 6], salt + i)
    tl = tlv_encode([(1, val)])
    if kind == "ok0":
        return (OK_CTL[(i + salt) % 5], i, 0, b"")
    if kind == "okN":
        return (OK_CTL[(i + salt) % 5], i, 0, tl)
    if kind == "err":
        return (OK_CTL[salt % 5], i, 1 + (i + salt) % 6, b"")
    if kind == "errB":
        return (BAD_CTL[salt % 6], i, 1 + (i * 5 + salt) % 6, tl[: 1 + salt % 7])
    if kind == "wtid":
        wt = [i + 1, n, 255, (i - 1) % 256, i ^ 0x80][(salt + i) % 5]
        return (OK_CTL[0], wt, [0, 0, 4][salt % 3], tl if salt % 2 else b"")
    if kind == "wctl":
        return (BAD_CTL[(i + salt) % 6], i, 0, tl if salt % 2 else b"")
    raise ValueError(kind)


def gen_coap(tier, r):
    cases = []
    salt = 0
    for n in range(1, 7):
        kinds = KINDS
        if n == 6 and tier == "quick":
            kinds = ["ok0", "okN", "err", "wtid", "wctl"]
        for vec in itertools.product(kinds, repeat=n):
            salt += 1
            if n == 6 and tier == "quick" and salt % 3:
                continue                 # quick: every third 6-item vector over 5 kinds (thorough: all 6^6)
            if n == 6 and tier == "quick":
                vec = tuple("errB" if (k == "err" and (salt + j) % 2) else k for j, k in enumerate(vec))
            items = [coap_item(k, i, n, salt) for i, k in enumerate(vec)]
            iids = [(7 + 5 * salt + 11 * i) % 65536 for i in range(n)]
            if salt % 17 == 0 and n > 1:
                iids[-1] = iids[0]                     # duplicate key: last wins
            cases.append(dict(n=n, vec=list(vec), items=items, iids=iids, aid=1 + salt % 3, op=COAP_OPS[salt % len(COAP_OPS)],
                              datas=[b"" if (salt + i) % 3 else body_of((salt + i) % 9, i) for i in range(n)],
                              mal=None, stream="outcomes"))
    # malformed / out-of-domain responses: model comparison only
    for i in range(600 if tier == "quick" else 8000):
        n = r.choice([1, 2, 3, 4])
        items = [coap_item(r.choice(KINDS), j, n, r.randrange(1000)) for j in range(n)]
        mal = r.choice(["trunc", "extra", "fewer", "badstatus", "empty", "longlen", "junk"])
        cases.append(dict(n=n, vec=["?"] * n, items=items, iids=[20 + j for j in range(n)], aid=1, op=3,
                          datas=[b""] * n, mal=(mal, r.randrange(1 << 30)), stream="malformed"))
    # request-side limits
    for n in (255, 256, 257):
        items = [(2, j % 256, 0, b"") for j in range(n)]
        cases.append(dict(n=n, vec=["ok0"] * n, items=items, iids=list(range(n)), aid=1, op=3, datas=[b""] * n, mal=None, stream="limits"))
    cases.append(dict(n=2, vec=["ok0"] * 2, items=[(2, 0, 0, b""), (2, 1, 0, b"")], iids=[65536, 1], aid=1, op=3, datas=[b""] * 2,
                      mal=None, stream="limits"))
    cases.append(dict(n=2, vec=["ok0"] * 2, items=[(2, 0, 0, b""), (2, 1, 0, b"")], iids=[1, 2], aid=1, op=2,
                      datas=[body_of(65535), body_of(65536)], mal=None, stream="limits"))
    cases.append(dict(n=2, vec=["ok0"] * 2, items=[(2, 0, 0, b""), (2, 1, 0, b"")], iids=[1, 2, 3], aid=1, op=2,
                      datas=[b"\x01"], mal=None, stream="limits"))
    return cases


def coap_response_bytes(case):
    resp = ref.coap_render_response(case["items"])
    if case["mal"]:
        kind, x = case["mal"]
        if kind == "trunc" and resp:
            resp = resp[: x % len(resp)]
        elif kind == "extra":
            resp += ref.coap_render_response([(2, case["n"], 0, b"\x01\x01\x07")])
        elif kind == "fewer":
            resp = ref.coap_render_response(case["items"][:-1])
        elif kind == "badstatus":
            b = bytearray(resp)
            b[2] = 7 + x % 249
            resp = bytes(b)
        elif kind == "empty":
            resp = b""
        elif kind == "longlen":
            b = bytearray(resp)
            b[3:5] = struct.pack("<H", (len(resp) + x) % 65536)
            resp = bytes(b)
        elif kind == "junk":
            resp += bytes([x & 0xFF] * (1 + x % 4))
    return resp


def cres_tok(x):
    from aiohomekit.controller.coap.pdu import PDUStatus
    if isinstance(x, PDUStatus):
        return f"s:{int(x.value)}"
    return "b:" + hx(x)


async def impl_coap(case):
    """post_all plus the four result->id loops.  Returns dict(request=..., results=token, exits=...)."""
    from aiohomekit.controller.coap.connection import CoAPHomeKitConnection, EncryptionContext
    from aiohomekit.controller.coap.pdu import OpCode

    seen = []
    resp = coap_response_bytes(case)

    async def post_bytes(payload, timeout=16.0):
        seen.append(bytes(payload))
        return resp

    ectx = object.__new__(EncryptionContext)
    ectx.post_bytes = post_bytes
    out = {}
    try:
        res = await ectx.post_all(OpCode(case["op"]), list(case["iids"]), list(case["datas"]))
        out["results"] = "ok " + (" ".join(cres_tok(x) for x in res) if res else ".")
    except Exception as e:  # noqa
        res = None
        out["results"] = exc_token(e)
    out["request"] = hx(seen[0]) if seen else None

    class Info:
        def find_characteristic_by_iid(self, iid):
            return None

    conn = object.__new__(CoAPHomeKitConnection)
    conn.enc_ctx = ectx
    conn.info = Info()
    ids = [(case["aid"], iid) for iid in case["iids"]]

    def canon(d, all_entries):
        toks = []
        for k, v in sorted(d.items()):
            if "status" in v:
                toks.append(f"{k[0]}.{k[1]}=s:{-int(v['status'])}")
            else:
                toks.append(f"{k[0]}.{k[1]}=v:{hx(v['value'])}")
        return "ok " + (" ".join(toks) if toks else ".")

    exits = {}
    exit_wire = {}
    if case["stream"] != "limits" and len(case["iids"]) == len(case["datas"]):
        for name in ("read", "sub", "unsub", "write"):
            n0 = len(seen)
            try:
                if name == "read":
                    d = await conn.read_characteristics(list(ids))
                elif name == "sub":
                    d = await conn.subscribe_to(list(ids))
                elif name == "unsub":
                    d = await conn.unsubscribe_from(list(ids))
                else:
                    if res is None:
                        continue
                    d = conn._write_characteristics_exit([(a, i, 0) for a, i in ids], res)
                exits[name] = canon(d, name == "read")
            except Exception as e:  # noqa
                exits[name] = exc_token(e) if not isinstance(e, IndexError) else "crash"
            if name != "write":
                exit_wire[name] = [hx(x) for x in seen[n0:]]
    out["exits"] = exits
    out["exit_wire"] = exit_wire
    out["nreq"] = len(seen)
    return out


# ---------------------------------------------------------------- CoAP: repeated ids, reactive accessory
PATH_OPS = {"read": 3, "write": 2, "sub": 0x0B, "unsub": 0x0C}
DUP_KINDS = ["okN", "ok0", "err", "wtid", "wctl"]
DUP_ALPHA = [(1, 52), (1, 53), (2, 52)]          # (2, 52): another accessory sharing iid 52


def dup_value(pos, iid):
    return bytes([0xA0 + pos % 64, iid & 0xFF, (iid >> 8) & 0xFF, 0x11])


def dup_write_value(pos, iid):
    return bytes([0x50 + pos % 64, iid & 0xFF])


def dup_answer(kind, pos, tid, iid):
    """What the scripted accessory answers for the request PDU at wire position `pos`."""
    tl = tlv_encode([(1, dup_value(pos, iid))])
    if kind == "okN":
        return (0x02, tid, 0, tl)
    if kind == "ok0":
        return (0x02, tid, 0, b"")
    if kind == "err":
        return (0x02, tid, 1 + pos % 6, b"")
    if kind == "wtid":
        return (0x02, (tid + 1) % 256, 0, tl)
    if kind == "wctl":
        return (0x00, tid, 0, tl)
    raise ValueError(kind)


def dup_expected(kind, pos, iid):
    """Oracle: the outcome the controller must attribute to request position `pos`."""
    if kind == "okN":
        return "v:" + hx(dup_value(pos, iid))
    if kind == "ok0":
        return "v:-"
    if kind == "err":
        return f"s:{1 + pos % 6}"
    return "s:256" if kind == "wtid" else "s:257"


def gen_coap_dup(tier, r):
    cases = []
    # every id vector over a 3-key alphabet for n <= 4, with every {okN, err} outcome vector and two mixed ones
    for n in range(1, 5):
        for idv in itertools.product(DUP_ALPHA, repeat=n):
            vecs = [list(v) for v in itertools.product(["okN", "err"], repeat=n)]
            vecs.append([DUP_KINDS[(i + len(cases)) % 5] for i in range(n)])
            vecs.append([DUP_KINDS[(2 * i + 1 + len(cases)) % 5] for i in range(n)])
            for vec in vecs:
                cases.append(dict(ids=list(idv), vec=vec, stream="dupids"))
    # random longer ones: few distinct keys, many repeats
    for _ in range(400 if tier == "quick" else 6000):
        n = r.randrange(5, 13)
        alpha = [(r.choice([1, 1, 2, 3]), r.choice([7, 52, 53, 255, 256, 65535])) for _ in range(r.choice([1, 2, 3, 4]))]
        cases.append(dict(ids=[r.choice(alpha) for _ in range(n)], vec=[r.choice(DUP_KINDS) for _ in range(n)], stream="dupids-random"))
    # (aid, iid) missing from the controller's accessory database: every non-empty subset of the keys of a batch of
    # 1..4 distinct ids (and of batches with a repeated key), unknown item first / in the middle / last
    distinct = [(1, 51), (1, 52), (1, 53), (2, 52)]
    for n in range(1, 5):
        for idv in [distinct[:n]] + ([list(v) for v in itertools.product(DUP_ALPHA, repeat=n) if len(set(v)) < n] if n in (2, 3) else []):
            keys = sorted(set(idv))
            for mask in range(1, 1 << len(keys)):
                unknown = [k for b, k in enumerate(keys) if mask >> b & 1]
                for vec in (["okN"] * n, [["err", "okN", "ok0", "err"][(i + mask) % 4] for i in range(n)]):
                    cases.append(dict(ids=list(idv), vec=vec, unknown=unknown, stream="unknown-write"))
    for _ in range(150 if tier == "quick" else 3000):
        n = r.randrange(2, 9)
        ids = [(r.choice([1, 2]), r.choice([51, 52, 53, 54, 999])) for _ in range(n)]
        keys = sorted(set(ids))
        cases.append(dict(ids=ids, vec=[r.choice(DUP_KINDS) for _ in range(n)], unknown=r.sample(keys, r.randrange(1, len(keys) + 1)),
                          stream="unknown-write-random"))
    # the public signature is Iterable[(aid, iid)]: list, tuple, dict view and a one-shot generator
    for n in (1, 2, 3):
        for kind in ("list", "tuple", "dictkeys", "generator"):
            for vec in (["okN"] * n, ["err", "okN", "ok0"][:n]):
                cases.append(dict(ids=[(1, 51), (1, 52), (2, 52)][:n], vec=vec, read_arg=kind, stream="iterable-kinds"))
    # which instance ids the controller's accessory database knows on the READ path (find_characteristic_by_iid): all / none /
    # some - a read of an unknown iid returns the raw bytes and must not touch any cached characteristic
    for k, c in enumerate(cases):
        iids = sorted({i for _a, i in c["ids"]})
        c["known_read"] = [iids, [], iids[:1], iids[1:], [52, 255]][k % 5]
    return cases


def dict_canon(d):
    toks = []
    for k, v in sorted(d.items()):
        if "status" in v:
            toks.append(f"{k[0]}.{k[1]}=s:{-int(v['status'])}")
        else:
            val = v["value"]
            toks.append(f"{k[0]}.{k[1]}=c{val[1]}:{hx(val[2])}" if isinstance(val, tuple) else f"{k[0]}.{k[1]}=v:{hx(val)}")
    return "ok " + (" ".join(toks) if toks else ".")


async def impl_coap_dup(case):
    """read / write / subscribe / unsubscribe of a batch with repeated ids through the real connection methods;
    the accessory answers each request PDU it actually receives according to its wire position."""
    from aiohomekit.controller.coap.connection import CoAPHomeKitConnection, EncryptionContext

    ids, vec, n = case["ids"], case["vec"], len(case["ids"])
    unknown = {tuple(k) for k in case.get("unknown", [])}
    log = []

    async def post_bytes(payload, timeout=16.0):
        payload = bytes(payload)
        req = ref.coap_parse_request(payload)
        items = [] if req is None else [dup_answer(vec[j] if j < n else "okN", j, tid, iid) for j, (_op, tid, iid, _d) in enumerate(req)]
        resp = ref.coap_render_response(items)
        log.append((payload, resp))
        return resp

    class Char:
        def __init__(self):
            self.value = None

        @property
        def raw_value(self):
            return self.value

    cache_log = []

    class ReadChar:
        """A characteristic of the accessory database as the read path uses it: raw_value is stored (the cached model),
        value is the converted representation (here: tagged, so that it differs from the raw bytes)."""

        def __init__(self, iid):
            self.iid = iid
            self._raw = None

        @property
        def raw_value(self):
            return self._raw

        @raw_value.setter
        def raw_value(self, v):
            self._raw = bytes(v)
            cache_log.append(f"{self.iid}:{hx(v)}")

        @property
        def value(self):
            return ("conv", self.iid, self._raw)

    db = {iid: ReadChar(iid) for iid in case.get("known_read", [])}

    class Info:
        def find_characteristic_by_iid(self, iid):
            return db.get(iid)

        def find_characteristic_by_aid_iid(self, aid, iid):
            return None if (aid, iid) in unknown else Char()

    ectx = object.__new__(EncryptionContext)
    ectx.post_bytes = post_bytes
    conn = object.__new__(CoAPHomeKitConnection)
    conn.enc_ctx = ectx
    conn.info = Info()
    out = {}
    for name in ("read", "sub", "unsub", "write"):
        n0 = len(log)
        try:
            if name == "read":
                kind = case.get("read_arg", "list")
                arg = (tuple(ids) if kind == "tuple" else dict.fromkeys(ids).keys() if kind == "dictkeys"
                       else (k for k in list(ids)) if kind == "generator" else list(ids))
                d = await conn.read_characteristics(arg)
            elif name == "sub":
                d = await conn.subscribe_to(list(ids))
            elif name == "unsub":
                d = await conn.unsubscribe_from(list(ids))
            else:
                d = await conn.write_characteristics([(a, i, dup_write_value(p, i)) for p, (a, i) in enumerate(ids)])
            tok = dict_canon(d)
        except Exception as e:  # noqa
            tok = "crash" if isinstance(e, (IndexError, AttributeError)) else exc_token(e)
        out[name] = dict(result=tok, wire=[hx(q) for q, _ in log[n0:]], resp=[hx(a) for _, a in log[n0:]])
        if name == "read":
            out[name]["cache"] = list(cache_log)
    return out


def dup_wire_expected(case, name):
    pb = case.get("posbase", 0)
    return [(PATH_OPS[name], i, iid, tlv_encode([(1, dup_write_value(pb + i, iid))]) if name == "write" else b"")
            for i, (_aid, iid) in enumerate(case["ids"])]


# ---------------------------------------------------------------- CoAP: overlapping API calls on ONE connection
# 2-3 read / write / subscribe / unsubscribe batches in flight at once on one live CoAPHomeKitConnection: the scripted
# transport suspends every post_bytes until the schedule releases it, so a second call starts while the first is still
# waiting for its response.  Every interleaving of the start (S_i) and release (R_i) events.
OV_IDS = [[(1, 52), (1, 53)], [(1, 54)], [(2, 52), (1, 53), (1, 55)], [(1, 53), (1, 52)]]
OV_PATHS = ["read", "write", "sub", "unsub"]


def ov_schedules(k):
    """All orderings of S_0..S_k-1, R_0..R_k-1 with S_i before R_i."""
    def go(started, released, acc):
        if len(released) == k:
            yield list(acc)
            return
        for i in range(k):
            if i not in started:
                yield from go(started | {i}, released, acc + [("S", i)])
            elif i not in released:
                yield from go(started, released | {i}, acc + [("R", i)])
    return list(go(frozenset(), frozenset(), []))


def gen_coap_overlap(tier, r):
    cases = []
    sch2, sch3 = ov_schedules(2), ov_schedules(3)
    n = 0
    for paths in itertools.product(OV_PATHS, repeat=2):
        for ia, ib in ((0, 1), (1, 2), (2, 3), (0, 0)):
            for sch in sch2:
                n += 1
                calls = [dict(path=p, ids=OV_IDS[i], vec=[DUP_KINDS[(n + j + 2 * ci) % 5] if (n + ci) % 3 else "okN" for j in range(len(OV_IDS[i]))],
                              posbase=16 * ci) for ci, (p, i) in enumerate(zip(paths, (ia, ib)))]
                cases.append(dict(calls=calls, schedule=sch, stream="overlap2"))
    # the caller mutates the list it passed while the call is suspended: the result must be that of the argument at call time
    for path in OV_PATHS:
        for mut in ("replace", "reverse", "remove", "append", "insert", "clear"):
            for ii in (0, 2, 3):
                n += 1
                mk = lambda ci, p, i, m: dict(path=p, ids=OV_IDS[i], mutate=m, posbase=16 * ci,
                                              vec=[DUP_KINDS[(n + j + ci) % 5] if (n + ci) % 2 else "okN" for j in range(len(OV_IDS[i]))])
                cases.append(dict(calls=[mk(0, path, ii, mut)], schedule=[("S", 0), ("R", 0)], stream="overlap-mutate"))
                for sch in sch2[:3]:
                    cases.append(dict(calls=[mk(0, path, ii, mut), mk(1, OV_PATHS[n % 4], (ii + 1) % 4, None)], schedule=sch, stream="overlap-mutate"))
    combos3 = [("read", "read", "read"), ("read", "write", "sub"), ("write", "read", "unsub"), ("sub", "unsub", "read"),
               ("write", "write", "read"), ("read", "sub", "read")]
    for ci3, paths in enumerate(combos3):
        for si, sch in enumerate(sch3):
            if tier == "quick" and (si + ci3) % 3:
                continue
            n += 1
            pick = [(n + 0) % 4, (n + 1) % 4, (n + 3) % 4]
            calls = [dict(path=p, ids=OV_IDS[i], vec=[DUP_KINDS[(n + j + ci) % 5] if (n + ci) % 2 else "okN" for j in range(len(OV_IDS[i]))],
                          posbase=16 * ci) for ci, (p, i) in enumerate(zip(paths, pick))]
            cases.append(dict(calls=calls, schedule=sch, stream="overlap3"))
    return cases


async def impl_coap_overlap(case):
    from aiohomekit.controller.coap.connection import CoAPHomeKitConnection, EncryptionContext

    calls = case["calls"]
    gates, task_of, log = {}, {}, {}

    async def post_bytes(payload, timeout=16.0):
        ci = task_of[asyncio.current_task()]
        c = calls[ci]
        payload = bytes(payload)
        req = ref.coap_parse_request(payload)
        n = len(c["ids"])
        items = [] if req is None else [dup_answer(c["vec"][j] if j < n else "okN", c["posbase"] + j, tid, iid)
                                        for j, (_op, tid, iid, _d) in enumerate(req)]
        resp = ref.coap_render_response(items)
        log.setdefault(ci, []).append((payload, resp))
        gates[ci] = asyncio.get_running_loop().create_future()
        await gates[ci]                                    # the exchange is in flight until the schedule releases it
        return resp

    class Char:
        def __init__(self):
            self.value = None

        @property
        def raw_value(self):
            return self.value

    class Info:
        def find_characteristic_by_iid(self, iid):
            return None

        def find_characteristic_by_aid_iid(self, aid, iid):
            return Char()

    ectx = object.__new__(EncryptionContext)
    ectx.post_bytes = post_bytes
    conn = CoAPHomeKitConnection(None, "any", 1234)       # the real constructor: whatever per-connection state it sets up
    conn.enc_ctx = ectx
    conn.info = Info()
    tasks = {}

    args = {}

    async def run_call(ci):
        c = calls[ci]
        ids = [tuple(k) for k in c["ids"]]
        if c["path"] == "write":
            args[ci] = [(a, i, dup_write_value(c["posbase"] + p, i)) for p, (a, i) in enumerate(ids)]
            return await conn.write_characteristics(args[ci])
        args[ci] = list(ids)                               # the caller keeps a reference to the list it passed
        if c["path"] == "read":
            return await conn.read_characteristics(args[ci])
        if c["path"] == "sub":
            return await conn.subscribe_to(args[ci])
        return await conn.unsubscribe_from(args[ci])

    def mutate(ci):
        """The caller changes ITS list while the call is suspended in the exchange (another task reusing / updating a poll list)."""
        kind, a = calls[ci].get("mutate"), args.get(ci)
        if not kind or a is None:
            return
        extra = (9, 999) if calls[ci]["path"] != "write" else (9, 999, b"\x00")
        if kind == "replace":
            a[0] = extra
        elif kind == "reverse":
            a.reverse()
        elif kind == "remove":
            del a[0]
        elif kind == "append":
            a.append(extra)
        elif kind == "insert":
            a.insert(0, extra)
        elif kind == "clear":
            a.clear()

    for ev, ci in case["schedule"]:
        if ev == "S":
            t = asyncio.get_running_loop().create_task(run_call(ci))
            task_of[t] = ci
            tasks[ci] = t
            for _ in range(50):
                if ci in gates or t.done():
                    break
                await asyncio.sleep(0)
        else:
            mutate(ci)
            if ci in gates and not gates[ci].done():
                gates[ci].set_result(None)
            for _ in range(50):
                if tasks[ci].done():
                    break
                await asyncio.sleep(0)
    out = []
    for ci in range(len(calls)):
        t = tasks[ci]
        if not t.done():
            t.cancel()
            tok = "other:never-finished"
        else:
            e = t.exception()
            tok = dict_canon(t.result()) if e is None else ("crash" if isinstance(e, (IndexError, AttributeError)) else exc_token(e))
        out.append({calls[ci]["path"]: dict(result=tok, wire=[hx(q) for q, _ in log.get(ci, [])], resp=[hx(a) for _, a in log.get(ci, [])], cache=[])})
    return out


def oracle_coap_dup(case, out):
    """Position i of the request is paired with what the accessory answered for position i; the accessory is asked
    exactly the requested positions, in order.  A Python dict holds one entry per (aid, iid): for a repeated key the
    read result carries the outcome of its LAST position; the error-only results (write / subscribe / unsubscribe)
    carry the status of its last FAILED position and no entry for keys none of whose positions failed.
    A write batch naming an (aid, iid) the controller's database lacks may be refused as a whole (exception, nothing on the
    wire); if anything is sent, it must be the complete batch."""
    bad = []
    ids, vec = case["ids"], case["vec"]
    pb = case.get("posbase", 0)
    exp = [dup_expected(vec[i], pb + i, ids[i][1]) for i in range(len(ids))]
    for name, o in out.items():
        if name == "write" and case.get("unknown") and not o["wire"] and not o["result"].startswith("ok"):
            continue     # a batch naming a characteristic the controller does not know is refused before anything is sent
        got_w = [ref.coap_parse_request(unhx(w)) for w in o["wire"]]
        if got_w != [dup_wire_expected(case, name)]:
            bad.append((f"coap-ids:{name}-wire", f"{name} of ids {ids}: the accessory is asked "
                        f"{[None if g is None else [(t, i) for _o, t, i, _d in g] for g in got_w]} (tid, iid) instead of one batch "
                        f"with position i = (tid i, iid of ids[i])"))
        d = {}
        known = set(case.get("known_read", []))
        for i, k in enumerate(ids):
            if name == "read" and vec[i] == "okN" and k[1] in known:
                d[tuple(k)] = f"c{k[1]}:{exp[i][2:]}"          # converted by the known characteristic
            elif name == "read" or exp[i].startswith("s:"):
                d[tuple(k)] = exp[i]
        want = "ok " + (" ".join(f"{k[0]}.{k[1]}={v}" for k, v in sorted(d.items())) if d else ".")
        if o["result"] != want:
            bad.append((f"coap-ids:{name}-misattributed", f"{name} of ids {ids} with per-position outcomes {vec}: result "
                        f"{o['result'][:160]} (want {want[:160]})"))
        if name == "read" and o["result"].startswith("ok"):
            want_cache = [f"{k[1]}:{exp[i][2:]}" for i, k in enumerate(ids) if vec[i] == "okN" and k[1] in known]
            if o["cache"] != want_cache:
                bad.append(("coap-ids:read-cache", f"read of ids {ids} (database knows iids {sorted(known)}) with outcomes {vec}: cached "
                            f"characteristic values written {o['cache'][:8]} (want {want_cache[:8]}: position i's value into iid_i only)"))
    if case.get("read_arg") == "generator" and any(sl.startswith("coap-ids:read") for sl, _ in bad):
        # a one-shot iterable is legal for the annotated signature Iterable[tuple[int, int]]; own key for this input class
        txt = "; ".join(t for sl, t in bad if sl.startswith("coap-ids:read"))
        bad = [(sl, t) for sl, t in bad if not sl.startswith("coap-ids:read")]
        bad.append(("coap-read:one-shot-iterable", "read_characteristics(<generator over the ids>): " + txt))
    return bad


def model_pairs_canon(ans, ids):
    """model 'ok k=r ..' (ordered pairs over positions) -> dict semantics: a later pair for an equal key wins."""
    if not ans.startswith("ok"):
        return ans
    d = {}
    for tok in ans.split(" ")[1:]:
        if tok == ".":
            continue
        k, rr = tok.split("=")
        key = tuple(ids[int(k)])
        d[key] = rr if rr.startswith("s:") else "v:" + hx(tlv_value(unhx(rr[2:])))
    return "ok " + (" ".join(f"{k[0]}.{k[1]}={v}" for k, v in sorted(d.items())) if d else ".")


def model_exit_canon(ans, case, read):
    """model 'ok k=r ..' over positions -> dict semantics (later entry for an equal key wins) in the impl's format."""
    if not ans.startswith("ok"):
        return ans
    d = {}
    for tok in ans.split(" ")[1:]:
        if tok == ".":
            continue
        k, rr = tok.split("=")
        key = (case["aid"], case["iids"][int(k)])
        if rr.startswith("s:"):
            d[key] = rr
        else:
            raw = unhx(rr[2:])
            d[key] = "v:" + hx(tlv_value(raw))
    return "ok " + (" ".join(f"{k[0]}.{k[1]}={v}" for k, v in sorted(d.items())) if d else ".")


def tlv_value(raw):
    """value of TLV type 1 in a body built by coap_item (reference TLV8)."""
    from ref.tlv8 import ref_decode
    if not raw:
        return b""
    items = ref_decode(raw)
    if items is None:
        return None
    dd = dict(items)
    return dd.get(1)


def body_decodable(raw):
    if not raw:
        return True
    from ref.tlv8 import ref_decode
    items = ref_decode(raw)
    return items is not None and 1 in dict(items)


def oracle_coap_request(case, out):
    """request side: the accessory must see tid i / iid_i / data_i for item i"""
    n = len(case["iids"])
    if not (n == len(case["datas"]) and 1 <= n <= 256 and all(0 <= i <= 65535 for i in case["iids"])
            and all(len(d) <= 65535 for d in case["datas"])):
        return []
    req = ref.coap_parse_request(unhx(out["request"])) if out["request"] else None
    want_req = [(case["op"], i, case["iids"][i], bytes(case["datas"][i])) for i in range(n)]
    if req != want_req:
        return [("coap-request:tid-or-order", f"batch request parses as {str(req)[:120]} instead of tid=i/iid_i/data_i")]
    return []


def oracle_coap_badstatus(case, out):
    """Item 0 carries an undefined status byte (> 6).  The batch may be refused as a whole (exception); if results are
    returned, item 0 must not come back as a body (success) and every other item must carry its own outcome."""
    bad = oracle_coap_request(case, out)
    if not out["results"].startswith("ok"):
        return bad
    got = out["results"].split(" ")[1:]
    exp = [ref.coap_expected(i, it) for i, it in enumerate(case["items"])]
    want = [("b:" + hx(v)) if k == "body" else f"s:{v}" for k, v in exp]
    if len(got) != len(want) or got[0].startswith("b:") or got[1:] != want[1:]:
        bad.append(("coap-decode:undefined-status-accepted", f"item 0 answered with undefined status byte {7 + case['mal'][1] % 249}: post_all returns "
                    f"{out['results'][:120]} (item 0 must be an error or the batch refused; the others {want[1:]})"))
    return bad


def oracle_coap(case, out):
    """Attribution oracle on the outcome-vector domain (independent of the model)."""
    n = case["n"]
    exp = [ref.coap_expected(i, it) for i, it in enumerate(case["items"])]
    want = "ok " + " ".join(("b:" + hx(v)) if k == "body" else f"s:{v}" for k, v in exp)
    bad = oracle_coap_request(case, out)
    if out["results"] != want:
        got = out["results"].split(" ")[1:] if out["results"].startswith("ok") else []
        slug = "coap-decode:result-misattributed"
        if out["results"].startswith("ok") and len(got) != n:
            slug = "coap-decode:result-count"
        elif not out["results"].startswith("ok"):
            slug = "coap-decode:batch-raises"
        bad.append((slug, f"outcomes {case['vec']}: post_all returns {out['results'][:120]} (want {want[:120]})"))
    # exits: key ids[i] carries outcome i (last wins for duplicate keys)
    for name, wires in out.get("exit_wire", {}).items():
        want_w = [(PATH_OPS[name], i, case["iids"][i], b"") for i in range(n)]
        got_w = [ref.coap_parse_request(unhx(w)) for w in wires]
        if got_w != [want_w]:
            bad.append((f"coap-ids:{name}-wire", f"{name} of ids {case['iids']}: the accessory is asked {str(got_w)[:160]} "
                        f"instead of one batch with position i = (tid i, iid_i)"))
    for name, got in out["exits"].items():
        allv = name == "read"
        if allv and not all(body_decodable(v) for k, v in exp if k == "body"):
            continue
        d = {}
        for i, (k, v) in enumerate(exp):
            key = (case["aid"], case["iids"][i])
            if k == "status":
                d[key] = f"s:{v}"
            elif allv:
                d[key] = "v:" + hx(tlv_value(v))
        # write/sub/unsub report errors only; a later success for a duplicate key does not erase an earlier error entry
        w = "ok " + (" ".join(f"{k[0]}.{k[1]}={v}" for k, v in sorted(d.items())) if d else ".")
        if got != w:
            bad.append((f"coap-exit:{name}-misattributed", f"outcomes {case['vec']} ids {case['iids']}: {name} gives {got[:120]} (want {w[:120]})"))
    return bad


# ---------------------------------------------------------------- extraction cross-check (vm_compute inside Coq)
XC_QUOTA = dict(enc=4, wr=4, rd=6, cenc=3, cdec=4, cexit=3)     # + up to 3 acc and 3 cparse derived requests: <= 30
XC_MAXLINE = 2400                                               # request line length: every Gallina literal < ~1200 elements
XC_PRELUDE = """From Coq Require Import List NArith.
From AHK Require Import Lib.Res Lib.ByteStr Model.Pdu.
Import ListNotations.
Local Open Scope N_scope.
Definition xlen {A} (l : list A) : N := N.of_nat (length l).
Definition fl_b (b : list N) : list N := xlen b :: b.
Definition fl_ll (l : list (list N)) : list N := xlen l :: flat_map fl_b l.
Definition fl_cres (r : cres) : list N := match r with CBody b => 0 :: fl_b b | CStatus s => [1; s] end.
Definition show_res {A} (f : A -> list N) (r : res perr A) : list N :=
  match r with Ok a => 0 :: f a | Err ValueError => [1] | Err EncryptionError => [2] | Err Starved => [3]
  | Crash => [4] | OutOfFuel => [5] end.
Definition show_enc := show_res fl_ll.
Definition show_wr := show_res (fun wc : list (list N) * N => snd wc :: fl_ll (fst wc)).
Definition show_rd := show_res (fun x : N * list N * list (list N) * N =>
  let '(st, body, rest, c) := x in st :: c :: xlen rest :: fl_b body).
Definition show_acc (o : option (N * N * N * list N)) : list N :=
  match o with None => [0] | Some (op, t, i, b) => 1 :: op :: t :: i :: fl_b b end.
Definition show_cenc := show_res fl_b.
Definition show_cdec := show_res (fun l : list cres => xlen l :: flat_map fl_cres l).
Definition show_cexit := show_res (fun l : list (N * cres) => xlen l :: flat_map (fun kr => fst kr :: fl_cres (snd kr)) l).
Definition show_cparse (o : option (list (N * N * N * list N))) : list N :=
  match o with None => [0]
  | Some l => 1 :: xlen l :: flat_map (fun x : N * N * N * list N => let '(op, t, i, b) := x in op :: t :: i :: fl_b b) l end.
Definition acc_of (opn : N -> list N -> option (list N)) (ctr : N) (fr : list (list N)) :=
  match open_seq opn ctr fr with None => None | Some ps => acc_reassemble ps end.
Definition ids_upto (n : nat) : list N := map N.of_nat (seq 0 n).
Definition cparse_of (d : list N) := coap_acc_parse (S (length d)) d.
"""
XC_RES = {"ok": 0, "err value": 1, "err enc": 2, "err starved": 3, "crash": 4, "fuel": 5}


def gal_bytes(b):
    return "[" + "; ".join(str(x) for x in bytes(b)) + "]"


def gal_list(items):
    return "[" + "; ".join(items) + "]"


def gal_cres(tok):
    k, v = tok.split(":")
    return f"CBody {gal_bytes(unhx(v))}" if k == "b" else f"CStatus {int(v)}"


def xc_term(line):
    """The Gallina term evaluating request `line` with the SAME model function ocaml/drv_c17.ml calls for it."""
    w = line.split()
    k = w[0]
    if k == "enc":
        fs, op, tid, iid, d = w[1:]
        return f"show_enc (ble_encode {int(fs)}%nat {int(op)} {int(tid)} {int(iid)} {gal_bytes(unhx(d))})"
    if k == "wr":
        m, ctr, fs, op, tid, iid, d = w[1:]
        return (f"show_wr (ble_write {'seal_plain' if m == 'p' else 'toy_seal'} {int(ctr)} {int(fs)}%nat {int(op)} {int(tid)} "
                f"{int(iid)} {gal_bytes(unhx(d))})")
    if k == "rd":
        m, ctr, tid = w[1:4]
        return (f"show_rd (read_pdu {'open_plain' if m == 'p' else 'toy_open'} {int(ctr)} {int(tid)} "
                f"{gal_list(gal_bytes(unhx(f)) for f in w[4:])})")
    if k == "acc":
        m, ctr = w[1:3]
        return f"show_acc (acc_of {'open_plain' if m == 'p' else 'toy_open'} {int(ctr)} {gal_list(gal_bytes(unhx(f)) for f in w[3:])})"
    if k == "cenc":
        op, iids, datas = w[1:]
        il = [] if iids == "." else iids.split(",")
        dl = [] if datas == "." else datas.split(",")
        return (f"show_cenc (coap_encode_all {int(op)} {gal_list(str(int(i)) for i in il)} "
                f"{gal_list(gal_bytes(unhx(d)) for d in dl)})")
    if k == "cdec":
        return f"show_cdec (coap_decode_all {int(w[1])} {gal_bytes(unhx(w[2]))})"
    if k == "cexit":
        fn = "coap_exit_all" if w[1] == "all" else "coap_exit_errors"
        return f"show_cexit ({fn} (ids_upto {int(w[2])}%nat) {gal_list(gal_cres(t) for t in w[3:])})"
    if k == "cparse":
        return f"show_cparse (cparse_of {gal_bytes(unhx(w[1]))})"
    raise ValueError("no Gallina rendering for request kind " + k)


def xc_flat(kind, ans):
    """The driver's answer line as the flat number list the show_* helper of that request kind produces."""
    def fb(h):
        b = unhx(h)
        return [len(b)] + list(b)

    def fcres(tok):
        k, v = tok.split(":")
        return [0] + fb(v) if k == "b" else [1, int(v)]

    t = ans.split(" ")
    if kind in ("acc", "cparse"):
        if ans == "none":
            return [0]
        if t[0] != "some":
            return None
        if kind == "acc":
            return [1, int(t[1]), int(t[2]), int(t[3])] + fb(t[4])
        items = [x for x in t[1:] if x != "."]
        out = [1, len(items)]
        for it in items:
            op, tid, iid, h = it.split(":")
            out += [int(op), int(tid), int(iid)] + fb(h)
        return out
    if t[0] != "ok":
        return [XC_RES[ans]] if ans in XC_RES else None
    rest = [x for x in t[1:] if x != "."]
    if kind == "enc":
        return [0, len(rest)] + [y for f in rest for y in fb(f)]
    if kind == "wr":
        return [0, int(rest[0]), len(rest) - 1] + [y for f in rest[1:] for y in fb(f)]
    if kind == "rd":
        st, body, nleft, ctr = rest
        return [0, int(st), int(ctr), int(nleft)] + fb(body)
    if kind == "cenc":
        return [0] + fb(rest[0])
    if kind == "cdec":
        return [0, len(rest)] + [y for r in rest for y in fcres(r)]
    if kind == "cexit":
        out = [0, len(rest)]
        for kr in rest:
            k, r = kr.split("=")
            out += [int(k)] + fcres(r)
        return out
    return None


def xc_sample(stream):
    """Deterministic sample of the run's (request, answer) stream: per request kind, round-robin over the answer
    classes (and plain / sealed mode) seen for that kind, positions spread over the class; small requests only."""
    by_kind = {}
    for line, ans in stream:
        k = line.split(" ", 1)[0]
        if k not in XC_QUOTA or len(line) > XC_MAXLINE or len(ans) > XC_MAXLINE + 600 or xc_flat(k, ans) is None:
            continue
        cls = ans if not ans.startswith("ok") else "ok"
        if k == "wr" or (k == "rd" and cls == "ok"):
            cls += line[2:5]
        if k == "cexit":
            cls += line[5:10]
        by_kind.setdefault(k, {}).setdefault(cls, []).append((line, ans))
    sample = []
    for k in sorted(XC_QUOTA):
        classes = by_kind.get(k, {})
        names = sorted(classes, key=lambda nm: (not nm.startswith("ok"), nm))
        picked, rnd = [], 0
        while len(picked) < XC_QUOTA[k] and names and rnd < 8:
            for nm in names:
                lst = classes[nm]
                cand = lst[((2 * rnd + 1) * len(lst)) // 16 % len(lst)]
                if cand not in picked and len(picked) < XC_QUOTA[k]:
                    picked.append(cand)
            rnd += 1
        sample += picked
    return sample


def xc_derived(drv_batch, sample):
    """acc / cparse are driver request kinds the correspondence streams do not use: exercise them on the sampled
    wr / cenc answers (the accessory's view of what the model wrote), plus one rejected variant each."""
    lines = []
    wrs = [(l.split(" "), a.split(" ")) for l, a in sample if l.startswith("wr ") and a.startswith("ok ")]
    for j, (lw, aw) in enumerate(wrs[:2] + wrs[:1]):
        ctr, frs = int(lw[2]), [x for x in aw[2:] if x != "."]
        if j == 2 and lw[1] == "t":
            ctr += 1                                                     # sealed: wrong nonce -> none
        elif j == 2 and frs:                                             # plain: missing / surplus fragment -> none
            frs = frs[:-1] if len(frs) > 1 else frs + ["80" + frs[0][4:6] + "ee"]
        lines.append(" ".join(["acc", lw[1], str(ctr)] + frs))
    ces = [a.split(" ")[1] for l, a in sample if l.startswith("cenc ") and a.startswith("ok ")]
    for j, h in enumerate(ces[:2] + ces[:1]):
        lines.append("cparse " + (h if j < 2 or h == "-" else (h[:-2] or "-")))      # j == 2: truncated batch
    lines = [l for l in lines if len(l) <= XC_MAXLINE]
    return list(zip(lines, drv_batch(lines))) if lines else []


def vm_crosscheck(ctx, sample):
    """Evaluate the sampled requests with vm_compute inside Coq (same model functions as ocaml/drv_c17.ml calls) and
    compare the full structured result with what the extracted OCaml driver answered: takes extraction and the
    hand-written driver glue out of the single-point-of-trust position.  Returns (n_requests, [disagreement, ..])."""
    import re
    body = [XC_PRELUDE] + [f"Eval vm_compute in ({xc_term(line)})." for line, _ in sample]
    out = coq_eval(ctx["verif"], "C17", "crosscheck", "\n".join(body) + "\n", timeout=300)
    blocks = re.split(r"^\s*= ", out, flags=re.M)[1:]
    bad = []
    if len(blocks) != len(sample):
        bad.append(dict(request="*", driver=f"{len(sample)} requests", vm_compute=f"{len(blocks)} results"))
    for (line, ans), blk in zip(sample, blocks):
        got = [int(x) for x in re.findall(r"\d+", blk.rsplit(":", 1)[0])]
        want = xc_flat(line.split(" ", 1)[0], ans)
        if want is None or got != want:
            bad.append(dict(request=line[:300], driver=ans[:300], vm_compute=" ".join(blk.split())[:300]))
    return len(sample), bad


# ---------------------------------------------------------------- GATT link: Gallina model vs the harness's fake link
LINK_PRELUDE = """From Coq Require Import List NArith.
From AHK Require Import Lib.Res Lib.ByteStr Model.Pdu Model.PduLink.
Import ListNotations.
Definition ids (l : list (list N)) : list N := map (fun w => hd 999%N w) l.
Definition lat_of (l : list nat) : latency := fun k _ => nth k l 0.
Definition pay (l : list nat) : list bytes := map (fun k => [N.of_nat k]) (seq 0 (length l)).
Definition tie (l : list nat) : list N :=
  ids (arrival (issue_seq 3 (combine l (pay l)))) ++ [777%N] ++ ids (arrival (issue_par 3 (combine l (pay l)))) ++ [777%N]
  ++ ids (link_seq (lat_of l) 0 0 (pay l)) ++ [777%N] ++ ids (arrival (issue_par_f (lat_of l) 5 0 (pay l))) ++ [888%N].
"""


def link_sample(cases, outs_, per_profile=4):
    """Multi-fragment requests of the ble stream, a few per latency profile: (profile, latencies, order seen by the accessory)."""
    got, count = [], {}
    for c, o in zip(cases, outs_):
        lk = o["link"]
        n = len(lk["issued_sizes"])
        if not (2 <= n <= 9) or count.get((c["link"], n > 3), 0) >= per_profile // 2:
            continue
        count[(c["link"], n > 3)] = count.get((c["link"], n > 3), 0) + 1
        lats = [link_latency(c["link"], k, sz, o["budget"], c["fs"] + len(c["body"])) for k, sz in enumerate(lk["issued_sizes"])]
        got.append(dict(profile=c["link"], fs=c["fs"], body_len=len(c["body"]), mode=c["mode"], lats=lats, impl_order=list(lk["order"])))
    return got


async def fake_link_orders(lats):
    """The harness's own fake link driven directly: sequentially awaited calls, and all calls started together."""
    class Fixed(LinkLog):
        pass
    res = []
    for par in (False, True):
        lk = LinkLog("fixed", 1)
        async def one(k):
            lk.issued.append(b"x")
            lk.inflight += 1
            for _ in range(lats[k]):
                await asyncio.sleep(0)
            lk.inflight -= 1
            lk.order.append(k)
        if par:
            await asyncio.gather(*(one(k) for k in range(len(lats))))
        else:
            for k in range(len(lats)):
                await one(k)
        res.append(list(lk.order))
    return res


def link_model_tie(ctx, sample):
    """Model/PduLink.v evaluated inside Coq on the latencies the fake link used: (a) arrival (issue_seq ...) and link_seq must be the
    order in which the REAL _write_pdu's fragments reached the characteristic; (b) issue_seq / issue_par must agree with the fake
    link driven directly both ways (the fake is the environment the implementation is judged in: it must be the modelled one)."""
    import re
    import re
    evals = []
    for i in range(0, len(sample), 4):         # short result lists: Coq's printer is superlinear in the length of a list literal
        lists = "; ".join("[" + "; ".join(str(x) for x in smp["lats"]) + "]" for smp in sample[i:i + 4])
        evals.append(f"Eval vm_compute in (flat_map tie [{lists}]).")
    out = coq_eval(ctx["verif"], "C17", "linktie", LINK_PRELUDE + "\n".join(evals) + "\n", timeout=300)
    nums = []
    for blk in re.split(r"^\s*= ", out, flags=re.M)[1:]:
        nums += [int(x) for x in re.findall(r"\d+", blk.rsplit(":", 1)[0])]
    blocks, cur = [], []
    for x in nums:
        if x == 888:
            blocks.append(cur)
            cur = []
        else:
            cur.append(x)
    bad = []
    if len(blocks) != len(sample):
        return [dict(case="*", why=f"{len(sample)} requests, {len(blocks)} results")]
    for smp, nums in zip(sample, blocks):
        parts, cur = [], []
        for x in nums:
            if x == 777:
                parts.append(cur)
                cur = []
            else:
                cur.append(x)
        parts.append(cur)
        fseq, fpar = asyncio.run(fake_link_orders(smp["lats"]))
        want = [fseq, fpar, fseq, fpar]
        if parts != want or smp["impl_order"] != parts[0]:
            bad.append(dict(case=smp, model=parts, fake_link=want))
    return bad


# ---------------------------------------------------------------- run
def run(ctx):
    import logging
    tier, seed = ctx["tier"], ctx["seed"]
    logging.disable(logging.CRITICAL)      # the decoders log every failed item at WARNING
    try:
        return _run(ctx, tier, seed)
    finally:
        logging.disable(logging.NOTSET)


def _run(ctx, tier, seed):
    drv = Driver(ctx["driver"])
    xc_stream = []                          # every (request, answer) of this run, for the vm_compute cross-check
    drv_batch = drv.batch

    def recording_batch(lines):
        lines = list(lines)
        ans = drv_batch(lines)
        xc_stream.extend(zip(lines, ans))
        return ans
    drv.batch = recording_batch
    cov = Coverage("ble: distinct (fs, body, mode, response script) for which at least one GATT write happened or an error "
                   "was raised; enc: distinct arguments; coap: distinct (request, response) with a non-empty response")
    viols = []
    per_key = {}

    def add_v(key, what, found, **payload):
        per_key[key] = per_key.get(key, 0) + 1
        if per_key[key] <= MAXV:
            viols.append(violation(key, what, found, **payload))

    class case_guard:
        """A harness-side exception while judging ONE case is recorded for that case (with the case as replay) and the run goes on."""

        def __init__(self, stream, case):
            self.stream, self.case = stream, case

        def __enter__(self):
            return self

        def __exit__(self, et, ev, tb):
            if et is not None and issubclass(et, Exception):
                import traceback
                add_v(f"harness-case-exception:{self.stream}", f"{self.stream}: harness raised {et.__name__}: {str(ev)[:120]} while judging a case "
                      f"(the case is the replay; this is an outcome the oracle did not anticipate)", False,
                      case=repr(self.case)[:3000], traceback="".join(traceback.format_exception(et, ev, tb))[-2500:],
                      broken="harness/c17.py bookkeeping for this case")
                return True
            return False

    class HarnessFail:
        def __init__(self, tb):
            self.tb = tb

    async def safe(fn, *a):
        try:
            return await fn(*a)
        except Exception:  # noqa
            import traceback
            return HarnessFail(traceback.format_exc()[-2500:])

    def drop_failed(stream, cases, outs):
        keep = [(c, o) for c, o in zip(cases, outs) if not isinstance(o, HarnessFail)]
        for c, o in zip(cases, outs):
            if isinstance(o, HarnessFail):
                add_v(f"harness-case-exception:{stream}-run", f"{stream}: driving the implementation for one case raised outside the guarded call", False,
                      case=repr(c)[:3000], traceback=o.tb, broken="harness/c17.py implementation runner (or an exception escaping the code under test's setup)")
        return [c for c, _ in keep], [o for _, o in keep]

    # ---- enc (direct)
    enc_cases = gen_enc_direct(tier, rng(seed, "c17enc"))
    model = drv.batch([f"enc {fs} {op} {tid} {iid} {hx(d)}" for fs, op, tid, iid, d in enc_cases])
    for (fs, op, tid, iid, d), m in zip(enc_cases, model):
        with case_guard("enc", (fs, op, tid, iid, len(d))):
            impl = impl_encode_direct(fs, op, tid, iid, d)
            orc = oracle_enc(fs, op, tid, iid, d, impl)
            if orc:
                add_v(orc[0], orc[1], True, stream="enc", case=dict(fs=fs, op=op, tid=tid, iid=iid, data=hx(d)), impl=impl[:2000])
            elif impl != m:
                add_v("enc:model-mismatch", f"encode_pdu(fs={fs}, tid={tid}, iid={iid}, len={len(d)}): implementation {impl[:90]} != model {m[:90]}",
                      False, stream="enc", case=dict(fs=fs, op=op, tid=tid, iid=iid, data=hx(d)), impl=impl, model=m,
                      broken="correspondence Model/Pdu.v ble_encode <-> aiohomekit/pdu.py encode_pdu")
            cov.case(f"e{fs},{op},{tid},{iid},{hx(d)}", True, enc_fs=fs, enc_result=impl.split(" ")[0],
                     sample=dict(stream="enc", fs=fs, tid=tid, iid=iid, len=len(d), impl=impl[:60]) if cov.evaluations % 211 == 5 else None)

    # ---- ble
    ble_cases = gen_ble(tier, rng(seed, "c17ble"))

    async def all_ble():
        return [await safe(impl_ble, c) for c in ble_cases]
    outs = asyncio.run(all_ble())
    ble_cases, outs = drop_failed("ble", ble_cases, outs)
    wr_lines, rd_lines = [], []
    for c, o in zip(ble_cases, outs):
        m = "t" if c["mode"] == "c" else "p"
        wr_lines.append(f"wr {m} {c['c0']} {c['fs']} {c['op']} {o['tid']} {c['iid']} {hx(c['body'])}")
        if o["model_frags"] is None:
            rd_lines.append(None)
        else:
            rd_lines.append(f"rd {m} {c['d0']} {o['tid']} " + " ".join(hx(f) for f in o["model_frags"]))
    wr_model = drv.batch(wr_lines)
    idx_rd = [i for i, l in enumerate(rd_lines) if l is not None]
    rd_ans = drv.batch([rd_lines[i] for i in idx_rd])
    rd_model = dict(zip(idx_rd, rd_ans))
    for i, (c, o) in enumerate(zip(ble_cases, outs)):
        with case_guard("ble", {k: v for k, v in c.items() if k != "body"}):
            wm = wr_model[i]
            if o["read"] in ("crash", "err value") and not o["writes"]:
                impl_w = o["read"]            # raised before the first write
            else:
                impl_w = f"ok {o['wctr']} {frs_str(o['writes'])}"
            desc = dict(stream=c["stream"], fs=c["fs"], body_len=len(c["body"]), body=hx(c["body"]) if len(c["body"]) <= 64 else f"body_of({len(c['body'])},{c['fs']})",
                        op=c["op"], iid=c["iid"], mode=c["mode"], c0=c["c0"], d0=c["d0"], tid=o["tid"],
                        gatt_link=dict(latency_profile=c["link"], latencies=[link_latency(c["link"], k, n, o["budget"], c["fs"] + len(c["body"]))
                                                                             for k, n in enumerate(o["link"]["issued_sizes"][:12])],
                                       arrival_order=o["link"]["order"][:12], max_in_flight=o["link"]["max_in_flight"]),
                        char_properties=c["props"],
                        resp=dict((k, (hx(v) if isinstance(v, (bytes, bytearray)) else v)) for k, v in c["resp"].items()
                                  if k != "body" or len(v) <= 64))
            orc = oracle_ble(c, o)
            for slug, text in orc:
                add_v(slug, text, True, case=desc, impl_writes=[hx(w)[:80] for w in o["writes"][:8]], impl_sizes=o["sizes"][:50],
                      impl_read=o["read"][:200], expected=c.get("expect"))
            if impl_w != wm:
                if not any(s.startswith("ble-write") for s, _ in orc):
                    add_v("ble-write:model-mismatch", f"fs={c['fs']} len={len(c['body'])} mode={c['mode']}: writes {impl_w[:100]} != model {wm[:100]}",
                          False, case=desc, impl=impl_w[:2000], model=wm[:2000],
                          broken="correspondence Model/Pdu.v ble_write <-> ble/client.py _write_pdu + pdu.py encode_pdu")
            if i in rd_model:
                rm = rd_model[i]
                if o["read"] != rm and not any(s.startswith("ble-read") for s, _ in orc):
                    add_v("ble-read:model-mismatch", f"response script {desc['resp']}: read loop gives {o['read'][:100]} != model {rm[:100]}",
                          False, case=desc, impl=o["read"][:2000], model=rm[:2000],
                          broken="correspondence Model/Pdu.v read_pdu <-> ble/client.py _read_pdu + pdu.py decode_pdu*")
            faults = ",".join(f[0] for f in c["resp"].get("faults", [])) or ("declared" if "declared" in c["resp"] else ("nolen" if c["resp"].get("nolen") else "none"))
            cov.case(f"b{c['fs']},{c['mode']},{c['op']},{c['iid']},{hx(c['body'])},{c['resp']!r},{c['c0']},{c['d0']}",
                     bool(o["writes"]) or not o["read"].startswith("ok"),
                     sample=dict(stream="ble:" + c["stream"], fs=c["fs"], body_len=len(c["body"]), mode=c["mode"], n_writes=len(o["writes"]),
                                 resp_cut=c["resp"]["lens"][:8], faults=faults, impl_read=o["read"][:60]) if i % 9001 == 17 else None,
                     ble_stream=c["stream"], ble_mode=c["mode"], ble_fs=c["fs"] if c["fs"] in REAL_FS else ("8..64" if 8 <= c["fs"] <= 64 else "other"),
                     ble_nfrags=min(len(o["writes"]), 12) if len(o["writes"]) < 12 else "12+", ble_read=" ".join(o["read"].split(" ")[:2]) if not o["read"].startswith("ok") else "ok",
                     ble_fault=faults, ble_resp_frags=len(c["resp"]["lens"]),
                     ble_link=c["link"], ble_char_props="+".join(c["props"]), ble_max_in_flight=o["link"]["max_in_flight"],
                     ble_response_flag=",".join(sorted({str(f) for f in o["link"]["response_flags"]})) or "none",
                     ble_link_x_wwr_x_multi=f"{c['link']}/{'wwr' if 'write-without-response' in c['props'] else 'ack'}/{c['mode']}/"
                                            f"{'multi' if len(o['writes']) > 1 else 'single'}")

    link_smp = link_sample(ble_cases, outs, 4 if tier == "quick" else 12)

    # ---- ble histories on one real client object
    hist_cases = gen_ble_hist(tier, rng(seed, "c17hist"))

    async def all_hist():
        return [await safe(impl_ble_hist, c, i) for i, c in enumerate(hist_cases)]
    houts = asyncio.run(all_hist())
    hist_cases, houts = drop_failed("ble-session", hist_cases, houts)
    # pass 0: the model's fragment sizes; pass 1: per-step writes (swr) and whole fault-free segments (loop);
    # pass 2: the faulty last step, read with the counters the model's loop ended with
    fkeys = sorted({(mtu, c["mwwr"] or 0, ov) for c, (mtu, _) in zip(hist_cases, houts) for ov in (0, 16)})
    fsz = dict(zip(fkeys, [int(x) for x in drv.batch([f"fsz {a} {b} {ov}" for a, b, ov in fkeys])]))
    hl, loops = [], []
    for ci, (c, (mtu, outs_)) in enumerate(zip(hist_cases, houts)):
        for o in outs_:
            hl.append(f"swr {'t' if o['enc'] else 'p'} {o['c0']} {mtu} {c['mwwr'] or 0} {o['op']} {o['tid']} {o['iid']} {hx(o['body'])}")
        for seg in hist_segments(outs_):
            o0 = outs_[seg[0]]
            fs = fsz[(mtu, c["mwwr"] or 0, 16 if o0["enc"] else 0)]
            loops.append((ci, seg, f"loop {'t' if o0['enc'] else 'p'} {o0['c0']} {o0['d0']} " +
                          " ".join(f"{fs}:{outs_[p]['op']}:{outs_[p]['tid']}:{outs_[p]['iid']}:{hx(outs_[p]['body'])}" for p in seg)))
    hm = drv.batch(hl)
    lm = drv.batch([l for _, _, l in loops])
    loop_by_case = {}
    for (ci, seg, _l), ans in zip(loops, lm):
        loop_by_case.setdefault(ci, []).append((seg, ans))
    rd2, rd2_idx = [], []
    for ci, (c, (mtu, outs_)) in enumerate(zip(hist_cases, houts)):
        o = outs_[-1]
        if o["fault"] and o["resp_frs"] is not None:
            frs = [toy(o["d0"] + j, f) if o["enc"] else f for j, f in enumerate(o["resp_frs"])]
            rd2.append(f"rd {'t' if o['enc'] else 'p'} {o['d0']} {o['tid']} " + " ".join(hx(f) for f in frs))
            rd2_idx.append(ci)
    rd2m = dict(zip(rd2_idx, drv.batch(rd2)))
    hoff, _acc = [], 0
    for _c, (_m, _o) in zip(hist_cases, houts):
        hoff.append(_acc)
        _acc += len(_o)
    for ci, (c, (mtu, outs_)) in enumerate(zip(hist_cases, houts)):
        with case_guard("ble-session", c):
            hist_txt = [("c%d" % ch) + ("E" if e else "P") + str(ln) for ch, e, ln in c["steps"]]
            any_orc = False
            for pos, o in enumerate(outs_):
                j = hoff[ci] + pos + 1
                m = hm[j - 1]
                desc = dict(stream=c["stream"], mtu=mtu, max_write_without_response=c["mwwr"], failing_step=pos, fault_on_last_step=c["fault"],
                            session_start_counters=(c["k0"], c["k0"] + 5), tid=o["tid"],
                            gatt_link=dict(latency_profile=c["link"], arrival_order=o["link"]["order"][:12], max_in_flight=o["link"]["max_in_flight"]),
                            char_properties=o["props"],
                            history=[dict(char=ch, session="encrypted" if e else "plain", body_len=ln) for ch, e, ln in c["steps"][:pos + 1]],
                            accessory="reference reassembler + ref.demo_answer (status (op+iid+tid)%7, body reversed, iid%5 + (1+tid%7)-byte pieces)")
                orc = oracle_ble_hist(c, mtu, o)
                any_orc = any_orc or bool(orc)
                for slug, text in orc:
                    add_v(slug, f"step {pos} of history {hist_txt[:pos + 1]}: " + text,
                          True, case=desc, impl_sizes=o["sizes"][:40], impl_read=o["read"][:100])
                impl_w = o["impl_w"] if not (o["plains"] == [] and o["read"] in ("crash", "err value")) else o["read"]
                if impl_w != m and not orc:
                    add_v("ble-session:model-mismatch", f"step {pos} of history {hist_txt[:pos + 1]} (mtu {mtu}): writes {impl_w[:100]} != model {m[:100]}",
                          False, case=desc, impl=impl_w[:2000], model=m[:2000],
                          broken="correspondence Model/Pdu.v ble_session_write/det_fs <-> ble/bleak.py determine_fragment_size + ble/client.py _write_pdu")
                prev_plain_same_char = any((not e) and ch == o["ch"] for ch, e, _ in c["steps"][:pos])
                cov.case(f"h{ci},{pos}", True,
                         sample=dict(stream="ble:" + c["stream"], mtu=mtu, mwwr=c["mwwr"], history=hist_txt, step=pos, sizes=o["sizes"][:6],
                                     read=o["read"][:40], fault=o["fault"]) if j % 1201 == 11 else None,
                         hist_len=len(c["steps"]), hist_mtu=mtu, hist_mwwr=c["mwwr"], hist_step_session="enc" if o["enc"] else "plain",
                         hist_enc_after_plain_same_char=bool(o["enc"] and prev_plain_same_char), hist_fault=o["fault"] or "none",
                         hist_resp_frags=min(len(o["resp_frs"] or []), 20) if len(o["resp_frs"] or []) < 20 else "20+",
                         hist_read=o["read"] if not o["read"].startswith("ok") else "ok", hist_k0=c["k0"],
                         hist_link_x_wwr_x_multi=f"{c['link']}/{'wwr' if 'write-without-response' in o['props'] else 'ack'}/"
                                                 f"{'enc' if o['enc'] else 'plain'}/{'multi' if len(o['sizes']) > 1 else 'single'}",
                         hist_max_in_flight=o["link"]["max_in_flight"])
            # the closed-loop model (ble_loop with demo_responder) against whole fault-free segments of the real session
            for seg, ans in loop_by_case.get(ci, []):
                last = outs_[seg[-1]]
                impl = f"ok {last['e1']} {last['d1']} {last['e1']} {last['d1']} " + " ".join(
                    (f"{outs_[p]['read'][3:].replace(' ', ':')}" if outs_[p]["read"].startswith("ok ") else "!" + outs_[p]["read"]) for p in seg)
                if impl != ans and not any_orc:
                    add_v("ble-session:loop-model-mismatch", f"history {hist_txt} steps {seg}: session outcomes/counters {impl[:120]} != model ble_loop {ans[:120]}",
                          False, case=dict(stream=c["stream"], mtu=mtu, mwwr=c["mwwr"], history=hist_txt, steps=seg), impl=impl[:2000], model=ans[:2000],
                          broken="correspondence Model/Pdu.v ble_loop <-> repeated ble_request on one client with persistent keys")
            if ci in rd2m and not any_orc and outs_[-1]["read"] != rd2m[ci]:
                add_v("ble-session:fault-model-mismatch", f"history {hist_txt} fault {c['fault']}: {outs_[-1]['read'][:80]} != model {rd2m[ci][:80]}", False,
                      case=dict(stream=c["stream"], history=hist_txt, fault=c["fault"]), impl=outs_[-1]["read"][:500], model=rd2m[ci][:500],
                      broken="correspondence Model/Pdu.v read_pdu <-> ble/client.py _read_pdu on a live session")

    # ---- coap
    coap_cases = gen_coap(tier, rng(seed, "c17coap"))

    async def all_coap():
        return [await safe(impl_coap, c) for c in coap_cases]
    couts = asyncio.run(all_coap())
    coap_cases, couts = drop_failed("coap", coap_cases, couts)
    enc_lines = [f"cenc {c['op']} {','.join(str(i) for i in c['iids']) or '.'} {','.join(hx(d) for d in c['datas']) or '.'}" for c in coap_cases]
    dec_lines = [f"cdec 0 {hx(coap_response_bytes(c))}" for c in coap_cases]
    enc_model = drv.batch(enc_lines)
    dec_model = drv.batch(dec_lines)
    exit_lines, exit_idx = [], []
    for i, (c, dm) in enumerate(zip(coap_cases, dec_model)):
        if dm.startswith("ok") and couts[i]["exits"]:
            rs = dm[3:]
            exit_lines.append(f"cexit all {len(c['iids'])} {rs}")
            exit_lines.append(f"cexit err {len(c['iids'])} {rs}")
            exit_idx.append(i)
    exit_ans = drv.batch(exit_lines)
    exit_model = {i: (exit_ans[2 * j], exit_ans[2 * j + 1]) for j, i in enumerate(exit_idx)}
    for i, (c, o) in enumerate(zip(coap_cases, couts)):
        with case_guard("coap", {k: v for k, v in c.items() if k != "datas"}):
            desc = dict(stream=c["stream"], n=c["n"], vec=c["vec"], iids=c["iids"][:8], aid=c["aid"], op=c["op"],
                        datas=[hx(d)[:40] for d in c["datas"][:8]], items=[(a, b, s, hx(d)[:40]) for a, b, s, d in c["items"][:8]],
                        mal=c["mal"], response=hx(coap_response_bytes(c))[:400])
            orc = (oracle_coap(c, o) if c["stream"] == "outcomes" else
                   oracle_coap_badstatus(c, o) if c["mal"] and c["mal"][0] == "badstatus" else oracle_coap_request(c, o))
            for slug, text in orc:
                add_v(slug, text, True, case=desc, impl_results=o["results"][:400], impl_exits=o["exits"], impl_request=(o["request"] or "")[:200])
            em = enc_model[i]
            impl_req = ("ok " + o["request"]) if o["request"] is not None else o["results"]
            if impl_req != em and not any(s.startswith("coap-request") for s, _ in orc):
                add_v("coap-encode:model-mismatch", f"encode_all_pdus n={c['n']}: {impl_req[:100]} != model {em[:100]}", False, case=desc,
                      impl=impl_req[:1000], model=em[:1000], broken="correspondence Model/Pdu.v coap_encode_all <-> coap/pdu.py encode_all_pdus")
            dm = dec_model[i]
            if o["request"] is not None and o["results"] != dm and not any(s.startswith("coap-decode") for s, _ in orc):
                add_v("coap-decode:model-mismatch", f"decode_all_pdus on {desc['response'][:80]}: {o['results'][:100]} != model {dm[:100]}", False,
                      case=desc, impl=o["results"][:1000], model=dm[:1000],
                      broken="correspondence Model/Pdu.v coap_decode_all <-> coap/pdu.py decode_all_pdus")
            if i in exit_model and o["results"] == dm:
                m_all, m_err = exit_model[i]
                for name, got in o["exits"].items():
                    if name == "read" and not all(body_decodable(unhx(t[2:])) for t in dm.split(" ")[1:] if t.startswith("b:")):
                        continue
                    mm = model_exit_canon(m_all if name == "read" else m_err, c, name == "read")
                    if got != mm and not any(s.startswith("coap-exit:" + name) for s, _ in orc):
                        add_v(f"coap-exit:{name}:model-mismatch", f"{name} exit on ids {c['iids'][:6]}: {got[:100]} != model {mm[:100]}", False,
                              case=desc, impl=got[:1000], model=mm[:1000],
                              broken="correspondence Model/Pdu.v zip_results <-> coap/connection.py *_exit loops")
            cov.case(f"c{c['op']},{c['iids']},{[hx(d) for d in c['datas']]},{hx(coap_response_bytes(c))}", len(coap_response_bytes(c)) > 0,
                     sample=dict(stream="coap:" + c["stream"], n=c["n"], outcome_vector=c["vec"][:6], impl_results=o["results"][:80]) if i % 3001 == 0 else None,
                     coap_stream=c["stream"], coap_n=min(c["n"], 7), coap_result=" ".join(o["results"].split(" ")[:2]) if not o["results"].startswith("ok") else "ok",
                     coap_mal=c["mal"][0] if c["mal"] else "none")
            if c["stream"] == "outcomes":
                for k in c["vec"]:
                    cov.hist["coap_item_kind"][k] += 1

    # ---- coap, repeated ids against a reactive accessory
    dup_cases = gen_coap_dup(tier, rng(seed, "c17dup"))

    async def all_dup():
        return [await safe(impl_coap_dup, c) for c in dup_cases]
    douts = asyncio.run(all_dup())
    dup_cases, douts = drop_failed("coap-ids", dup_cases, douts)
    names = ("read", "sub", "unsub", "write")
    l_enc, l_dec = [], []
    for c, o in zip(dup_cases, douts):
        for nm in names:
            want = dup_wire_expected(c, nm)
            if nm == "write":
                unk = {tuple(k) for k in c.get("unknown", [])}
                flags = ",".join("0" if tuple(k) in unk else "1" for k in c["ids"])
                l_enc.append(f"cwr {PATH_OPS[nm]} {flags} {','.join(str(w[2]) for w in want)} {','.join(hx(w[3]) for w in want)}")
            else:
                l_enc.append(f"cenc {PATH_OPS[nm]} {','.join(str(w[2]) for w in want)} {','.join(hx(w[3]) for w in want)}")
            l_dec.append(f"cdec 0 {o[nm]['resp'][0] if o[nm]['resp'] else '-'}")
    m_enc, m_dec = drv.batch(l_enc), drv.batch(l_dec)
    l_exit = [f"cexit {'all' if nm == 'read' else 'err'} {len(c['ids'])} {m_dec[4 * ci + ni][3:]}" if m_dec[4 * ci + ni].startswith("ok") else "bad"
              for ci, c in enumerate(dup_cases) for ni, nm in enumerate(names)]
    m_exit = drv.batch(l_exit)
    l_crd = [(f"crd {','.join(str(i) for i in c['known_read']) or '.'} {','.join(f'{a}:{i}' for a, i in c['ids'])} {m_dec[4 * ci][3:]}"
              if m_dec[4 * ci].startswith("ok") else "bad") for ci, c in enumerate(dup_cases)]
    m_crd = drv.batch(l_crd)

    def crd_canon(ans):
        """model entries (ordered, dec = identity) -> dict last-wins with the Value TLV taken out by the reference; cache writes."""
        if not ans.startswith("ok"):
            return ans, None
        ent, _, wr = ans[3:].partition(" | ")
        d = {}
        for tok in ent.split(" "):
            if tok == ".":
                continue
            k, rr = tok.split("=")
            kind, _, h = rr.partition(":")
            d[tuple(int(x) for x in k.split("."))] = rr if kind == "s" else (("v" if kind == "r" else kind) + ":" + hx(tlv_value(unhx(h)) or b""))
        cache = [f"{t.split(':')[0]}:{hx(tlv_value(unhx(t.split(':')[1])) or b'')}" for t in wr.split(" ") if t != "."]
        return "ok " + (" ".join(f"{k[0]}.{k[1]}={v}" for k, v in sorted(d.items())) if d else "."), cache
    for ci, (c, o) in enumerate(zip(dup_cases, douts)):
        with case_guard("coap-ids", c):
            desc = dict(stream=c["stream"], ids=c["ids"], per_position_outcomes=c["vec"], unknown_to_controller=c.get("unknown", []),
                        read_path_known_iids=c["known_read"],
                        accessory="answers wire position j with value a0+j|iid (okN), empty (ok0), status 1+j%6 (err), tid+1 (wtid), control 0 (wctl)")
            orc = oracle_coap_dup(c, o)
            for slug, text in orc:
                add_v(slug, text, True, case=desc, impl={k: v for k, v in o.items()})
            for ni, nm in enumerate(names):
                j = 4 * ci + ni
                wire = ("ok " + o[nm]["wire"][0]) if len(o[nm]["wire"]) == 1 else f"{len(o[nm]['wire'])} requests"
                if not o[nm]["wire"] and o[nm]["result"] == "crash":
                    wire = "crash"
                if wire != m_enc[j] and not any(sl in (f"coap-ids:{nm}-wire", "coap-read:one-shot-iterable") for sl, _ in orc):
                    add_v(f"coap-ids:{nm}-wire:model-mismatch", f"{nm} of ids {c['ids']}: sent {wire[:100]} != model {m_enc[j][:100]}", False,
                          case=desc, impl=wire[:1000], model=m_enc[j][:1000],
                          broken="correspondence Model/Pdu.v coap_encode_all <-> coap/connection.py request construction")
                mm = model_pairs_canon(m_exit[j], c["ids"]) if m_dec[j].startswith("ok") else m_dec[j]
                if nm == "read" and m_dec[j].startswith("ok"):
                    mm, mcache = crd_canon(m_crd[ci])
                    if mcache is not None and o[nm]["result"].startswith("ok") and o[nm]["cache"] != mcache and not orc:
                        add_v("coap-ids:read-cache:model-mismatch", f"read of ids {c['ids']}: cache writes {o[nm]['cache'][:6]} != model {mcache[:6]}", False,
                              case=desc, impl=o[nm]["cache"], model=mcache,
                              broken="correspondence Model/Pdu.v coap_read_exit <-> coap/connection.py _read_characteristics_exit")
                if o[nm]["result"] != mm and not any(sl.startswith(f"coap-ids:{nm}") or sl == "coap-read:one-shot-iterable" for sl, _ in orc):
                    add_v(f"coap-ids:{nm}:model-mismatch", f"{nm} of ids {c['ids']}: {o[nm]['result'][:100]} != model {mm[:100]}", False,
                          case=desc, impl=o[nm]["result"][:1000], model=mm[:1000],
                          broken="correspondence Model/Pdu.v coap_decode_all + zip_results <-> coap/connection.py")
            nrep = len(c["ids"]) - len(set(map(tuple, c["ids"])))
            iid_rep = len(c["ids"]) - len({k[1] for k in c["ids"]})
            cov.case(f"u{c['ids']},{c['vec']},{c.get('unknown')}", True,
                     sample=dict(stream="coap:" + c["stream"], ids=c["ids"], outcomes=c["vec"], read=o["read"]["result"][:80]) if ci % 1501 == 7 else None,
                     dup_read_known=["all", "none", "first", "rest", "fixed"][ci % 5], dup_cache_writes=min(len(o["read"].get("cache", [])), 6),
                     dup_stream=c["stream"], dup_unknown_keys=len(c.get("unknown", [])), dup_write=o["write"]["result"].split(" ")[0],
                     dup_n=len(c["ids"]), dup_repeated_keys=min(nrep, 4), dup_repeated_iids=min(iid_rep, 4),
                     dup_repeat_followed=any(c["ids"][i][1] in [k[1] for k in c["ids"][:i]] and i + 1 < len(c["ids"]) for i in range(len(c["ids"]))))

    # ---- coap: overlapping calls on one connection
    ov_cases = gen_coap_overlap(tier, rng(seed, "c17ov"))

    async def all_ov():
        return [await safe(impl_coap_overlap, c) for c in ov_cases]
    ovouts = asyncio.run(all_ov())
    ov_cases, ovouts = drop_failed("coap-overlap", ov_cases, ovouts)
    ov_dec = drv.batch([f"cdec 0 {(list(o.values())[0]['resp'] or ['-'])[0]}" for outs_ in ovouts for o in outs_])
    ov_exit_lines, k = [], 0
    for c, outs_ in zip(ov_cases, ovouts):
        for call, o in zip(c["calls"], outs_):
            ov_exit_lines.append(f"cexit {'all' if call['path'] == 'read' else 'err'} {len(call['ids'])} {ov_dec[k][3:]}" if ov_dec[k].startswith("ok") else "bad")
            k += 1
    ov_exit = drv.batch(ov_exit_lines)
    ooff, _acc = [], 0
    for _o in ovouts:
        ooff.append(_acc)
        _acc += len(_o)
    for oi, (c, outs_) in enumerate(zip(ov_cases, ovouts)):
        with case_guard("coap-overlap", c):
            sched = " ".join(f"{e}{i}" for e, i in c["schedule"])
            desc = dict(stream=c["stream"], schedule=sched,
                        calls=[dict(path=x["path"], ids=x["ids"], per_position_outcomes=x["vec"], caller_mutates_its_list_before_response=x.get("mutate")) for x in c["calls"]],
                        note="S_i starts call i (runs until its post_bytes is in flight), R_i delivers call i's own response")
            for ci, (call, o) in enumerate(zip(c["calls"], outs_)):
                k = ooff[oi] + ci
                orc = oracle_coap_dup(dict(ids=call["ids"], vec=call["vec"], posbase=call["posbase"], known_read=[]), o)
                for slug, text in orc:
                    if call.get("mutate"):
                        slug = f"coap-overlap:{call['path']}-argument-mutated-in-flight"
                        text = f"caller does '{call['mutate']}' on the list it passed while the exchange is in flight; " + text
                    add_v(slug.replace("coap-ids:", "coap-overlap:"), f"call {ci} of overlapping calls [{sched}]: " + text, True, case=desc,
                          impl=[list(x.values())[0]["result"][:300] for x in outs_])
                res = list(o.values())[0]["result"]
                mm = model_pairs_canon(ov_exit[k], call["ids"]) if ov_dec[k].startswith("ok") else ov_dec[k]
                if res != mm and not orc:
                    add_v("coap-overlap:model-mismatch", f"call {ci} ({call['path']} of {call['ids']}) in [{sched}]: {res[:100]} != per-call model {mm[:100]}",
                          False, case=desc, impl=res[:1000], model=mm[:1000],
                          broken="correspondence: per-call model (coap_decode_all + zip_results on the call's own ids and response) <-> overlapping calls")
            cov.case(f"o{oi}", True,
                     sample=dict(stream="coap:" + c["stream"], schedule=sched, calls=[(x["path"], x["ids"]) for x in c["calls"]],
                                 results=[list(x.values())[0]["result"][:60] for x in outs_]) if oi % 211 == 3 else None,
                     ov_mutation="+".join(x.get("mutate") or "-" for x in c["calls"]), ov_stream=c["stream"],
                     ov_calls=len(c["calls"]), ov_paths="+".join(x["path"] for x in c["calls"]),
                     ov_overlap="nested" if c["schedule"][1][0] == "S" else "sequential-start")

    # ---- extraction cross-check: a sample of the requests above, re-evaluated with vm_compute inside Coq
    if not ctx.get("replay"):
        xs = xc_sample(xc_stream)
        xs += xc_derived(drv_batch, xs)
        n_xc, bad_xc = vm_crosscheck(ctx, xs)
        kinds = {}
        for l, _ in xs:
            kinds[l.split(" ", 1)[0]] = kinds.get(l.split(" ", 1)[0], 0) + 1
        cov.extra["vm_compute_crosscheck"] = dict(requests=n_xc, disagreements=len(bad_xc), by_kind=kinds)
        if bad_xc:
            viols.append(violation("extraction-vs-vm_compute", f"{len(bad_xc)} of {n_xc} sampled requests: extracted driver and "
                                   f"vm_compute disagree, first on '{bad_xc[0]['request'][:80]}'", False, disagreements=bad_xc[:5],
                                   broken="extraction / ocaml/drv_c17.ml glue (or the cross-check's rendering)"))
        bad_lk = link_model_tie(ctx, link_smp)
        profs = {}
        for x in link_smp:
            profs[x["profile"]] = profs.get(x["profile"], 0) + 1
        cov.extra["gatt_link_model_tie"] = dict(requests=len(link_smp), disagreements=len(bad_lk), by_latency_profile=profs,
                                                reordered_when_concurrent=sum(1 for x in link_smp if sorted(x["lats"]) != x["lats"]))
        if bad_lk:
            viols.append(violation("gatt-link:model-vs-fake-link", f"{len(bad_lk)} of {len(link_smp)} sampled multi-fragment requests: Model/PduLink.v "
                                   f"(issue_seq / issue_par / link_seq evaluated in Coq), the harness's fake GATT link and the order in which _write_pdu's "
                                   f"fragments arrived disagree", False, disagreements=bad_lk[:5],
                                   broken="Model/PduLink.v <-> harness LinkLog (the simulated GATT characteristic), or _write_pdu's write discipline"))
    del xc_stream[:]

    cov.extra["exhaustive"] = True
    cov.extra["exhaustive_part"] = (
        "ble request: every fragment size 8..64 x every body length 0..200, each plain and under ChaCha20-Poly1305 keys "
        "(body content is a fixed pattern: the code is content independent); ble response: every composition of bodies of "
        f"length 0..{9 if tier == 'quick' else 13} into fragments, every <=3-piece cut up to {24 if tier == 'quick' else 40} bytes, every position x 3 deltas of a "
        "wrong tid and every position of a missing flag in every fragmentation of 4- and 6-byte bodies, all 256 continuation "
        "control bytes; ble histories: every history of 1..2 (thorough: 1..3; quick: every 4th 3-step one) requests over "
        "{2 characteristics} x {plain, secure session} x {0, 80, 300}-byte bodies on ONE real AIOHomeKitBleakClient object (its own "
        "determine_fragment_size, persistent session keys, responses fragmented by the demo accessory), MTUs 100..515; "
        "coap overlap: 2 concurrent read/write/subscribe/unsubscribe calls on one connection, all 16 path pairs x 4 id-list pairs x all 6 "
        "interleavings of starts and response deliveries; 3 concurrent calls x 6 path triples x 90 interleavings (quick: every third); "
        "coap ids: every id vector over {(1,52),(1,53),(2,52)} for n = 1..4 x every {okN,err} outcome vector "
        "(+2 mixed) through read/write/subscribe/unsubscribe against an accessory that answers per wire position; "
        f"coap: every outcome vector over {{ok0, okN, err, errB, wrong-tid, wrong-control}} for n = 1..{5 if tier == 'quick' else 6}"
        + (" and every third vector over 5 kinds for n = 6; the encrypted half of the fs x len grid on every third cell" if tier == "quick" else ""))
    cov.extra["domain"] = ("oracle claims: BLE requests with fs >= 8, body <= 65535 bytes, iid <= 65535; responses whose first fragment "
                           "carries the 5-byte header and whose status byte is 0..6; CoAP items with status 0..6 (an undefined status "
                           "byte makes PDUStatus() raise ValueError for the whole batch: compared with the model only, not claimed)")
    cov.extra["duplicate_id_semantics"] = ("a result dict holds one entry per (aid, iid): for a repeated key the read result is compared with the "
                                           "outcome of the key's LAST position, the error-only results (write/subscribe/unsubscribe) with the status "
                                           "of its last FAILED position; the wire must carry every requested position (count and order)")
    cov.extra["violation_counts"] = dict(per_key)
    cov.extra["trusted_base_extra"] = ["harness/ref/hap_pdu.py (spec accessory, response fragmenter, CoAP batch renderer) and "
                                       "cryptography's ChaCha20Poly1305 as the accessory-side AEAD"]
    return dict(coverage=cov.to_dict(), violations=viols)
