"""C11 correspondence: accessory-side open-connection set of the real SecureHomeKitConnection vs Model/Reconnect.v."""
from common import rng
import c10core as core


def gens(tier, seed):
    r = rng(seed, "c11")
    depth = 2 if tier == "quick" else 3
    scs = core.gen_exhaustive(depth, [1, 2])
    scs += core.gen_postverify()
    scs += core.gen_shutdown_overlap()
    scs += core.gen_same_tick_pairs()
    scs += core.gen_inflight(full=(tier != "quick"))
    scs += core.gen_scripted_loss()
    scs += core.gen_badreply()
    scs += core.gen_listeners()
    scs += core.gen_rstlate()
    scs += core.gen_pollers()
    scs += core.gen_stale_loss(r, 600 if tier == "quick" else 8000)
    scs += core.gen_random(r, 1200 if tier == "quick" else 25000)
    return scs


def run(ctx):
    return core.run_core(ctx, "C11", core.oracle_c11, gens, "correspondence Model/Reconnect.v <-> controller/ip/connection.py (open set)")
