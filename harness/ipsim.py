"""Build a real IpPairing / SecureHomeKitConnection wired to vloop.Net + simacc.SimEndpoint."""
from __future__ import annotations


class FakeCharCache:
    def get_map(self, pid):
        return None

    def async_create_or_update_map(self, *a, **k):
        pass

    def async_delete_map(self, *a, **k):
        pass


class FakeController:
    def __init__(self):
        self._char_cache = FakeCharCache()
        self.pairings = {}
        self.aliases = {}


class FakeDescription:
    """Stands for the zeroconf HomeKitService of the pairing (only what the connection reads)."""

    def __init__(self, addresses, port=5001, name="sim", config_num=1, state_num=1):
        self.addresses = list(addresses)
        self.address = self.addresses[0]
        self.port = port
        self.name = name
        self.config_num = config_num
        self.state_num = state_num
        self.id = "00:00:00:00:00:01"


def pairing_data(hosts, port=5001):
    return {
        "AccessoryPairingID": "00:00:00:00:00:01",
        "AccessoryLTPK": "00" * 32,
        "iOSPairingId": "11111111-2222-3333-4444-555555555555",
        "iOSDeviceLTSK": "00" * 32,
        "iOSDeviceLTPK": "00" * 32,
        "AccessoryIP": hosts[0],
        "AccessoryIPs": list(hosts),
        "AccessoryPort": port,
        "Connection": "IP",
    }


def make_pairing(hosts, port=5001):
    """Must be called with a running loop (HomeKitConnection grabs it)."""
    from aiohomekit.controller.ip.pairing import IpPairing
    p = IpPairing(FakeController(), pairing_data(hosts, port))
    return p
