"""C04 correspondence: error / out-of-sequence replies never complete as success.

Implementation side: the REAL generators perform_pair_setup_part1/part2 and
get_session_keys driven with .send(), behind the REAL decoding glue
  F  HomeKitConnection.post_tlv (IP; same expression as the CoAP glue): TLV.decode_bytes(body, expected=...)
  U  ble.client.drive_pairing_state_machine -> _pairing_char_write (BLE; unfiltered dict)
  L  the item list handed to the generator directly (for item lists the wire cannot carry)
and the REAL IpPairing / BlePairing add_pairing / remove_pairing methods on a scripted connection.
Cryptography is replaced from here by monkey-patching names in aiohomekit.protocol
(SrpClient, ChaCha20Poly1305Decryptor, ed25519.Ed25519PublicKey): each check answers what the
cell's oracle record says.  A small stream runs pair-verify with REAL cryptography against an
independent accessory built on `cryptography` primitives to validate the oracle abstraction.

Model side: Model/Steps.v extracted (step_wire / step_items / mgmt_wire / mgmt_items).
Oracle (independent of the model): a cell whose reply carries an Error item, or a State item
other than the step's, must end in a library exception of the documented class.
"""
from __future__ import annotations

import asyncio
import collections
import itertools
import json

from common import Coverage, Driver, hx, rng, unhx, violation
from ref.tlv8 import ref_decode, ref_encode

T_METHOD, T_ID, T_SALT, T_PK, T_PROOF, T_ENC, T_STATE, T_ERROR, T_RETRY, T_SIG, T_PERM, T_SESSION = \
    0, 1, 2, 3, 4, 5, 6, 7, 8, 10, 11, 14

STEPS = ["S2", "S4", "S6", "V2", "V4"]
EXP_STATE = {"S2": 2, "S4": 4, "S6": 6, "V2": 2, "V4": 4}
STEP_NAME = {"S2": "pair-setup M2", "S4": "pair-setup M4", "S6": "pair-setup M6", "V2": "pair-verify M2", "V4": "pair-verify M4"}
# the field types each step's reply may carry (HAP R2 5.6/5.7): State, Error and the step's own fields.
# This is the specification's vocabulary, written down independently of the code's stepN_expectations.
REF_VOCAB = {"S2": {6, 7, 3, 2}, "S4": {6, 7, 4, 5}, "S6": {6, 7, 5}, "V2": {6, 7, 3, 5}, "V4": {6, 7}}
# HAP R2 table 5-5 as the property documents it
REF_CLASS = {b"\x02": "Authentication", b"\x03": "Backoff", b"\x04": "MaxPeers", b"\x05": "MaxTries",
             b"\x06": "Unavailable", b"\x07": "Busy"}
LIB_CLASSES = {
    "AuthenticationError": "Authentication", "BackoffError": "Backoff", "MaxPeersError": "MaxPeers",
    "MaxTriesError": "MaxTries", "UnavailableError": "Unavailable", "BusyError": "Busy",
    "InvalidError": "Invalid", "UnknownError": "Unknown", "IllegalData": "IllegalData",
    "InvalidAuthTagError": "InvalidAuthTag", "IncorrectPairingIdError": "IncorrectPairingId",
    "InvalidSignatureError": "InvalidSignature",
}

ERR_CODES = [None, b"\x00", b"\x01", b"\x02", b"\x03", b"\x04", b"\x05", b"\x06", b"\x07", b"\x08", b"\xff",
             b"\x02\x00", b""]
PAIRING_ID = b"AA:BB:CC"
LTPK = bytes(range(1, 33))
X_SK = bytes([0x51] * 32)          # accessory's ephemeral X25519 secret in the fake-crypto streams
GOOD_SUB = [(T_ID, PAIRING_ID), (T_SIG, b"\x5a" * 64)]
GOOD_SUB6 = [(T_ID, PAIRING_ID), (T_PK, LTPK), (T_SIG, b"\x5a" * 64)]


COAP_CODES = ["CONTENT", "BAD_REQUEST", "UNAUTHORIZED", "NOT_FOUND", "INTERNAL_SERVER_ERROR"]   # besides 2.04 Changed
OWN_ID, OTHER_ID = "ctl-1", "ctl-2"     # the controller's own iOSPairingId and another controller's
PDU_FRAGS = [512, 23, 64, 9, 158]      # GATT read sizes the scripted accessory cuts its response PDUs at


def ble_wrap(payload, shape="value"):
    """HAP-BLE response body: the reply as the Value (1) parameter"""
    if shape == "value+extra":
        return ref_encode([(9, b"\x01"), (1, payload)])
    if shape == "no-value":
        return ref_encode([(9, b"\x01")])
    return ref_encode([(1, payload)])


def ble_pdus(tid, status, body, frag, short=False):
    """response PDUs: control, tid, status, [len16, body...] then continuation PDUs (control|0x80, tid, body...)"""
    if short and not body:
        return [bytes([2, tid, status])]
    n1 = max(frag - 5, 1)
    out = [bytes([2, tid, status]) + len(body).to_bytes(2, "little") + body[:n1]]
    rest, n = body[n1:], max(frag - 2, 1)
    out += [bytes([0x82, tid]) + rest[i:i + n] for i in range(0, len(rest), n)]
    return out


def err_name(c):
    return "none" if c is None else ("empty" if c == b"" else c.hex())


def states_for(step):
    e = EXP_STATE[step]
    out = [None, bytes([e])] + [bytes([w]) for w in range(8) if w != e] + [bytes([e, 0]), b""]
    return out


def default_oracles():
    return dict(srp=True, m6plain=None, m6sig=True, derive=False, rplain=None, v2plain=None, v2sig=True, pid=PAIRING_ID)


# ---------------------------------------------------------------- cells
def field_variants(step, x_pub):
    """(name, items, oracle overrides): the step's own fields, present/absent, valid/invalid contents."""
    out = []
    if step == "S2":
        pks = [("pk-", []), ("pk384", [(T_PK, bytes((i * 7) & 0xFF for i in range(384)))]), ("pk1", [(T_PK, b"\x09")])]
        salts = [("salt-", []), ("salt16", [(T_SALT, bytes(range(16)))])]
        for (a, x), (b, y) in itertools.product(pks, salts):
            out.append((a + "," + b, x + y, {}))
    elif step == "S4":
        for (a, x, o) in [("proof-", [], {}), ("proof-ok", [(T_PROOF, b"\x44" * 64)], {"srp": True}),
                          ("proof-bad", [(T_PROOF, b"\x45" * 64)], {"srp": False})]:
            for (b, y) in [("enc-", []), ("enc", [(T_ENC, b"\x66" * 40)])]:
                out.append((a + "," + b, x + y, o))
    elif step == "S6":
        enc = [(T_ENC, b"\x77" * 154)]
        out.append(("enc-", [], {}))
        out.append(("enc,undecryptable", enc, {"m6plain": None}))
        out.append(("enc,valid", enc, {"m6plain": ref_encode(GOOD_SUB6)}))
        out.append(("enc,no-sig", enc, {"m6plain": ref_encode(GOOD_SUB6[:2])}))
        out.append(("enc,no-id", enc, {"m6plain": ref_encode(GOOD_SUB6[1:])}))
        out.append(("enc,no-pk", enc, {"m6plain": ref_encode([GOOD_SUB6[0], GOOD_SUB6[2]])}))
        out.append(("enc,pk31", enc, {"m6plain": ref_encode([(T_ID, PAIRING_ID), (T_PK, LTPK[:31]), (T_SIG, b"\x5a" * 64)])}))
        out.append(("enc,sig-bad", enc, {"m6plain": ref_encode(GOOD_SUB6), "m6sig": False}))
        out.append(("enc,id-not-utf8", enc, {"m6plain": ref_encode([(T_ID, b"\xff\xfe"), (T_PK, LTPK), (T_SIG, b"\x5a" * 64)])}))
        out.append(("enc,sub-truncated", enc, {"m6plain": ref_encode(GOOD_SUB6)[:-3]}))
        out.append(("enc,sub-empty", enc, {"m6plain": b""}))
    elif step == "V2":
        enc = [(T_ENC, b"\x88" * 120)]
        pks = [("pk-", []), ("pk32", [(T_PK, x_pub)]), ("pk31", [(T_PK, x_pub[:31])])]
        encs = [("enc-", [], {}),
                ("enc,undecryptable", enc, {"v2plain": None}),
                ("enc,valid", enc, {"v2plain": ref_encode(GOOD_SUB)}),
                ("enc,no-id", enc, {"v2plain": ref_encode(GOOD_SUB[1:])}),
                ("enc,no-sig", enc, {"v2plain": ref_encode(GOOD_SUB[:1])}),
                ("enc,other-id", enc, {"v2plain": ref_encode([(T_ID, b"ZZ:ZZ"), GOOD_SUB[1]])}),
                ("enc,sig-bad", enc, {"v2plain": ref_encode(GOOD_SUB), "v2sig": False}),
                ("enc,id-not-utf8", enc, {"v2plain": ref_encode([(T_ID, b"\xff\xfe"), GOOD_SUB[1]])}),
                ("enc,sub-truncated", enc, {"v2plain": ref_encode(GOOD_SUB)[:-2]})]
        for (a, x), (b, y, o) in itertools.product(pks, encs):
            out.append((a + "," + b, x + y, o))
    else:
        out.append(("-", [], {}))
    return out


def lay_out(order, state, err, fields):
    st = [(T_STATE, state)] if state is not None else []
    er = [(T_ERROR, err)] if err is not None else []
    if order == "last":
        return st + fields + er
    if order == "first":
        return er + st + fields
    return st + er + fields        # "mid"


HTTP_4XX = [400, 405, 429, 470]
HTTP_REASON = {200: "OK", 400: "Bad Request", 405: "Method Not Allowed", 429: "Too Many Requests",
               470: "Connection Authorization Required", 500: "Internal Server Error"}
_rot = [0]


# round 9 (seed R): other HTTP response headers of the reply under test (the accessory announces that it hangs up / keeps
# the link); the plan is a function of the reply and its status, so a replay can name it
HTTP_HDR_PLANS = [("none", ""), ("connection-close", "Connection: close\r\n"), ("connection-keep-alive", "Connection: keep-alive\r\n"),
                  ("connection-close-lower", "connection: close\r\n")]


def http_hdr_plan(reply, status):
    reply = bytes(reply or b"")
    return HTTP_HDR_PLANS[(len(reply) * 7 + sum(reply) + int(status) // 5) % len(HTTP_HDR_PLANS)]


def statuses_for(tier):
    """HTTP statuses the IP accessory may send the reply under: 200 plus one rotating 4xx (quick) / all (thorough)"""
    if tier == "quick":
        _rot[0] += 1
        return [200, HTTP_4XX[_rot[0] % 4]]
    return [200] + HTTP_4XX + [500]


def with_status(c, status):
    d = dict(c)
    d["status"] = status
    d["meta"] = dict(c["meta"], status=str(status))
    return d


def mk_cell(stream, step, transport, items, oracles, **meta):
    o = default_oracles()
    o.update(oracles)
    meta.setdefault("status", "200" if transport == "F" or step in ("ipadd", "iprem") else "-")
    return dict(stream=stream, step=step, t=transport, items=[(int(k), bytes(v)) for k, v in items], o=o, meta=meta, status=200)


def gen_main(tier, x_pub):
    """the exhaustive skeleton: step x error code x state x field subset x order x transport"""
    cells = []
    for step in STEPS:
        for (fname, fitems, fo) in field_variants(step, x_pub):
            for err in ERR_CODES:
                for state in states_for(step):
                    for order in (["last"] if err is None else ["last", "first", "mid"]):
                        items = lay_out(order, state, err, fitems)
                        for t in "FU":
                            c = mk_cell("main", step, t, items, fo, fields=fname, order=order)
                            if t == "F":
                                cells.extend(with_status(c, st) for st in statuses_for(tier))
                            else:
                                cells.append(c)
    return cells


FRAG_LENS = [254, 255, 256, 510, 765]     # around the 255-byte TLV fragment size: 255/510/765 end on a FULL fragment


def gen_fraglen(tier, x_pub):
    """directed family (seed C04-G): for every step and transport an item the step expects, of length 254/255/256/510/765,
    DIRECTLY before the Error item (and before a wrong State item) - a decoder that glues what follows a full
    255-byte fragment onto it makes the Error disappear"""
    cells = []
    big = lambda n, salt: bytes((i * 5 + salt) & 0xFF for i in range(n))   # noqa: E731
    for step in STEPS:
        e = bytes([EXP_STATE[step]])
        for n in FRAG_LENS:
            if step == "S2":
                fams = [("salt16,pk%d" % n, [(T_SALT, bytes(range(16))), (T_PK, big(n, 1))], {}),
                        ("pk384,salt%d" % n, [(T_PK, big(384, 2)), (T_SALT, big(n, 3))], {})]
            elif step == "S4":
                fams = [("proof%d" % n, [(T_PROOF, big(n, 4))], {"srp": True}),
                        ("proof64,enc%d" % n, [(T_PROOF, b"\x44" * 64), (T_ENC, big(n, 5))], {"srp": True})]
            elif step == "S6":
                fams = [("enc%d,valid" % n, [(T_ENC, big(n, 6))], {"m6plain": ref_encode(GOOD_SUB6)})]
            elif step == "V2":
                fams = [("pk32,enc%d,valid" % n, [(T_PK, x_pub), (T_ENC, big(n, 7))], {"v2plain": ref_encode(GOOD_SUB)})]
            else:
                fams = [("enc%d" % n, [(T_ENC, big(n, 8))], {})]          # not expected at M4: BLE only
            for (fname, fitems, fo) in fams:
                for err in (None, b"\x02", b"\x07", b"\x01"):
                    for state in (None, e):
                        layouts = [("last", lay_out("last", state, err, fitems))]
                        if err is None:
                            # the long item directly before a WRONG State item
                            layouts = [("last", lay_out("last", state, None, fitems)),
                                       ("state-after", fitems + [(T_STATE, bytes([EXP_STATE[step] ^ 1]))])]
                        for (lname, items) in layouts:
                            for t in ("U" if step == "V4" else "FU"):
                                c = mk_cell("fraglen", step, t, items, fo, fields=fname, order=lname)
                                c["meta"]["len_before_error"] = str(n)
                                if t == "F":
                                    cells.extend(with_status(c, st) for st in statuses_for(tier))
                                else:
                                    cells.append(c)
    return cells


def gen_adjacent(tier):
    """raw replies with two ADJACENT items of one type (the decoder merges them: 07 01 05 07 01 07 is ONE Error item
    05 07 -> Invalid; 06 01 02 06 01 02 is State 02 02 -> wrong state), judged by what an independent decoder sees"""
    cells = []
    for step in STEPS:
        e = EXP_STATE[step]
        raws = []
        for c1, c2 in itertools.product([2, 5, 7], repeat=2):
            raws.append(bytes([7, 1, c1, 7, 1, c2]))
            raws.append(bytes([6, 1, e, 7, 1, c1, 7, 1, c2]))
        raws += [bytes([6, 1, e, 6, 1, e]), bytes([6, 1, e, 6, 1, e, 7, 1, 2]), bytes([6, 1, e ^ 1, 6, 0]), bytes([7, 0, 7, 1, 2]),
                 bytes([6, 0, 6, 1, e, 7, 1, 6])]
        for raw in raws:
            for t in "FU":
                c = dict(stream="adjacent", step=step, t=t, items=None, raw=raw, o=default_oracles(), status=200,
                         meta=dict(fields="-", order="adjacent-same-type", status="200" if t == "F" else "-"))
                cells.append(c)
    return cells


def gen_extra(x_pub):
    """items of a type the step does not expect (RetryDelay, Identifier ...) placed around the error"""
    cells = []
    for step in STEPS:
        fv = field_variants(step, x_pub)
        picks = [fv[0]] + [v for v in fv if v[0] in ("pk384,salt16", "proof-ok,enc", "enc,valid", "pk32,enc,valid")]
        for (fname, fitems, fo) in picks:
            for err in [None, b"\x02", b"\x03", b"\x06", b"\x01"]:
                for state in [None, bytes([EXP_STATE[step]]), bytes([EXP_STATE[step] + 1])]:
                    base_st = [(T_STATE, state)] if state is not None else []
                    base_er = [(T_ERROR, err)] if err is not None else []
                    for xt in (T_RETRY, T_ID, 200):
                        x = [(xt, b"\x05")]
                        layouts = {
                            "x-trailing": base_st + fitems + base_er + x,
                            "x-leading": x + base_st + fitems + base_er,
                            "x-before-error": base_st + fitems + x + base_er,
                            "x-after-state": base_st + x + base_er + fitems,
                        }
                        for lname, items in layouts.items():
                            if any(items[i][0] == items[i + 1][0] for i in range(len(items) - 1)):
                                continue
                            for t in "FU":
                                cells.append(mk_cell("extra", step, t, items, fo, fields=fname, order=lname))
    return cells


def gen_resume(x_pub):
    """pair-verify M2 when the caller offered a session to resume"""
    cells = []
    good = [(T_METHOD, b"\x06"), (T_SESSION, b"\x01" * 8), (T_ENC, b"\x99" * 16)]
    variants = [
        ("resume-ok", good, {"rplain": b""}),
        ("resume-method5", [(T_METHOD, b"\x05")] + good[1:], {"rplain": b""}),
        ("resume-method-empty", [(T_METHOD, b"")] + good[1:], {"rplain": b""}),
        ("resume-no-session", [good[0], good[2]], {"rplain": b""}),
        ("resume-no-tag", good[:2], {"rplain": b""}),
        ("resume-undecryptable", good, {"rplain": None}),
        ("resume-plain-nonempty", good, {"rplain": b"\x00"}),
        ("resume-method-2byte", [(T_METHOD, b"\x06\x00")] + good[1:], {"rplain": b""}),
    ]
    for (name, fitems, fo) in variants:
        for err in [None, b"\x02", b"\x06", b"\x01", b""]:
            for state in [None, b"\x02", b"\x03", b"\x04"]:
                for order in (["last"] if err is None else ["last", "first", "mid"]):
                    items = lay_out(order, state, err, fitems)
                    o = dict(fo)
                    o["derive"] = True
                    for t in "FU":
                        cells.append(mk_cell("resume", "V2", t, items, o, fields=name, order=order))
    return cells


def gen_items(x_pub):
    """item lists handed to the generators directly: duplicates (dict semantics: last wins)"""
    cells = []
    for step in STEPS:
        fv = field_variants(step, x_pub)
        (fname, fitems, fo) = [v for v in fv if v[0] in ("pk384,salt16", "proof-ok,enc", "enc,valid", "pk32,enc,valid", "-")][0]
        e = bytes([EXP_STATE[step]])
        w = bytes([EXP_STATE[step] ^ 1])
        for c1, c2 in itertools.product([b"\x02", b"\x07", b"\x01"], repeat=2):
            cells.append(mk_cell("items", step, "L", [(T_ERROR, c1), (T_STATE, e)] + fitems + [(T_ERROR, c2)], fo, fields=fname, order="dup-error"))
            cells.append(mk_cell("items", step, "L", [(T_ERROR, c1), (T_ERROR, c2), (T_STATE, e)] + fitems, fo, fields=fname, order="adjacent-error"))
        for s1, s2 in [(e, w), (w, e), (w, w), (e, e)]:
            for err in (None, b"\x02"):
                er = [(T_ERROR, err)] if err else []
                cells.append(mk_cell("items", step, "L", [(T_STATE, s1)] + fitems + er + [(T_STATE, s2)], fo, fields=fname, order="dup-state"))
        cells.append(mk_cell("items", step, "L", [], fo, fields="-", order="empty"))
    return cells


def ble_plans(payload, err_pos, idx, with_too_many=False):
    """exchange scripts by which a BLE accessory may deliver [payload]: name -> (exchanges, kind) with
    kind 'faithful' (the dict handed over is the payload's), 'status' (a consumed PDU has a non-success status),
    'other' (wrapper without Value, unknown status byte, too many fragments, truncated body)"""
    w = ble_wrap
    fd = lambda p: ref_encode([(12, p)])   # noqa: E731
    fl = lambda p: ref_encode([(13, p)])   # noqa: E731
    h = len(payload) // 2
    plans = collections.OrderedDict()
    plans["plain"] = ([(0, w(payload))], "faithful")
    plans["last-only"] = ([(0, w(fl(payload)))], "faithful")
    plans["two"] = ([(0, w(fd(payload[:h]))), (0, w(fl(payload[h:])))], "faithful")
    if err_pos is not None:
        cut = err_pos + 1
        plans["cut-in-error"] = ([(0, w(fd(payload[:cut]))), (0, w(fl(payload[cut:])))], "faithful")
    size = max(7, -(-len(payload) // 48))
    pieces = [payload[i:i + size] for i in range(0, len(payload), size)] or [b""]
    plans["many"] = ([(0, w(fd(p))) for p in pieces[:-1]] + [(0, w(fl(pieces[-1])))], "faithful")
    plans["empty-piece"] = ([(0, w(fd(payload[:h]))), (0, w(fd(b""))), (0, w(fl(payload[h:])))], "faithful")
    plans["value+extra"] = ([(0, w(payload, "value+extra"))], "faithful")
    st = 1 + idx % 6
    plans[f"status-{st}"] = ([(st, w(payload))], "status")
    plans["status-short"] = ([(1 + (idx + 3) % 6, b"", True)], "status")
    plans["status-second"] = ([(0, w(fd(payload[:h]))), (1 + (idx + 1) % 6, w(fl(payload[h:])))], "status")
    plans["status-9"] = ([(9, w(payload))], "other")
    plans["no-value"] = ([(0, w(payload, "no-value"))], "other")
    plans["body-truncated"] = ([(0, w(payload)[:-1])], "other")
    if with_too_many:
        plans["too-many"] = ([(0, w(fd(payload[i:i + 1]))) for i in range(50)], "other")
    return plans


def gen_ble(tier, x_pub):
    """BLE: the reply under test delivered through the real GATT/PDU/fragment stack in every plan of ble_plans"""
    cells = []
    full = tier != "quick"
    idx = 0
    for step in STEPS:
        fv = field_variants(step, x_pub)
        keep = ("pk384,salt16", "pk1,salt-", "proof-ok,enc", "proof-bad,enc-", "enc,valid", "enc,sig-bad", "pk32,enc,valid", "pk31,enc,valid")
        picks = fv if full else [fv[0]] + [v for v in fv[1:] if v[0] in keep]
        for (fname, fitems, fo) in picks:
            for err in (ERR_CODES if full else [None, b"\x02", b"\x03", b"\x07", b"\x01", b""]):
                for state in (states_for(step) if full else [None, bytes([EXP_STATE[step]]), bytes([EXP_STATE[step] ^ 1])]):
                    for order in (["last"] if err is None else ["last", "first"]):
                        items = lay_out(order, state, err, fitems)
                        payload = ref_encode(items)
                        err_pos = None
                        if err is not None:
                            err_pos = len(ref_encode(items[:[k for k, _ in items].index(T_ERROR)]))
                        plans = ble_plans(payload, err_pos, idx, with_too_many=(fname == fv[0][0] and state == bytes([EXP_STATE[step]])))
                        for pname, (xs, kind) in plans.items():
                            idx += 1
                            c = mk_cell("ble", step, "U", items, fo, fields=fname, order=f"{order}/{pname.split('-')[0] if pname.startswith('status-') and pname[7:].isdigit() else pname}")
                            c["ble"] = dict(xs=xs, kind=kind, plan=pname, pdu_frag=PDU_FRAGS[idx % len(PDU_FRAGS)],
                                            req_frag=[512, 20, 155][idx % 3])
                            c["meta"]["pdu_frag"] = str(c["ble"]["pdu_frag"])
                            c["meta"]["exchanges"] = str(min(len(xs), 10))
                            cells.append(c)
    return cells


def gen_ble_siblings(tier, x_pub):
    """BLE: items sent NEXT TO a FragmentData / FragmentLast item in the same payload (round 6).  Every delivery plan
    {one FragmentLast, two payloads, three payloads} x sibling set {Error, wrong State, both} x placed before / after the
    fragment item x in the first, a middle, the last payload; plus an unterminated FragmentData buffer followed by a
    plain reply.  The cell's item list is everything the accessory sent: siblings in arrival order, then the
    reassembled (or buffered) items."""
    cells = []
    idx = 0
    valid = {"S2": "pk384,salt16", "S4": "proof-ok,enc", "S6": "enc,valid", "V2": "pk32,enc,valid", "V4": "-"}
    for step in STEPS:
        e = EXP_STATE[step]
        (fname, fitems, fo) = [v for v in field_variants(step, x_pub) if v[0] == valid[step]][0]
        sibsets = collections.OrderedDict([
            ("error", [(T_ERROR, b"\x02")]), ("error6", [(T_ERROR, b"\x06")]),
            ("wrong-state", [(T_STATE, bytes([e ^ 1]))]),
            ("both", [(T_STATE, bytes([e ^ 1])), (T_ERROR, b"\x07")]),
            ("none", []),
        ])
        for blob_state in (bytes([e]), None):
            blob_items = ([(T_STATE, blob_state)] if blob_state else []) + fitems
            blob = ref_encode(blob_items)
            n = len(blob)
            splits = collections.OrderedDict([
                ("last-only", [blob]), ("two", [blob[:n // 2], blob[n // 2:]]),
                ("three", [blob[:n // 3], blob[n // 3:2 * n // 3], blob[2 * n // 3:]]),
            ])
            for pname, pieces in splits.items():
                for sname, sib in sibsets.items():
                    for where in range(len(pieces)):
                        for pos in ("before", "after"):
                            if sname == "none" and (where or pos == "after"):
                                continue
                            xs = []
                            for i, piece in enumerate(pieces):
                                frag = [(13 if i == len(pieces) - 1 else 12, piece)]
                                extra = sib if i == where else []
                                payload = ref_encode((extra + frag) if pos == "before" else (frag + extra))
                                xs.append((0, ble_wrap(payload)))
                            idx += 1
                            c = mk_cell("ble", step, "U", sib + blob_items, fo, fields=fname,
                                        order=f"sibling-{pos}-fragment/{pname}")
                            c["ble"] = dict(xs=xs, kind="faithful", plan=f"{pname}, {sname} {pos} the fragment item of payload {where + 1}/{len(pieces)}",
                                            pdu_frag=PDU_FRAGS[idx % len(PDU_FRAGS)], req_frag=[512, 20, 155][idx % 3], sibling=True)
                            c["meta"]["pdu_frag"] = str(c["ble"]["pdu_frag"])
                            c["meta"]["exchanges"] = str(len(xs))
                            c["meta"]["sibling"] = f"{sname}@{['first', 'middle', 'last'][0 if where == 0 and len(pieces) > 1 else (2 if where == len(pieces) - 1 else 1)]}"
                            cells.append(c)
            # FragmentData pieces (ZERO-LENGTH ones leave the buffer empty) with siblings, terminated by a payload WITHOUT
            # fragment item (seed C04-M: a fast path "buffer empty and no fragment item => return this payload's items")
            terms = collections.OrderedDict([("empty", []), ("fields", fitems), ("reply", blob_items)])
            bufs = collections.OrderedDict([("zero-length", b""), ("fields-tlv", ref_encode(fitems))])
            for sname, sib in sibsets.items():
                if sname == "none":
                    continue
                for bname, piece in bufs.items():
                    for tname, term in terms.items():
                        if bname == "fields-tlv" and tname != "empty" and fitems:
                            continue                   # fields twice: nothing new
                        for shape in ("sib+frag", "frag+sib", "frag,sib+frag", "sib+frag,frag"):
                            fd = [(12, piece)]
                            fd0 = [(12, b"")]
                            payloads = {"sib+frag": [sib + fd], "frag+sib": [fd + sib], "frag,sib+frag": [fd0, sib + fd],
                                        "sib+frag,frag": [sib + fd, fd0]}[shape] + [term]
                            xs = [(0, ble_wrap(ref_encode(pl))) for pl in payloads]
                            idx += 1
                            buffered = fitems if bname == "fields-tlv" else []
                            c = mk_cell("ble", step, "U", sib + term + buffered, fo, fields=fname,
                                        order=f"sibling-of-{bname}-FragmentData/plain-terminator")
                            c["ble"] = dict(xs=xs, kind="faithful", sibling=True, pdu_frag=PDU_FRAGS[idx % len(PDU_FRAGS)], req_frag=512,
                                            plan=f"{sname} beside a {bname} FragmentData ({shape}), then a payload without fragment item ({tname})")
                            c["meta"]["pdu_frag"] = str(c["ble"]["pdu_frag"])
                            c["meta"]["exchanges"] = str(len(xs))
                            c["meta"]["sibling"] = f"{sname}@{bname}-data/plain-{tname}"
                            cells.append(c)
            # an unterminated FragmentData buffer, then a reply without fragment item
            for sname, hidden in (("error", [(T_ERROR, b"\x02")]), ("wrong-state", [(T_STATE, bytes([e ^ 1]))])):
                if blob_state is not None and sname == "wrong-state":
                    continue                           # the plain reply's own State comes later and wins (dict semantics)
                xs = [(0, ble_wrap(ref_encode([(12, ref_encode(hidden))]))), (0, ble_wrap(blob))]
                idx += 1
                c = mk_cell("ble", step, "U", blob_items + hidden, fo, fields=fname, order="unterminated-buffer-then-plain")
                c["ble"] = dict(xs=xs, kind="faithful", plan=f"FragmentData({sname} item) never terminated, then a plain reply",
                                pdu_frag=PDU_FRAGS[idx % len(PDU_FRAGS)], req_frag=512, sibling=True)
                c["meta"]["pdu_frag"] = str(c["ble"]["pdu_frag"])
                c["meta"]["exchanges"] = "2"
                c["meta"]["sibling"] = f"{sname}@buffer"
                cells.append(c)
    return cells


def gen_mutated(cells, r, n):
    """malformed stream: truncations / bit flips / duplications of replies of the other streams"""
    out = []
    wire = [c for c in cells if c["t"] in "FU" and not c.get("ble")]
    for _ in range(n):
        c = r.choice(wire)
        bs = bytearray(cell_reply(c))
        if not bs:
            continue
        m = r.random()
        if m < 0.4:
            bs = bs[: r.randrange(len(bs))]
        elif m < 0.8:
            j = r.randrange(len(bs))
            bs[j] ^= 1 << r.randrange(8)
        else:
            j = r.randrange(len(bs))
            bs = bs[:j] + bs[j:j + r.randrange(1, 6)] + bs[j:]
        if any(k in (12, 13) for k, _ in (ref_decode(bytes(bs)) or [])):
            continue                                   # BLE fragment types: C15's reassembly, not this property
        d = dict(c)
        d = dict(stream="mutated", step=c["step"], t=c["t"], items=None, raw=bytes(bs), o=c["o"], status=c.get("status", 200),
                 meta=dict(fields=c["meta"]["fields"], order="mutated", status=c["meta"].get("status", "-")))
        out.append(d)
    return out


def cell_reply(c):
    return c["raw"] if c.get("raw") is not None else ref_encode(c["items"])


# ---------------------------------------------------------------- implementation side
class Env:
    """Installs the crypto fakes into aiohomekit.protocol and the scripted transports."""

    def __init__(self):
        import aiohomekit.protocol as proto
        import aiohomekit.controller.ble.client as bc
        from aiohomekit.controller.ip.connection import HomeKitConnection
        from aiohomekit.protocol.tlv import TlvParseException
        from cryptography.hazmat.primitives.asymmetric import ed25519 as real_ed
        self.proto, self.bc, self.HKC, self.TlvParseException = proto, bc, HomeKitConnection, TlvParseException
        self.ora = default_oracles()
        self.sig_key = "v2sig"
        env = self

        class FakeSrp:
            def __init__(self, username, password):
                pass

            def set_salt(self, salt):
                pass

            def set_server_public_key(self, b):
                pass

            def get_public_key_bytes(self):
                return b"\x11" * 384

            def get_proof_bytes(self):
                return b"\x22" * 64

            def verify_servers_proof_bytes(self, proof):
                return env.ora["srp"]

            def get_session_key_bytes(self):
                return b"\x33" * 64

        class FakeDec:
            def __init__(self, key):
                pass

            def decrypt(self, aad, nonce, data):
                tag = bytes(nonce)[-8:]
                which = {b"PS-Msg06": "m6plain", b"PV-Msg02": "v2plain", b"PR-Msg02": "rplain"}[tag]
                plain = env.ora[which]
                if plain is None:
                    raise proto.DecryptionError("fake: bad tag")
                return bytes(plain)

        class FakePub:
            @classmethod
            def from_public_bytes(cls, b):
                real_ed.Ed25519PublicKey.from_public_bytes(b)     # same length check / ValueError as the real one
                return cls()

            def verify(self, sig, msg):
                if not env.ora[env.sig_key]:
                    raise proto.cryptography_exceptions.InvalidSignature()

        class FakeEd:
            Ed25519PrivateKey = real_ed.Ed25519PrivateKey
            Ed25519PublicKey = FakePub

        self.fakes = dict(SrpClient=FakeSrp, ChaCha20Poly1305Decryptor=FakeDec, ed25519=FakeEd)
        self.saved = {}
        self.script = []
        self.conn = None
        self.final_status = 200
        self.ip = None
        self.disc = None

        class MemTransport:
            """in-memory asyncio transport of the scripted IP accessory: every request written is answered at once
            with the next scripted reply as a complete HTTP/1.1 response (status 200 for prelude replies, the
            cell's status for the reply under test), parsed by the real InsecureHomeKitProtocol / HttpResponse"""

            def __init__(self, conn):
                self.conn = conn
                self.closed = 0
                self.requests = []

            def writelines(self, payload):
                self.requests.append(b"".join(payload))
                body = env.next_reply()                 # ScriptDone propagates through _send_lines
                final = env.fed > env.n_pre
                status = env.final_status if final else 200
                extra = http_hdr_plan(body, status)[1] if final else ""
                head = (f"HTTP/1.1 {status} {HTTP_REASON.get(status, 'X')}\r\nContent-Type: application/pairing+tlv8\r\n{extra}"
                        f"Content-Length: {len(body)}\r\n\r\n").encode()
                self.conn.protocol.data_received(head + bytes(body))

            def write(self, data):
                self.writelines([data])

            def write_eof(self):
                pass

            def close(self):
                self.closed += 1

            def is_closing(self):
                return False                            # post_tlv closes after a 4xx; the script goes on regardless

            def set_protocol(self, p):
                pass
        self.MemTransport = MemTransport

        class FakeChar:
            properties = ["read", "write"]
            uuid = "0000004c-0000-1000-8000-0026bb765291"
            handle = 1

        class FakeClient:
            """scripted GATT peer under the REAL HAP-BLE stack (char_write -> ble_request -> _write_pdu/_read_pdu ->
            decode_pdu/_continuation -> _decode_pdu_tlv_value): every request written starts a transaction whose
            response PDUs (status, length, body cut at the cell's PDU fragment size) are served read by read"""
            address = "00:00:00:00:00:00"
            is_connected = True

            def __init__(self):
                self.tid = 0
                self.pending = []
                self.requests = []

            async def get_characteristic(self, *a, **k):
                return FakeChar()

            async def get_characteristic_iid(self, char):
                return 1

            def determine_fragment_size(self, overhead, handle):
                return env.req_frag

            async def write_gatt_char(self, handle, data, response=True):
                data = bytes(data)
                if not data[0] & 0x80:
                    self.tid = data[2]
                    self.requests.append(data)
                    self.pending = None                 # a new transaction: the response is produced at the first read

            async def read_gatt_char(self, handle):
                if self.pending is None:
                    st, body, short = env.next_exchange()
                    self.pending = ble_pdus(self.tid, st, body, env.pdu_frag, short)
                return self.pending.pop(0)

            async def disconnect(self):
                return None
        self.FakeClient = FakeClient
        self.FakeChar = FakeChar
        self.req_frag = 512
        self.pdu_frag = 512
        self.coap_code = "CHANGED"
        self.final_xs = None
        self.xq = []
        self.restore_mode = None

    class ScriptDone(Exception):
        pass

    def wire(self, conn):
        """give a HomeKitConnection the in-memory transport and the real insecure protocol (needs a running loop)"""
        from aiohomekit.controller.ip.connection import InsecureHomeKitProtocol
        conn.transport = self.MemTransport(conn)
        conn.protocol = InsecureHomeKitProtocol(conn)
        conn.protocol.connection_made(conn.transport)
        conn.host_header = "Host: 127.0.0.1"
        conn.connected_host = "127.0.0.1"
        return conn

    def rewire(self):
        """a fresh real HomeKitConnection per cell (a changed post_tlv may drop the transport)"""
        async def noop(*a, **k):
            return None
        conn = self.wire(self.HKC(None, ["127.0.0.1"], 1))
        conn.ensure_connection = noop
        conn.close = noop
        self.conn = conn
        if self.ip is not None:
            self.ip.connection = conn
        if self.disc is not None:
            self.disc.connection = conn
        return conn

    def next_exchange(self):
        """BLE: the next GATT transaction's (status, body, short-pdu) - prelude replies are one successful exchange
        wrapping the reply, the reply under test is the cell's explicit exchange script"""
        if getattr(self, "events", None):
            self.next_reply()
            ev = self.events.pop(0)
            if ev[0] == "drop":
                from bleak.exc import BleakError
                raise BleakError("disconnected")           # the link broke after the request was written
            return (ev[1], ev[2], False)
        if not self.xq:
            logical = self.next_reply()
            if self.fed > self.n_pre and self.final_xs is not None:
                self.xq = [tuple(x) + (False,) * (3 - len(x)) for x in self.final_xs]
            else:
                self.xq = [(0, ble_wrap(logical), False)]
        return self.xq.pop(0)

    def begin(self, prelude, final, prelude_ora, cell_ora, status=200, xs=None, pdu_frag=512, req_frag=512):
        """script the accessory: good prelude replies (answered with all-valid oracles), then the reply under test"""
        self.final_status = status
        self.final_xs, self.pdu_frag, self.req_frag, self.xq = xs, pdu_frag, req_frag, []
        self.rewire()
        self.script = list(prelude) + ([final] if final is not None else [])
        self.n_pre = len(prelude)
        self.fed = 0
        self.ora_pre, self.ora_cell = prelude_ora, cell_ora

    def next_reply(self):
        if not self.script:
            raise Env.ScriptDone()
        self.ora = self.ora_pre if self.fed < self.n_pre else self.ora_cell
        self.fed += 1
        return self.script.pop(0)

    def fast_retry_backoff(self, on):
        """bleak_retry_connector.retry_bluetooth_connection_error sleeps 0.25 s..  between its attempts in real time;
        the histories with link drops would take minutes.  Its module-level name `asyncio` is replaced by a view whose
        sleep() yields once."""
        import types
        import bleak_retry_connector as brc
        if on:
            real = brc.asyncio

            async def sleep(delay, result=None):
                await real.sleep(0)
                return result
            view = types.ModuleType("asyncio_fast_sleep")
            view.__dict__.update(real.__dict__)
            view.sleep = sleep
            self._brc_saved = real
            brc.asyncio = view
        else:
            brc.asyncio = self._brc_saved

    def fake_crypto(self, on):
        if on:
            for k, v in self.fakes.items():
                self.saved[k] = getattr(self.proto, k)
                setattr(self.proto, k, v)
        else:
            for k, v in self.saved.items():
                setattr(self.proto, k, v)
            self.saved = {}

    def classify(self, e):
        if type(e) is self.TlvParseException:
            return "err Parse"
        if type(e) is self.bc.PDUStatusError:
            return "err PduStatus"
        n = type(e).__name__
        if n in LIB_CLASSES and type(e).__module__ == "aiohomekit.exceptions":
            return "err " + LIB_CLASSES[n]
        return "crash " + n

    def pairing_data(self, pid=PAIRING_ID):
        return {"AccessoryPairingID": pid.decode(), "AccessoryLTPK": LTPK.hex(), "iOSPairingId": "ctl-1",
                "iOSDeviceLTSK": bytes([0x21] * 32).hex(), "iOSDeviceLTPK": "00" * 32}

    def make_sm(self, step, o):
        p = self.proto
        if step == "S2":
            return p.perform_pair_setup_part1(True), []
        if step in ("S4", "S6"):
            sm = p.perform_pair_setup_part2("111-22-333", "ctl-1", bytearray(range(16)), bytearray(b"\x07" * 384))
            return sm, ([GOOD_M4] if step == "S6" else [])
        if o["derive"] and step == "V2":
            def derive(salt, info, length=32):
                return b"\x07" * length
            return p.get_session_keys(self.pairing_data(o["pid"]), b"\x01" * 8, derive), []
        sm = p.get_session_keys(self.pairing_data(o["pid"]))
        return sm, ([self.good_m2] if step == "V4" else [])

    def success_value(self, step, value, at_final):
        if not at_final:
            raise RuntimeError("generator finished during the prelude")
        if step == "S2":
            salt, pk = value
            return f"ok saltkey {hx(salt)} {hx(pk)}"
        if step == "S6":
            return f"ok pairing {hx(value['AccessoryPairingID'].encode())} {value['AccessoryLTPK']}"
        if step == "V2":
            return "ok resumed"
        if step == "V4":
            return "ok keys"
        return "ok unexpected-return"

    def preludes(self, step, o):
        prelude_ora = default_oracles()
        prelude_ora.update(v2plain=ref_encode(GOOD_SUB), pid=o["pid"])
        return prelude_ora

    async def run_step(self, c):
        """one cell on the real generator behind the real glue; returns the canonical outcome string"""
        step, t, o = c["step"], c["t"], c["o"]
        reply = cell_reply(c) if t != "L" else None
        self.sig_key = "m6sig" if step == "S6" else "v2sig"
        sm, prelude = self.make_sm(step, o)
        ble = c.get("ble") or {}
        if t == "U" and reply is None:
            reply = b""
        self.begin(prelude, reply, self.preludes(step, o), o, c.get("status", 200),
                   xs=ble.get("xs"), pdu_frag=ble.get("pdu_frag", PDU_FRAGS[len(reply or b"") % len(PDU_FRAGS)]),
                   req_frag=ble.get("req_frag", 512))
        n_pre = self.n_pre
        try:
            if t == "U":
                # real BLE glue end to end
                value = await self.bc.drive_pairing_state_machine(self.FakeClient(), "pair", sm)
                return self.success_value(step, value, self.fed == n_pre + 1)
            request, expected = sm.send(None)
            for i in range(n_pre + 1):
                if t == "F":
                    decoded = await self.conn.post_tlv("/pair", body=request, expected=expected)
                else:                                   # "L": the item list itself
                    self.ora = self.ora_pre if i < n_pre else o
                    self.fed = i + 1
                    r = ref_decode(prelude[i]) if i < n_pre else c["items"]
                    decoded = [[k, bytearray(v)] for k, v in r]
                request, expected = sm.send(decoded)
            return "ok cont"
        except StopIteration as s:
            return self.success_value(step, s.value, self.fed == n_pre + 1)
        except Env.ScriptDone:
            return "ok cont"
        except Exception as e:  # noqa
            if self.fed <= n_pre and n_pre:
                return "crash prelude-failed-" + type(e).__name__     # the all-valid earlier replies were not accepted
            return self.classify(e)

    # ---- call level: the library's own drivers of the state machines
    def install_call_level(self):
        import types
        import aiohomekit.controller.coap.connection as cc
        import aiohomekit.controller.ip.connection as ic
        import aiohomekit.controller.ip.discovery as idisc
        env = self
        self.cc, self.ic, self.idisc = cc, ic, idisc

        async def noop(*a, **k):
            return None

        class FakePairing:
            def __init__(self, controller, pairing):
                self.pairing = pairing

        from aiocoap.numbers.codes import Code

        class Resp:
            def __init__(self, payload, code):
                self.payload = payload
                self.code = code

        class Req:
            def __init__(self):
                async def resp():
                    body = env.next_reply()
                    # prelude replies 2.04; the reply under test carries the cell's CoAP response code
                    code = Code.CHANGED if env.fed <= env.n_pre else getattr(Code, env.coap_code)
                    return Resp(body, code)
                self.response = resp()

        class FakeCtx:
            def request(self, msg):
                return Req()

            async def shutdown(self):
                return None

        class FakeContext:
            @classmethod
            async def create_client_context(cls):
                return FakeCtx()

            @classmethod
            async def create_server_context(cls, root, bind=None):
                return FakeCtx()

        class FakeTransport:
            def set_protocol(self, p):
                pass

            def close(self):
                pass

            def write(self, d):
                pass

            def is_closing(self):
                return False

        self._saved_call = [(idisc, "IpPairing", idisc.IpPairing), (cc, "Context", cc.Context),
                            (ic.HomeKitConnection, "_connect_once", ic.HomeKitConnection._connect_once)]
        idisc.IpPairing = FakePairing
        cc.Context = FakeContext
        ic.HomeKitConnection._connect_once = noop
        disc = object.__new__(idisc.IpDiscovery)
        disc.controller = types.SimpleNamespace(pairings={})
        disc.description = types.SimpleNamespace(feature_flags=0, address="127.0.0.1", addresses=["127.0.0.1"], port=1, name="x", id="aa")
        disc.connection = None                       # set by rewire() for every cell
        self.disc = disc
        self.FakeTransport = FakeTransport

    def uninstall_call_level(self):
        for obj, name, val in self._saved_call:
            setattr(obj, name, val)

    async def run_call(self, c):
        """the same cell through IpDiscovery.async_start_pairing/finish_pairing, SecureHomeKitConnection._connect_once
        (level 'ip') or CoAPHomeKitConnection.do_pair_setup/_finish/do_pair_verify (level 'coap')"""
        step, level, o = c["step"], c["level"], c["o"]
        reply = cell_reply(c)
        self.sig_key = "m6sig" if step == "S6" else "v2sig"
        prelude = {"S2": [], "S4": [GOOD_M2], "S6": [GOOD_M2, GOOD_M4], "V2": [], "V4": [self.good_m2]}[step]
        self.begin(prelude, reply, self.preludes(step, o), o, c.get("status", 200))
        self.coap_code = c.get("coap_code", "CHANGED")
        n_pre = self.n_pre
        try:
            if level == "ip" and step in ("S2", "S4", "S6"):
                finish = await self.disc.async_start_pairing("alias")
                if step == "S2":
                    return "ok saltkey"
                await finish("111-22-333")
                return "ok pairing"
            if level == "ip":
                sc = object.__new__(self.ic.SecureHomeKitConnection)
                sc.owner = None
                sc.pairing_data = self.pairing_data(o["pid"])
                sc._concurrency_limit = asyncio.Semaphore(1)
                sc._pair_verify_failed_hosts = set()
                sc.hosts = ["127.0.0.1"]
                sc.port = 1
                self.wire(sc)
                await sc._connect_once()
                return "ok keys" if sc.is_secure else "ok not-secure"
            co = self.cc.CoAPHomeKitConnection(None, "::1", 5683)
            if step in ("S2", "S4", "S6"):
                salt, srpb = await co.do_pair_setup(True)
                if step == "S2":
                    return "ok saltkey"
                await co.do_pair_setup_finish("111-22-333", salt, srpb)
                return "ok pairing"
            r = await co.do_pair_verify(self.pairing_data(o["pid"]))
            return "ok keys" if r is True and co.is_connected else "ok not-connected"
        except Env.ScriptDone:
            return "ok cont" if self.fed == n_pre + 1 else "crash prelude-incomplete"
        except Exception as e:  # noqa
            if self.fed <= n_pre and n_pre:
                return "crash prelude-failed-" + type(e).__name__     # the all-valid earlier replies were not accepted
            return self.classify(e)

    # ---- pairing management on the real pairing classes
    def make_ip_pairing(self):
        """a real IpPairing (its own __init__, so state the class adds later exists) whose connection is the wired
        in-memory HomeKitConnection; must be called with a running loop"""
        import ipsim
        p = ipsim.make_pairing(["127.0.0.1"], 1)
        p._pairing_data["iOSPairingId"] = OWN_ID

        async def noop(*a, **k):
            return None
        p._ensure_connected = noop
        p.connection = None                          # set by rewire() for every cell
        self.ip_shutdowns = 0
        env = self

        async def shutdown():
            env.ip_shutdowns += 1
            p._shutdown = True
        p.shutdown = shutdown
        return p

    def make_ble_pairing(self):
        from aiohomekit.controller.ble.pairing import BlePairing
        env = self
        import ipsim

        async def noop(*a, **k):
            return None

        class Acc:
            def aid(self, a):
                return self

            @property
            def services(self):
                return self

            def first(self, **k):
                return self

            def __getitem__(self, k):
                import types
                return types.SimpleNamespace(service=types.SimpleNamespace(type="00000055-0000-1000-8000-0026BB765291"),
                                             type="00000050-0000-1000-8000-0026BB765291", iid=7)

        class St:
            accessories = Acc()
            config_num = 1
            state_num = None
            broadcast_key = None
        pd = {"AccessoryPairingID": "aa:bb:cc:dd:ee:ff", "AccessoryAddress": "00:00:00:00:00:00", "iOSPairingId": OWN_ID,
              "AccessoryLTPK": "00" * 32, "iOSDeviceLTSK": "00" * 32, "iOSDeviceLTPK": "00" * 32, "Connection": "BLE"}
        # the class's own __init__ (locks, flags and whatever state the class keeps between calls), on the scripted GATT peer;
        # the real _async_request / _async_request_under_lock / ble_request / close / shutdown run
        b = BlePairing(ipsim.FakeController(), pd, client=env.FakeClient())
        b._accessories_state = St()
        self.ble_connectable = True

        async def populate(*a, **k):
            # stands for _ensure_connected: a dropped link is re-established before the operation unless the
            # history says the accessory is out of reach
            if b.client is None and env.ble_connectable:
                b.client = env.FakeClient()
            if env.restore_mode is not None:
                # round 9 (seed Q): the operation had to open a fresh connection (made_connection), so a subscription
                # restore is pending when the operation finishes (restore_connection_and_resume's finally block)
                b._restore_pending = True
        b._populate_accessories_and_characteristics = populate
        return b

    def install_restore(self, b):
        """the collaborators of the REAL BlePairing._async_restore_subscriptions: its first step (fetching the broadcast
        key) is scripted by env.restore_mode - 'ok' | 'nosubs' | 'ade' (the accessory dropped the link right after its
        reply: AccessoryDisconnectedError) | 'bleak-once' (BleakError the first time, then fine; retryable)"""
        from aiohomekit.exceptions import AccessoryDisconnectedError
        from bleak.exc import BleakError
        env = self
        env.restore_runs = 0

        async def set_key():
            env.restore_runs += 1
            if env.restore_mode == "ade":
                raise AccessoryDisconnectedError("scripted: link dropped right after the reply")
            if env.restore_mode == "bleak-once" and env.restore_runs == 1:
                raise BleakError("scripted: link dropped right after the reply")
            if env.restore_mode not in ("ok", "bleak-once"):
                raise RuntimeError("harness: restore ran in mode %r" % (env.restore_mode,))

        async def sub(subscriptions):
            return None

        async def params():
            return None
        b._async_set_broadcast_encryption_key = set_key
        b._async_subscribe_broadcast_events = sub
        b._get_all_protocol_params = params
        b._async_schedule_start_notify_subscriptions = lambda: None

    async def run_mgmt(self, op, reply, status=200, bst=0, short=False):
        self.begin([], reply, default_oracles(), default_oracles(), status,
                   xs=[(bst, reply, short)] if op.startswith("ble") else None, pdu_frag=PDU_FRAGS[len(reply) % len(PDU_FRAGS)])
        try:
            return await self.call_mgmt(op, OTHER_ID)
        except Exception as e:  # noqa
            return self.classify(e)

    async def call_mgmt(self, op, pid):
        if op == "ipadd":
            await self.ip.add_pairing(pid, "00" * 32, "User")
        elif op == "iprem":
            await self.ip.remove_pairing(pid)
        elif op == "bleadd":
            await self.ble.add_pairing(pid, "00" * 32, "Admin")
        else:
            await self.ble.remove_pairing(pid)
        return "ok done"

    async def run_history(self, transport, calls):
        """a HISTORY of pairing-management calls on ONE live pairing object (fresh per history).  Each call =
        (method, own/other id, events); BLE events: ('reply', status, body) | ('drop',) = the link breaks after M1 was
        written (BleakError on the read; retry_bluetooth_connection_error re-runs the method after a reconnect) |
        ('noconn',) = the accessory is out of reach.  IP events: ('reply', http status, body).
        Returns the per-call outcomes; after a call that shut the pairing down the rest is not run."""
        outs = []
        if transport == "ble":
            self.ble = self.make_ble_pairing()
        else:
            self.ip = self.make_ip_pairing()
        self.restore_mode = None
        for call in calls:
            method, who, events = call[:3]
            if len(call) > 3 and transport == "ble":
                self.restore_mode = call[3]
                self.install_restore(self.ble)
                self.ble.subscriptions.clear()
                if call[3] != "nosubs":
                    self.ble.subscriptions.add((1, 10))
            elif self.restore_mode is not None:
                self.restore_mode = "ok"             # later calls of the history: a still pending restore now works
            op = transport + method
            pid = OWN_ID if who == "own" else OTHER_ID
            d = default_oracles()
            if transport == "ble":
                self.begin([], None, d, d)
                self.script = [b""] * len(events)               # one logical reply per event
                self.events = list(events)
                self.ble_connectable = events[0][0] != "noconn"
                if not self.ble_connectable and self.ble.client is not None:
                    await self.ble.close()
                obj = self.ble
            else:
                ev = events[-1]
                self.begin([], ev[2], d, d, ev[1])
                obj = self.ip
            try:
                r = await asyncio.wait_for(self.call_mgmt(op, pid), CELL_TIMEOUT)
            except asyncio.TimeoutError:
                outs.append("hang")
                break
            except Exception as e:  # noqa
                r = self.classify(e)
            self.events = None
            if obj._shutdown:
                outs.append(r + " shutdown")
                break
            outs.append(r)
        return outs



GOOD_M4 = ref_encode([(T_STATE, b"\x04"), (T_PROOF, b"\x44" * 64)])
GOOD_M2 = ref_encode([(T_STATE, b"\x02"), (T_PK, bytes((i * 7) & 0xFF for i in range(384))), (T_SALT, bytes(range(16)))])


# ---------------------------------------------------------------- termination guard
CELL_TIMEOUT = 2.0      # real seconds; a healthy cell takes well under a millisecond


HANG_LIMIT = 6          # after that many hangs / slow runs of one step or method its remaining cells are not run
SLOW = 0.5              # seconds; a run this slow counts against the limit as well (e.g. real-time retry back-offs)
_hangs = collections.Counter()


async def guarded(coro, key="", budget=CELL_TIMEOUT):
    """every implementation run is bounded in real time: a run that does not finish is the outcome 'hang';
    the check stays standing on code that hangs or crawls in every cell of a stream"""
    if _hangs[key] >= HANG_LIMIT:
        coro.close()
        return "not-run"
    import time
    t0 = time.monotonic()
    try:
        r = await asyncio.wait_for(coro, budget)
    except asyncio.TimeoutError:
        _hangs[key] += 1
        return "hang"
    if time.monotonic() - t0 > SLOW:
        _hangs[key] += 1
        if _hangs[key] >= HANG_LIMIT:
            return "hang"
    return r


# ---------------------------------------------------------------- model side
def o_tokens(o):
    def opt(x):
        return "N" if x is None else hx(x)
    return " ".join([str(int(o["srp"])), opt(o["m6plain"]), str(int(o["m6sig"])), str(int(o["derive"])),
                     opt(o["rplain"]), opt(o["v2plain"]), str(int(o["v2sig"])), hx(o["pid"])])


def xs_tokens(xs):
    return " ".join(f"{x[0]}:{hx(x[1])}" for x in xs)


def model_line(c):
    if c.get("ble"):
        return f"bstep {c['step']} {o_tokens(c['o'])} {xs_tokens(c['ble']['xs'])}"
    if c["t"] == "L":
        toks = " ".join(f"{k}:{hx(v)}" for k, v in c["items"])
        return f"sitems {c['step']} {o_tokens(c['o'])} {toks}".rstrip()
    return f"step {c['t']} {c['step']} {o_tokens(c['o'])} {hx(cell_reply(c))}"


def canon(out, kind_only=False):
    """compare classes only: crash detail (exception name) is not part of the comparison"""
    if out.startswith("crash"):
        return "crash"
    return " ".join(out.split(" ")[:2]) if kind_only else out


# ---------------------------------------------------------------- property oracle (independent of the model)
def judge(step_or_op, items, transport, impl, mgmt=False):
    """None if the cell is outside the property's hypothesis or the implementation satisfies it,
    else (category, symptom, text)."""
    exp = 2 if mgmt else EXP_STATE[step_or_op]
    codes = [v for k, v in items if k == T_ERROR]
    states = [v for k, v in items if k == T_STATE]
    wrong = bool(states) and states[-1] != bytes([exp])
    if not codes and not wrong:
        return None
    cat = "direct"
    if not mgmt and transport == "F":
        vocab = REF_VOCAB[step_or_op]
        prefix = list(itertools.takewhile(lambda kv: kv[0] in vocab, items))
        pc = [v for k, v in prefix if k == T_ERROR]
        ps = [v for k, v in prefix if k == T_STATE]
        if not pc and not (bool(ps) and ps[-1] != bytes([exp])):
            cat = "unexpected-type-before-error"
    if impl.startswith("ok"):
        return (cat, "success", "completed as success (" + impl[:40] + ")")
    if not impl.startswith("err ") or impl == "err Parse":
        return (cat, "non-library-exception", "failed with " + impl[:60] + " instead of a library ProtocolError")
    got = impl.split(" ")[1]
    allowed = set()
    if wrong:
        allowed.add("Invalid")
    for c in codes:
        if mgmt and step_or_op != "ipadd":
            allowed.add("Authentication" if c == b"\x02" else "Unknown")
        else:
            allowed.add(REF_CLASS.get(c, "Invalid"))
    if got not in allowed:
        return (cat, "wrong-class", f"raised {got}, documented: {' or '.join(sorted(allowed))}")
    return None


def judge_delivery(kind, what, step_or_op, items, impl, mgmt=False):
    """BLE cells whose delivery is not plain: a consumed PDU with a non-success status must fail the operation with
    PDUStatusError; otherwise (wrapper without Value, ...) only 'a bad reply never succeeds' is demanded"""
    if kind == "status":
        if impl.startswith("ok"):
            return ("direct", "pdu-status-ignored", f"{what} yet completed as success ({impl[:30]})")
        if impl != "err PduStatus":
            return ("direct", "pdu-status-wrong-exception", f"{what} but failed with {impl[:40]} instead of PDUStatusError")
        return None
    v = judge(step_or_op, items, "U", impl, mgmt=mgmt)
    if v is not None and v[1] == "success":
        return v
    return None


def http_class(cell):
    st = cell["meta"].get("status", "-")
    return st if st in ("-", "200") else st[0] + "xx"


def cell_hdr(cell):
    """name of the extra HTTP header plan the scripted IP accessory used for this cell's reply ('-' if not over HTTP)"""
    if cell["meta"].get("status", "-") == "-" or cell["t"] in ("U", "L") or cell.get("level") == "coap":
        return "-"
    try:
        return http_hdr_plan(cell_reply(cell), int(cell.get("status", 200)))[0]
    except Exception:  # noqa
        return "-"


def state_kind(items, exp):
    st = [v for k, v in items if k == T_STATE]
    if not st:
        return "state-absent"
    return "state-ok" if st[-1] == bytes([exp]) else "state-wrong"


# ---------------------------------------------------------------- real-crypto stream (pair-verify)
def real_verify_cells():
    """pair-verify against an accessory that does the real X25519/Ed25519/ChaCha20 work (built directly on
    `cryptography`, HKDF by hmac), to validate that the oracle booleans mean what the model says."""
    import hashlib
    import hmac
    from cryptography.hazmat.primitives import serialization
    from cryptography.hazmat.primitives.asymmetric import ed25519, x25519
    from cryptography.hazmat.primitives.ciphers.aead import ChaCha20Poly1305

    def hkdf(ikm, salt, info, n=32):
        prk = hmac.new(salt, ikm, hashlib.sha512).digest()
        return hmac.new(prk, info + b"\x01", hashlib.sha512).digest()[:n]

    raw = dict(encoding=serialization.Encoding.Raw, format=serialization.PublicFormat.Raw)
    acc_lt = ed25519.Ed25519PrivateKey.from_private_bytes(bytes([0x61] * 32))
    acc_ltpk = acc_lt.public_key().public_bytes(**raw)

    def accessory_m2(ios_pub, tamper):
        eph = x25519.X25519PrivateKey.from_private_bytes(bytes([0x52] * 32))
        eph_pub = eph.public_key().public_bytes(**raw)
        shared = eph.exchange(x25519.X25519PublicKey.from_public_bytes(ios_pub))
        key = hkdf(shared, b"Pair-Verify-Encrypt-Salt", b"Pair-Verify-Encrypt-Info")
        ident = b"ZZ:ZZ" if tamper == "other-id" else PAIRING_ID
        sig = acc_lt.sign(eph_pub + ident + ios_pub)
        if tamper == "sig":
            sig = sig[:-1] + bytes([sig[-1] ^ 1])
        sub = ref_encode([(T_ID, ident), (T_SIG, sig)])
        ct = ChaCha20Poly1305(key).encrypt(b"\x00" * 4 + b"PV-Msg02", sub, b"")
        if tamper == "tag":
            ct = ct[:-1] + bytes([ct[-1] ^ 1])
        return eph_pub, ct, sub

    cells = []
    for tamper in (None, "sig", "tag", "other-id"):
        for err in (None, b"\x02", b"\x07", b"\x01"):
            for state in (None, b"\x02", b"\x04"):
                for order in (["last"] if err is None else ["last", "first"]):
                    for t in "FU":
                        cells.append(dict(step="V2", tamper=tamper, err=err, state=state, order=order, t=t, m4=None))
    for err in (None, b"\x02", b"\x06", b"\x01", b""):
        for state in (None, b"\x04", b"\x02"):
            for t in "FU":
                cells.append(dict(step="V4", tamper=None, err=err, state=state, order="last", t=t, m4=True))
    # the IP accessory may send any of these with a 4xx HTTP status (470 is what HAP uses for authentication trouble)
    cells += [dict(c, status=st) for c in cells if c["t"] == "F" for st in (470, 429)]
    return cells, accessory_m2, acc_ltpk


async def run_real_verify(env, drv, cov, add_violation, record):
    cells, accessory_m2, acc_ltpk = real_verify_cells()
    p = env.proto
    lines, impls, metas = [], [], []
    for c in cells:
        pd = env.pairing_data()
        pd["AccessoryLTPK"] = acc_ltpk.hex()
        sm = p.get_session_keys(pd)
        request, expected = sm.send(None)
        ios_pub = bytes(dict(request)[T_PK])
        eph_pub, ct, sub = accessory_m2(ios_pub, c["tamper"])
        o = default_oracles()
        o.update(v2plain=None if c["tamper"] == "tag" else sub, v2sig=c["tamper"] != "sig")
        m2_fields = [(T_PK, eph_pub), (T_ENC, ct)]
        if c["step"] == "V2":
            items = lay_out(c["order"], c["state"], c["err"], m2_fields)
            script = [ref_encode(items)]
        else:
            items = lay_out("last", c["state"], c["err"], [])
            script = [ref_encode([(T_STATE, b"\x02")] + m2_fields), ref_encode(items)]
        fed = 0
        try:
            env.begin(script[:-1], script[-1], o, o, c.get("status", 200))
            if c["t"] == "U":
                # the generator was already advanced once: wrap it so the BLE driver's send(None) gets the first request
                def resumed(sm=sm, first=(request, expected)):
                    reply = yield first
                    while True:
                        try:
                            nxt = sm.send(reply)
                        except StopIteration as s:
                            return s.value
                        reply = yield nxt
                value = await asyncio.wait_for(env.bc.drive_pairing_state_machine(env.FakeClient(), "pair", resumed()), CELL_TIMEOUT)
                out = "ok resumed" if c["step"] == "V2" else "ok keys"
            else:
                for r in script:
                    decoded = await asyncio.wait_for(env.conn.post_tlv("/pair-verify", body=request, expected=expected), CELL_TIMEOUT)
                    fed += 1
                    request, expected = sm.send(decoded)
                out = "ok cont"
        except StopIteration as s:
            out = "ok resumed" if c["step"] == "V2" else "ok keys"
        except Env.ScriptDone:
            out = "ok cont"
        except asyncio.TimeoutError:
            out = "hang"
        except Exception as e:  # noqa
            out = env.classify(e)
        cell = mk_cell("realcrypto", c["step"], c["t"], items, o, fields=f"tamper={c['tamper']}", order=c["order"])
        if c["t"] == "F":
            cell = with_status(cell, c.get("status", 200))
        lines.append(model_line(cell))
        impls.append(out)
        metas.append(cell)
    models = drv.batch(lines)
    for cell, impl, m in zip(metas, impls, models):
        record(cell, impl, m)



# ---------------------------------------------------------------- kernel cross-check of the extraction
ECODES = ["Authentication", "Backoff", "MaxPeers", "MaxTries", "Unavailable", "Busy", "Invalid", "Unknown", "IllegalData",
          "InvalidAuthTag", "IncorrectPairingId", "InvalidSignature", "Parse", "PduStatus"]
OKCODES = {"saltkey": 100, "cont": 101, "pairing": 102, "resumed": 103, "keys": 104, "done": 105}
COQ_STEP = {"S2": "SetupM2", "S4": "SetupM4", "S6": "SetupM6", "V2": "VerifyM2", "V4": "VerifyM4"}
COQ_OP = {"ipadd": "IpAdd", "iprem": "IpRemove", "bleadd": "BleAdd", "blerem": "BleRemove"}


def out_code(ans):
    t = ans.split(" ")
    if t[0] == "ok":
        return OKCODES[t[1]]
    if t[0] == "err":
        return 1 + ECODES.index(t[1])
    return {"crash": 200, "fuel": 201}[t[0]]


def coq_bytes(b):
    return "[" + ";".join(str(x) for x in b) + "]"


def coq_opt(b):
    return "None" if b is None else "(Some " + coq_bytes(b) + ")"


def coq_bool(x):
    return "true" if x else "false"


def kernel_crosscheck(verif, step_cases, mgmt_cases):
    """the same cases through vm_compute on the compiled theories: extraction is not a single point of trust.
    step_cases: (cell, driver answer); mgmt_cases: (op, reply bytes, driver answer).  Returns #disagreements."""
    from common import coq_eval
    rows = []
    for c, ans in step_cases:
        o = c["o"]
        orc = ("{| o_srp_proof_ok := %s; o_m6_plain := %s; o_m6_sig_ok := %s; o_derive_given := %s; o_resume_plain := %s; "
               "o_v2_plain := %s; o_v2_sig_ok := %s; o_pairing_id := %s |}" % (
                   coq_bool(o["srp"]), coq_opt(o["m6plain"]), coq_bool(o["m6sig"]), coq_bool(o["derive"]), coq_opt(o["rplain"]),
                   coq_opt(o["v2plain"]), coq_bool(o["v2sig"]), coq_bytes(o["pid"])))
        tr = "Filtered" if c["t"] == "F" else "Unfiltered"
        if c.get("ble"):
            xs = "[" + ";".join(f"({x[0]}, {coq_bytes(x[1])})" for x in c["ble"]["xs"]) + "]"
            rows.append(f"(ocode (step_ble {COQ_STEP[c['step']]} {orc} {xs}), {out_code(ans)})")
            continue
        rows.append(f"(ocode (step_wire {tr} {COQ_STEP[c['step']]} {orc} {coq_bytes(cell_reply(c))}), {out_code(ans)})")
    for op, reply, ans in mgmt_cases:
        rows.append(f"(mcode (mgmt_wire {COQ_OP[op]} {coq_bytes(reply)}), {out_code(ans)})")
    body = """From Coq Require Import List NArith Bool.
From AHK Require Import Lib.Res Lib.ByteStr Model.Tlv Model.Steps Model.StepsBle.
Import ListNotations.
Open Scope N_scope.
Definition ecode (e : errclass) : N :=
  match e with EAuthentication => 1 | EBackoff => 2 | EMaxPeers => 3 | EMaxTries => 4 | EUnavailable => 5 | EBusy => 6
  | EInvalid => 7 | EUnknown => 8 | EIllegalData => 9 | EInvalidAuthTag => 10 | EIncorrectPairingId => 11
  | EInvalidSignature => 12 | EParse => 13 | EPduStatus => 14 end.
Definition ocode (r : outcome) : N :=
  match r with Ok (PSaltKey _ _) => 100 | Ok PContinue => 101 | Ok (PPairing _ _) => 102 | Ok PResumed => 103 | Ok PKeys => 104
  | Err e => ecode e | Crash => 200 | OutOfFuel => 201 end.
Definition mcode (r : res errclass mgmt_done) : N :=
  match r with Ok MDone => 105 | Err e => ecode e | Crash => 200 | OutOfFuel => 201 end.
Definition cases : list (N * N) := [
""" + ";\n".join(rows) + """].
Eval vm_compute in (N.of_nat (length (filter (fun c => negb (N.eqb (fst c) (snd c))) cases))).
"""
    out = coq_eval(verif, "C04", "cases_c04", body, timeout=600)
    import re
    m = re.search(r"=\s*(\d+)", out)
    if not m:
        raise RuntimeError("cannot parse coq_eval output: " + out[-300:])
    return int(m.group(1))

# ---------------------------------------------------------------- run
def run(ctx):
    tier, seed = ctx["tier"], ctx["seed"]
    import logging
    logging.getLogger("aiohomekit").setLevel(logging.ERROR)      # the PDU layer warns about every non-success status
    drv = Driver(ctx["driver"])
    cov = Coverage("distinct (stream, step/op, transport, reply bytes, oracle record) whose reply was decoded and "
                   "reached the state check of the generator / pairing method (or raised in the decoding glue)")
    from cryptography.hazmat.primitives import serialization
    from cryptography.hazmat.primitives.asymmetric import x25519
    x_pub = x25519.X25519PrivateKey.from_private_bytes(X_SK).public_key().public_bytes(
        encoding=serialization.Encoding.Raw, format=serialization.PublicFormat.Raw)

    env = Env()
    env.good_m2 = ref_encode([(T_STATE, b"\x02"), (T_PK, x_pub), (T_ENC, b"\x88" * 120)])
    fine = collections.OrderedDict()      # fine key -> list of violating cells
    mismatches = []
    hangs = []                            # cells (undecodable reply) whose run did not return
    domain = collections.defaultdict(lambda: (set(), set(), set()))   # coarse key -> (transports, orders, http statuses) of all judged cells

    def coarse_of(cell, exp, cat):
        has_err = any(k == T_ERROR for k, _ in cell["items"])
        return ("mgmt" if cell["stream"] in ("mgmt", "hist") else "step", cell["step"], state_kind(cell["items"], exp),
                "error" if has_err else "no-error", cat)

    not_run = collections.Counter()

    def record(cell, impl, model):
        if impl == "not-run":                          # skipped after HANG_LIMIT hangs of this step/method: counted, not judged
            not_run[cell["stream"] + "/" + cell["step"]] += 1
            return
        items = cell["items"]
        mg = cell["stream"] in ("mgmt", "hist")
        if items is None:                              # mutated stream: judge what an independent decoder sees
            items = ref_decode(cell["raw"])
            if mg and items is not None and cell["step"].startswith("ble"):
                inner = dict(items).get(1)
                items = ref_decode(inner) if inner is not None else None
        verdict = None
        if items is not None:
            jc = dict(cell)
            jc["items"] = items
            kind = (cell.get("ble") or {}).get("kind", "faithful")
            if kind == "faithful":
                verdict = judge(cell["step"], items, cell["t"], impl, mgmt=mg)
            else:
                verdict = judge_delivery(kind, "PDU status " + "/".join(str(x[0]) for x in cell["ble"]["xs"]), cell["step"], items, impl, mgmt=mg)
            exp = 2 if mg else EXP_STATE[cell["step"]]
            if any(k == T_ERROR for k, _ in items) or state_kind(items, exp) == "state-wrong":
                for cat in ("direct", "unexpected-type-before-error"):
                    d = domain[coarse_of(jc, exp, cat)]
                    d[0].add(cell["t"])
                    d[1].add(cell["meta"]["order"])
                    d[2].add(http_class(cell))
            if verdict is not None and (cell.get("ble") or {}).get("sibling"):
                verdict = ("ble-fragment-sibling",) + tuple(verdict[1:])
            if impl == "hang":
                verdict = ("direct", "hang", f"did not return within {CELL_TIMEOUT:g} s of real time")
            if verdict is not None:
                ck = coarse_of(jc, exp, verdict[0]) + (verdict[1],)
                fine.setdefault(ck, []).append((cell, impl, model, verdict))
        elif impl == "hang":
            hangs.append((cell, impl, model))
        if verdict is None and impl != "hang" and canon(impl, cell["stream"] == "call") != canon(model, cell["stream"] == "call"):
            mismatches.append((cell, impl, model))
        reply = cell_reply(cell) if cell["t"] != "L" else repr(cell["items"]).encode()
        nontrivial = not (impl.startswith("crash ScriptDone"))
        sample = None
        if cov.evaluations % 4099 == 0:
            sample = dict(stream=cell["stream"], step=cell["step"], transport=cell["t"], reply=hx(reply)[:96],
                          fields=cell["meta"]["fields"], impl=impl[:60], model=model[:60])
        cov.case(f"{cell['stream']}|{cell['step']}|{cell['t']}|{cell['meta'].get('status', '-')}|{hx(reply)}|{o_tokens(cell['o'])}|{(cell.get('history') or {}).get('description', '')}", nontrivial, sample=sample,
                 http_status=cell["meta"].get("status", "-"), http_header=cell_hdr(cell), ble_restore=cell["meta"].get("restore", "-"),
                 stream=cell["stream"], step=cell["step"], transport=cell["t"], result=canon(impl).split(" ")[0] + " " + (impl.split(" ")[1] if impl.startswith("err") else ""),
                 error_code=("n/a" if items is None else err_name(next((v for k, v in items if k == T_ERROR), None))),
                 state=("n/a" if items is None else state_kind(items, 2 if mg else EXP_STATE[cell["step"]])),
                 layout=cell["meta"]["order"], len_before_error=cell["meta"].get("len_before_error", "-"),
                 ble_sibling=cell["meta"].get("sibling", "-"), ble_pdu_frag=cell["meta"].get("pdu_frag", "-"),
                 ble_exchanges=cell["meta"].get("exchanges", "-"), coap_code=cell["meta"].get("coap_code", "-"))

    # ---- the generator streams (fake crypto)
    cells = (gen_main(tier, x_pub) + gen_extra(x_pub) + gen_resume(x_pub) + gen_items(x_pub) + gen_ble(tier, x_pub)
             + gen_fraglen(tier, x_pub) + gen_adjacent(tier) + gen_ble_siblings(tier, x_pub))
    n_mut = 3000 if tier == "quick" else 60000
    cells += gen_mutated(cells, rng(seed, "c04mut"), n_mut)
    step_models = drv.batch([model_line(c) for c in cells])

    async def all_steps():
        out = []
        env.fake_crypto(True)
        try:
            for c in cells:
                out.append(await guarded(env.run_step(c), c["step"] + c["t"]))
        finally:
            env.fake_crypto(False)
        return out
    impls = asyncio.run(all_steps())
    for c, i, m in zip(cells, impls, step_models):
        record(c, i, m)

    # ---- call level: IpDiscovery / SecureHomeKitConnection / CoAPHomeKitConnection drive the generators themselves
    call_cells = []
    full = tier != "quick"
    for step in STEPS:
        fv = field_variants(step, x_pub)
        picks = fv if full else [fv[0]] + [v for v in fv if v[0] in ("pk384,salt16", "proof-ok,enc", "proof-bad,enc-", "enc,valid", "enc,sig-bad",
                                                                     "pk32,enc,valid", "pk32,enc,undecryptable")]
        picks = [v for v in picks if "other-id" not in v[0]]
        for (fname, fitems, fo) in picks:
            for err in (ERR_CODES if full else [None, b"\x02", b"\x03", b"\x04", b"\x05", b"\x06", b"\x07", b"\x01", b""]):
                for state in (states_for(step) if full else [None, bytes([EXP_STATE[step]]), bytes([EXP_STATE[step] ^ 6])]):
                    for order in (["last"] if err is None else ["last", "first", "mid"]):
                        items = lay_out(order, state, err, fitems)
                        for level in ("ip", "coap"):
                            cc_ = mk_cell("call", step, "F", items, fo, fields=fname, order=order)
                            cc_["level"] = level
                            if level == "ip":
                                call_cells.extend(with_status(cc_, st) for st in statuses_for(tier))
                            else:
                                for code in (["CHANGED", COAP_CODES[len(call_cells) % len(COAP_CODES)]] if not full else ["CHANGED"] + COAP_CODES):
                                    cx = dict(cc_, meta=dict(cc_["meta"], status="-", coap_code=code))
                                    cx["coap_code"] = code
                                    call_cells.append(cx)
    call_models = drv.batch([model_line(c) for c in call_cells])

    async def all_calls():
        out = []
        env.install_call_level()
        env.fake_crypto(True)
        try:
            for c in call_cells:
                out.append(await guarded(env.run_call(c), c["step"] + c["level"]))
        finally:
            env.fake_crypto(False)
            env.uninstall_call_level()
        return out
    call_impls = asyncio.run(all_calls())
    for c, i, m in zip(call_cells, call_impls, call_models):
        c["meta"]["order"] = c["meta"]["order"] + "@" + c["level"]
        record(c, i, m)

    # ---- pair-verify with real cryptography
    async def real_stream():
        await run_real_verify(env, drv, cov, None, record)
    asyncio.run(real_stream())

    # ---- pairing management: IpPairing / BlePairing add_pairing / remove_pairing
    mg_cells = []
    listing = [(T_ID, b"ctl-1"), (T_PK, bytes(32)), (T_PERM, b"\x01")]
    for op in ("ipadd", "iprem", "bleadd", "blerem"):
        for err in ERR_CODES:
            for state in states_for("S2"):
                for (fname, fitems) in ((("-", []), ("listing", listing), ("big", [(T_PK, bytes(300))]))
                                        + tuple(("id%d" % n, [(T_ID, bytes([0x41 + i % 26 for i in range(n)]))]) for n in FRAG_LENS)):
                    for order in (["last"] if err is None else ["last", "first", "mid"]):
                        for extra in (None, "leading", "trailing"):
                            if fname.startswith("id") and (order != "last" or extra is not None) and tier == "quick":
                                continue                   # the length family needs the long item directly before the Error item
                            items = lay_out(order, state, err, fitems)
                            if extra == "leading":
                                items = [(T_RETRY, b"\x01")] + items
                            elif extra == "trailing":
                                items = items + [(T_RETRY, b"\x01")]
                            mc = mk_cell("mgmt", op, "-", items, {}, fields=fname + ("" if not extra else "+x-" + extra), order=order)
                            if op.startswith("ip"):
                                mg_cells.extend(with_status(mc, st) for st in statuses_for(tier))
                            else:
                                mc["bst"] = 0
                                mg_cells.append(mc)
                                _rot[0] += 1
                                if tier != "quick" or _rot[0] % 4 == 0:
                                    for bst, short in ((1 + _rot[0] % 6, False), (1 + (_rot[0] + 2) % 6, True), (9, False)):
                                        if bst == 9 and _rot[0] % 5:
                                            continue
                                        ms = dict(mc, meta=dict(mc["meta"], order=mc["meta"]["order"] + ("/status-short" if short else "/status")))
                                        ms["bst"], ms["short"] = bst, short
                                        ms["ble"] = dict(kind="status" if bst <= 6 else "other", xs=[(bst, b"")])
                                        mg_cells.append(ms)
    wire = []
    for c in mg_cells:
        inner = ref_encode(c["items"])
        if c["step"].startswith("ble"):
            inner = ref_encode([(1, inner)]) if inner else bytes([1, 0])
        if c.get("short"):
            inner = b""
        c["raw_reply"] = inner
        if c.get("ble"):
            c["ble"]["xs"] = [(c["bst"], inner)]
        wire.append(inner)
    # BLE wrapper shapes + malformed
    r = rng(seed, "c04mg")
    odd = []
    for op in ("bleadd", "blerem"):
        for inner_items in ([(T_STATE, b"\x02")], [(T_STATE, b"\x02"), (T_ERROR, b"\x02")], [(T_ERROR, b"\x06")]):
            inner = ref_encode(inner_items)
            for shape, outer in (("no-value", ref_encode([(9, b"\x01")])), ("empty-reply", b""),
                                 ("value+extra", ref_encode([(9, b"\x01"), (1, inner)])),
                                 ("two-values", ref_encode([(1, inner), (9, b"\x01"), (1, ref_encode([(T_STATE, b"\x02")]))])),
                                 ("inner-truncated", ref_encode([(1, inner[:-1])])), ("outer-truncated", ref_encode([(1, inner)])[:-1])):
                odd.append(dict(stream="mgmt", step=op, t="-", items=None, raw=outer, o=default_oracles(),
                                meta=dict(fields=shape, order="mutated", status="-")))
    for _ in range(400 if tier == "quick" else 6000):
        c = r.choice(mg_cells)
        bs = bytearray(c["raw_reply"])
        if not bs:
            continue
        if r.random() < 0.5:
            bs = bs[: r.randrange(len(bs))]
        else:
            j = r.randrange(len(bs))
            bs[j] ^= 1 << r.randrange(8)
        odd.append(dict(stream="mgmt", step=c["step"], t="-", items=None, raw=bytes(bs), o=default_oracles(), status=c.get("status", 200),
                        meta=dict(fields="mutated", order="mutated", status=c["meta"]["status"])))
    for c in mg_cells:
        c["raw"] = c["raw_reply"]
    all_mg = mg_cells + odd
    models = drv.batch([f"bmgmt {c['step']} {c.get('bst', 0)}:{hx(c['raw'])}" if c["step"].startswith("ble")
                        else f"mgmt {c['step']} {hx(c['raw'])}" for c in all_mg])

    async def all_mgmt():
        env.ble = env.make_ble_pairing()
        env.ip = env.make_ip_pairing()
        out = []
        for c in all_mg:
            r = await guarded(env.run_mgmt(c["step"], c["raw"], c.get("status", 200), c.get("bst", 0), c.get("short", False)), c["step"])
            if r == "hang":
                env.ble = env.make_ble_pairing()          # a hung call may still hold the pairing's locks
                env.ip = env.make_ip_pairing()
            out.append(r)
        return out
    _hangs.clear()
    impls = asyncio.run(all_mgmt())
    for c, i, m in zip(all_mg, impls, models):
        record(c, i, m)

    # ---- HISTORIES of pairing-management calls on one live pairing object (state surviving between calls)
    H_REPLIES = collections.OrderedDict([
        ("ok", [(T_STATE, b"\x02")]),
        ("ok-nostate", []),
        ("auth", [(T_STATE, b"\x02"), (T_ERROR, b"\x02")]),
        ("auth-nostate", [(T_ERROR, b"\x02")]),
        ("busy", [(T_STATE, b"\x02"), (T_ERROR, b"\x07")]),
        ("wrong-state", [(T_STATE, b"\x03")]),
    ])

    def h_events(transport, kind):
        """kind: a reply name, optionally prefixed by drop+ / drop+drop+ (BLE), or 'pdu5' / 'noconn' (BLE), '470:<reply>' (IP)"""
        if transport == "ip":
            st, _, name = kind.rpartition(":")
            return [("reply", int(st or 200), ref_encode(H_REPLIES[name]))], H_REPLIES[name]
        kind = kind.partition("@")[0]                # '@<restore mode>' is handled by the caller
        if kind == "noconn":
            return [("noconn",)], None
        if kind == "pdu5":
            return [("reply", 5, ble_wrap(ref_encode(H_REPLIES["auth"])))], H_REPLIES["auth"]
        parts = kind.split("+")
        items = H_REPLIES[parts[-1]]
        return [("drop",)] * (len(parts) - 1) + [("reply", 0, ble_wrap(ref_encode(items)))], items

    kinds = {"ble": list(H_REPLIES) + ["drop+auth", "drop+ok", "drop+drop+auth-nostate", "pdu5", "noconn"],
             "ip": list(H_REPLIES) + ["470:auth", "429:busy"]}
    whos = [("rem", "own"), ("rem", "other"), ("add", "other")]
    histories = []
    for transport in ("ble", "ip"):
        ks = kinds[transport]
        for (c1, c2) in itertools.product(itertools.product(whos, ks), repeat=2):
            histories.append((transport, [c1, c2]))
        k3 = ks if tier != "quick" else [k for k in ks if k in ("ok", "auth", "auth-nostate", "busy", "wrong-state", "drop+auth", "noconn", "470:auth")]
        for mid in whos:
            for (a, b_, c_) in itertools.product(k3, repeat=3):
                histories.append((transport, [(("rem", "own"), a), (mid, b_), (("rem", "own"), c_)]))
    # round 9 (seed Q): the call had to open a fresh connection, so restore_connection_and_resume's finally block runs the
    # REAL _async_restore_subscriptions after the (refused / accepted) operation: restore fine / nothing to restore /
    # the accessory dropped the link right after replying (AccessoryDisconnectedError, or a retryable BleakError once)
    R_MODES = ["ok", "nosubs", "ade", "bleak-once"]
    n_restore_hist = 0
    for mw in whos:
        for kind in ["ok", "ok-nostate", "auth", "auth-nostate", "busy", "wrong-state", "drop+auth", "pdu5"]:
            for mode in R_MODES:
                if kind == "drop+auth" and mode == "bleak-once":
                    continue     # the drop already closes the link, the restore's BleakError would hit the LAST attempt of add_pairing
                histories.append(("ble", [(mw, kind + "@" + mode)]))
                histories.append(("ble", [(mw, kind + "@" + mode), (("rem", "own"), "auth")]))
                histories.append(("ble", [(("add", "other"), "ok"), (mw, kind + "@" + mode)]))
                n_restore_hist += 3
    hist_calls = []     # (history index, call index, transport, method, who, kind, events, items)
    hist_scripts = []
    for hi, (transport, calls) in enumerate(histories):
        script = []
        for ci, ((method, who), kind) in enumerate(calls):
            events, items = h_events(transport, kind)
            mode = kind.partition("@")[2]
            if mode == "bleak-once":
                events = events + events             # the retry wrapper re-runs the method after the failed restore
            script.append((method, who, events) + ((mode,) if mode else ()))
            hist_calls.append((hi, ci, transport, method, who, kind, events, items))
        hist_scripts.append((transport, script))

    async def all_histories():
        outs = []
        env.fast_retry_backoff(True)
        try:
            for (transport, script) in hist_scripts:
                r = await guarded(env.run_history(transport, script), "hist" + transport, budget=4 * CELL_TIMEOUT)
                if r != "hang" and "hang" in r:
                    _hangs["hist" + transport] += 1
                outs.append([r] if r in ("hang", "not-run") else r)
        finally:
            env.fast_retry_backoff(False)
        return outs
    _hangs.clear()
    hist_outs = asyncio.run(all_histories())
    lines, line_of = [], {}
    for (hi, ci, transport, method, who, kind, events, items) in hist_calls:
        op = transport + method
        last = events[-1]
        if last[0] == "reply":
            line_of[(hi, ci)] = len(lines)
            if transport == "ble":
                evs = events[-1:] if kind.endswith("@bleak-once") else events
                lines.append(f"bretry {op} " + " ".join("D" if e[0] == "drop" else f"{e[1]}:{hx(e[2])}" for e in evs))
            else:
                lines.append(f"mgmt {op} {hx(last[2])}")
    hist_models = drv.batch(lines)
    n_hist_calls = 0
    for (hi, ci, transport, method, who, kind, events, items) in hist_calls:
        outs = hist_outs[hi]
        if ci >= len(outs):
            continue                                   # not run: the pairing was shut down (or hung) earlier in the history
        impl = outs[ci]
        model = hist_models[line_of[(hi, ci)]] if (hi, ci) in line_of else "crash"
        if model == "ok done" and method == "rem" and who == "own":
            model = "ok done shutdown"               # _shutdown_if_primary_pairing_removed
        if kind.endswith("@ade") and model != "ok done shutdown":
            model = "crash"                          # the failing restore's AccessoryDisconnectedError is what the call raises
        op = transport + method
        descr = " ; ".join(f"{m}-{w}:{k}" for ((m, w), k) in histories[hi][1][:ci + 1])
        cell = mk_cell("mgmt", op, "-", items or [], {}, fields="history", order="history")
        cell["stream"] = "hist"
        cell["raw"] = events[-1][2] if events[-1][0] == "reply" else b""
        cell["meta"]["status"] = str(events[-1][1]) if transport == "ip" else "-"
        cell["history"] = dict(transport=transport, upto_call=ci, calls=[dict(method=m, id=w, accessory=k) for ((m, w), k) in histories[hi][1]],
                               description=descr, outcomes=outs[:ci + 1])
        cell["meta"]["restore"] = kind.partition("@")[2] or "-"
        if kind.endswith("@ade"):
            # independent rule: whatever the cleanup does, a refused request is never reported as done
            cell["ble"] = dict(kind="other", xs=[])
        elif transport == "ble" and sum(e[0] == "drop" for e in events) >= (2 if method == "add" else 10):
            cell["items"], cell["ble"] = [], dict(kind="other", xs=[])       # every attempt lost the link: no reply was read
        elif kind.partition("@")[0] == "pdu5":
            cell["ble"] = dict(kind="status", xs=[(5, events[-1][2])])
        elif items is None:
            cell["ble"] = dict(kind="other", xs=[])
        n_hist_calls += 1
        record(cell, impl, model)
    env.restore_mode = None
    cov.extra["histories"] = dict(histories=len(histories), calls_run=n_hist_calls, restore_histories=n_restore_hist,
                                  note="one live BlePairing / IpPairing per history; each call judged by its own last reply")

    # ---- vm_compute cross-check of the extracted model on a sample
    rs = rng(seed, "c04vm")
    wire_idx = [i for i, c in enumerate(cells) if c["t"] in "FU" and not c.get("ble")]
    pick = rs.sample(wire_idx, 90 if tier == "quick" else 700)
    mg_pick = rs.sample([i for i, c in enumerate(all_mg) if not c.get("bst")], 40 if tier == "quick" else 300)
    ble_pick = rs.sample([i for i, c in enumerate(cells) if c.get("ble")], 40 if tier == "quick" else 300)
    try:
        bad = kernel_crosscheck(ctx["verif"], [(cells[i], step_models[i]) for i in pick + ble_pick],
                                [(all_mg[i]["step"], all_mg[i]["raw"], models[i]) for i in mg_pick])
        cov.extra["vm_compute_crosscheck"] = dict(cases=len(pick) + len(ble_pick) + len(mg_pick), disagreements=bad)
        if bad:
            mismatches.append((dict(stream="vm_compute", step="extraction", t="-", items=[], o=default_oracles(), meta={}),
                               f"{bad} answers of the extracted driver", "differ from vm_compute"))
    except Exception as e:  # noqa
        mismatches.append((dict(stream="vm_compute", step="crosscheck-failed", t="-", items=[], o=default_oracles(), meta={}),
                           "coq_eval failed", str(e)[-200:]))

    # ---- the decision table on every single code byte (finite: 256) + lengths 0 and 2
    tbl_bad = []
    codes = [bytes([b]) for b in range(256)] + [b"", b"\x02\x00", b"\x06\x06"]
    ans = drv.batch(["code " + hx(c) for c in codes])
    for c, a in zip(codes, ans):
        try:
            env.proto.error_handler(bytearray(c), "x")
            got = "ok"
        except Exception as e:  # noqa
            got = env.classify(e)
        want = REF_CLASS.get(c, "Invalid")
        cov.case("code|" + c.hex(), True, stream="error_handler")
        if got != "err " + want:
            tbl_bad.append((c, got, want))
        elif a != f"{want} {want}":
            mismatches.append((dict(stream="error_handler", step="code", t="-", items=[(7, c)], o=default_oracles(), meta={}), got, a))

    # ---- violations, aggregated per failing class of cells
    viols = []
    merged = collections.OrderedDict()
    for ck, lst in fine.items():
        kind, step, sk, ek, cat, symptom = ck
        ts = {c["t"] for c, _, _, _ in lst}
        orders = {c["meta"]["order"] for c, _, _, _ in lst}
        dom_t, dom_o, dom_h = domain[ck[:5]]
        hs = {http_class(c) for c, _, _, _ in lst}
        key = f"{step}/{sk}+{ek}/{symptom}"
        if cat != "direct":
            key = f"{step}/{cat}/{symptom}"
        else:
            if ts != dom_t:
                key += "/" + "+".join(sorted(ts)) + "-only"
            if orders != dom_o and len(orders) <= 2:
                key += "/" + "+".join(sorted(orders))
            if hs != dom_h and hs - {"-"}:
                key += "/http-" + "+".join(sorted(hs - {"-"})) + "-only"
            hp = {cell_hdr(c) for c, _, _, _ in lst}
            if len(lst) >= 3 and hp and hp <= {"connection-close", "connection-close-lower"}:
                key += "/http-connection-close-only"
            elif len(lst) >= 3 and hp == {"connection-keep-alive"}:
                key += "/http-connection-keep-alive-only"
            if {c["stream"] for c, _, _, _ in lst} == {"hist"}:
                key += "/history-only"
        merged.setdefault(key, []).extend((c, impl, model, verdict, sk, ek) for c, impl, model, verdict in lst)
    for key, lst in merged.items():
        def rank(x):
            c = x[0]
            items = c["items"] or ref_decode(c.get("raw") or b"") or []
            code = next((v for k, v in items if k == T_ERROR), None)
            return (c["stream"] in ("mutated", "items"), code not in (None, b"\x02"), len(cell_reply(c)) if c["t"] != "L" else 0)
        lst.sort(key=rank)
        c, impl, model, verdict, sk, ek = lst[0]
        step = c["step"]
        ts = sorted({x[0]["t"] for x in lst})
        orders = sorted({x[0]["meta"]["order"] for x in lst})
        name = STEP_NAME.get(step, step)
        http = "" if c["meta"].get("status", "-") == "-" else f", HTTP status {c['meta']['status']}"
        if cell_hdr(c) not in ("-", "none"):
            http += f" with extra response header {http_hdr_plan(cell_reply(c), int(c.get('status', 200)))[1].strip()!r}"
        if c["meta"].get("coap_code", "-") not in ("-", "CHANGED"):
            http += f", CoAP code {c['meta']['coap_code']}"
        if c.get("history"):
            http += f", after the history [{c['history']['description']}] on one live pairing object (outcomes {c['history']['outcomes']})"
        if c["t"] == "U" and not c.get("ble"):
            http += f", response PDUs of {PDU_FRAGS[len(cell_reply(c)) % len(PDU_FRAGS)]} bytes"
        if c.get("ble") and c["ble"].get("plan"):
            http += f", BLE delivery {c['ble']['plan']}, response PDUs of {c['ble']['pdu_frag']} bytes"
        what = (f"{name}: reply {[(k, hx(v)[:16]) for k, v in (c['items'] or [])]} "
                f"({sk}, {ek}, transport {c['t']}{http}) {verdict[2]}; {len(lst)} cells of this class fail")
        viols.append(violation(key, what, True, stream=c["stream"], step=step, transport=c["t"],
                               reply=hx(cell_reply(c)) if c["t"] != "L" else None,
                               items=[(k, hx(v)) for k, v in (c["items"] or [])], oracles={k: (hx(v) if isinstance(v, bytes) else v) for k, v in c["o"].items()},
                               impl=impl, model=model, expected=verdict[2], failing_cells=len(lst),
                               transports=ts, layouts=orders[:8], http_status=c["meta"].get("status", "-"), http_extra_header=cell_hdr(c),
                               http_extra_headers=sorted({cell_hdr(x[0]) for x in lst}),
                               coap_code=c["meta"].get("coap_code", "-"), history=c.get("history"),
                               ble_exchanges=[(x[0], hx(x[1])) for x in c["ble"]["xs"]] if c.get("ble") else None,
                               ble_pdu_frag=(c.get("ble") or {}).get("pdu_frag"),
                               http_statuses=sorted({x[0]["meta"].get("status", "-") for x in lst})))
    for c, got, want in tbl_bad[:3]:
        viols.append(violation(f"error_handler/code-{c.hex() or 'empty'}", f"error_handler({c.hex()}) gives {got}, documented {want}", True,
                               code=c.hex(), impl=got, expected=want))
    seen = set()
    for c, impl, model in mismatches:
        k = f"{c['stream']}/{c['step']}:model-mismatch"
        if k in seen:
            continue
        seen.add(k)
        n = sum(1 for cc, _, _ in mismatches if cc["stream"] == c["stream"] and cc["step"] == c["step"])
        viols.append(violation(k, f"{c['stream']} {c['step']} transport {c['t']}: implementation '{impl[:60]}' != model '{model[:60]}' "
                               f"on a cell outside the property's error domain ({n} such cells)", False,
                               stream=c["stream"], step=c["step"], transport=c["t"],
                               reply=(hx(cell_reply(c)) if c["t"] != "L" else None),
                               items=[(k2, hx(v)) for k2, v in (c["items"] or [])],
                               oracles={k2: (hx(v) if isinstance(v, bytes) else v) for k2, v in c["o"].items()},
                               impl=impl, model=model, broken="correspondence Model/Steps.v <-> aiohomekit/protocol/__init__.py + glue"))
    if not_run:
        cov.extra["not_run_after_hangs"] = dict(not_run)
    cov.extra["termination_guard"] = (f"every implementation run under asyncio.wait_for({CELL_TIMEOUT:g} s); outcome 'hang' is a violation with the "
                                      f"cell as replay; after {HANG_LIMIT} hangs/slow runs of one step or method its remaining cells are skipped")
    cov.extra["exhaustive"] = True
    cov.extra["exhaustive_part"] = (
        "main: 5 steps x 13 error items {absent, 00..08, ff, 2-byte, empty} x 11 states {absent, expected, 7 wrong values, 2-byte, empty} "
        "x every subset of the step's fields with valid/invalid contents (6/6/11/27/1 variants) x 3 layouts (error last/first/after state) "
        "x 2 transports (filtered IP/CoAP glue, unfiltered BLE glue); mgmt: 4 methods x 13 x 11 x 3 field sets x 3 layouts x 3 extras; "
        "error_handler: all 256 one-byte codes")
    cov.extra["domain_notes"] = ("UTF-8: identifiers are ASCII or ff fe; key lengths 32 or 31; BLE fragment types 12/13 excluded (C15); "
                                 "oracle answers are independent inputs, validated against real X25519/Ed25519/ChaCha20 in stream 'realcrypto'")
    cov.extra["disagreements_checked"] = len(mismatches) + sum(len(v) for v in fine.values())
    cov.extra["trusted_base_extra"] = ["harness/c04.py crypto fakes (SrpClient, ChaCha20Poly1305Decryptor, Ed25519PublicKey.verify) "
                                       "patched into aiohomekit.protocol; bare-object IpPairing/BlePairing/HomeKitConnection with scripted post/_async_request"]
    return dict(coverage=cov.to_dict(), violations=viols)
