"""Virtual-time asyncio loop, in-memory transports and a scripted network / simulated accessory.

Used by the asyncio-state-machine properties (C08, C10, C11, C12, C19).  Part of the trusted base:
the fidelity of these emulations to CPython's selector transports is checked by `selftest()` against
a real socketpair for the contract points the models rely on.

Time: the clock is an integer number of TICKS (1/4096 s) exposed to asyncio as the exact float
ticks/4096.  The selector never blocks: when nothing is ready it jumps to the next timer; when
nothing is scheduled either it raises Stalled (the awaited thing can never complete).
"""
from __future__ import annotations

import asyncio
import errno
import selectors
import socket

TICKS = 4096


class Stalled(Exception):
    """run_until_complete would block forever: nothing ready, nothing scheduled."""


class Livelock(Exception):
    """The loop ran LIVELOCK_LIMIT iterations without virtual time advancing: some task spins without
    ever waiting (e.g. a retry loop whose sleep became 0).  Real time would advance a little on every
    turn; virtual time cannot, so the run is cut off and reported instead of never ending."""


LIVELOCK_LIMIT = 20000


class _VSelector(selectors.BaseSelector):
    def __init__(self):
        self._keys = {}
        self.loop = None
        self._spin = 0

    def register(self, fileobj, events, data=None):
        key = selectors.SelectorKey(fileobj, fileobj if isinstance(fileobj, int) else fileobj.fileno(), events, data)
        self._keys[key.fd] = key
        return key

    def unregister(self, fileobj):
        fd = fileobj if isinstance(fileobj, int) else fileobj.fileno()
        return self._keys.pop(fd)

    def modify(self, fileobj, events, data=None):
        self.unregister(fileobj)
        return self.register(fileobj, events, data)

    def select(self, timeout=None):
        if timeout is None:
            raise Stalled()
        if timeout > 0:
            self.loop._vt += timeout
            self._spin = 0
        else:
            self._spin += 1
            if self._spin > LIVELOCK_LIMIT:
                self._spin = 0
                raise Livelock(self.loop.ticks)
        return []

    def close(self):
        self._keys.clear()

    def get_map(self):
        return self._keys


class VLoop(asyncio.SelectorEventLoop):
    """SelectorEventLoop with a virtual clock.  create_connection(sock=FakeSock) builds a MemTransport."""

    def __init__(self):
        sel = _VSelector()
        super().__init__(sel)
        sel.loop = self
        self._vt = 0.0
        self._clock_resolution = 1.0 / (TICKS * 64)
        self.errors = []          # contexts passed to the exception handler
        self.set_exception_handler(lambda loop, ctx: self.errors.append(ctx))

    def time(self):
        return self._vt

    @property
    def ticks(self) -> int:
        t = self._vt * TICKS
        it = int(round(t))
        return it

    async def create_connection(self, protocol_factory, host=None, port=None, *, sock=None, **kw):
        if not isinstance(sock, FakeSock):
            raise OSError(errno.ENETUNREACH, "VLoop: only scripted connections exist")
        protocol = protocol_factory()
        transport = MemTransport(self, protocol, sock)
        waiter = self.create_future()

        def made():
            protocol.connection_made(transport)
            if not waiter.done():
                waiter.set_result(None)
        self.call_soon(made)
        await waiter
        sock.net._opened(transport)
        return transport, protocol


class FakeSock:
    """What the patched aiohappyeyeballs.start_connection returns."""

    def __init__(self, net, host, port):
        self.net, self.host, self.port = net, host, port

    def getpeername(self):
        return (self.host, self.port)

    def setsockopt(self, *a):
        pass

    def close(self):
        pass

    def fileno(self):
        return -1


class MemTransport(asyncio.Transport):
    """Reproduces the selector socket transport contract:
    - write/writelines deliver synchronously to the peer endpoint (one record per call);
    - close(): closing=True, connection_lost(None) via call_soon, exactly once;
    - exception in protocol.data_received / eof_received -> exception handler + forced close;
    - peer FIN -> protocol.eof_received(); falsy result -> close();
    - peer RST -> connection_lost(ConnectionResetError) via call_soon.
    """

    _next_id = 0

    def __init__(self, loop, protocol, sock):
        super().__init__()
        self._loop = loop
        self._protocol = protocol
        self.sock = sock
        self.net = sock.net
        self.host = sock.host
        MemTransport._next_id += 1
        self.cid = self.net._new_cid()
        self._closing = False
        self._conn_lost = False
        self._eof = False
        self.writes = []           # list of (kind, bytes) one per write/writelines call
        self.endpoint = None       # accessory-side handler, set by Net._opened
        self.closed_by = None
        self.lost_delay_ticks = 0   # >0 models a non-empty send buffer: connection_lost arrives later

    # ---- asyncio.Transport API
    def get_extra_info(self, name, default=None):
        if name == "peername":
            return (self.host, self.sock.port)
        return default

    def is_closing(self):
        return self._closing

    def set_protocol(self, protocol):
        self._protocol = protocol

    def get_protocol(self):
        return self._protocol

    def write(self, data):
        if self._eof:
            raise RuntimeError("Cannot call write() after write_eof()")
        if self._conn_lost or self._closing:
            return
        data = bytes(data)
        self.writes.append(("write", data))
        if self.endpoint is not None and data:
            self.endpoint.on_client_data(self, data)

    def writelines(self, list_of_data):
        if self._eof:
            raise RuntimeError("Cannot call writelines() after write_eof()")
        lst = [bytes(x) for x in list_of_data]
        if not lst:
            return
        if self._conn_lost or self._closing:
            return
        data = b"".join(lst)
        self.writes.append(("writelines", data))
        if self.endpoint is not None and data:
            self.endpoint.on_client_data(self, data)

    def write_eof(self):
        if self._closing or self._eof:
            return
        self._eof = True

    def can_write_eof(self):
        return True

    def close(self):
        if self._closing:
            return
        self._closing = True
        self.closed_by = self.closed_by or "client"
        self.net._closed(self)
        self._schedule_lost(None)

    def abort(self):
        self._force_close(None)

    # ---- internals
    def _schedule_lost(self, exc):
        if self._conn_lost:
            return
        self._conn_lost = True
        if self.lost_delay_ticks > 0 and exc is None and self.closed_by == "client":
            self._loop.call_later(self.lost_delay_ticks / TICKS, self._call_connection_lost, exc)
        else:
            self._loop.call_soon(self._call_connection_lost, exc)

    def _call_connection_lost(self, exc):
        self.net._closed(self)      # no-op when already recorded at close() time
        try:
            self._protocol.connection_lost(exc)
        finally:
            self._protocol = None

    def _force_close(self, exc):
        if self._conn_lost:
            return
        self._closing = True
        self.closed_by = self.closed_by or "error"
        self.net._closed(self)
        self._schedule_lost(exc)

    def _fatal_error(self, exc, message):
        if not isinstance(exc, OSError):
            self._loop.call_exception_handler(
                {"message": message, "exception": exc, "transport": self, "protocol": self._protocol})
        self._force_close(exc)

    # ---- peer side (driven by the simulated accessory / the script)
    def peer_send(self, data: bytes):
        """Bytes arrive from the accessory (delivered in the current callback)."""
        if self._conn_lost or self._closing:
            return
        try:
            self._protocol.data_received(bytes(data))
        except (SystemExit, KeyboardInterrupt):
            raise
        except BaseException as exc:  # noqa
            self._fatal_error(exc, "Fatal error: protocol.data_received() call failed.")

    def peer_fin(self):
        """Accessory closes its side gracefully (FIN)."""
        if self._conn_lost or self._closing:
            return
        self.closed_by = self.closed_by or "peer"
        try:
            keep_open = self._protocol.eof_received()
        except (SystemExit, KeyboardInterrupt):
            raise
        except BaseException as exc:  # noqa
            self._fatal_error(exc, "Fatal error: protocol.eof_received() call failed.")
            return
        if not keep_open:
            self.close()

    def peer_reset(self):
        if self._conn_lost:
            return
        self.closed_by = self.closed_by or "peer"
        self._force_close(ConnectionResetError(errno.ECONNRESET, "reset by peer"))


class Net:
    """Scripted network.  `connect_script` yields one entry per start_connection call:
       ("refused",) | ("hang",) | ("connect", index_into_candidates)
    `endpoint_factory(transport)` returns the accessory-side handler for a new connection
    (needs `.on_client_data(transport, data)`)."""

    def __init__(self, loop, connect_script, endpoint_factory=None):
        self.loop = loop
        self.script = list(connect_script)
        self.default = ("refused",)
        self.endpoint_factory = endpoint_factory
        self.trace = []          # (ticks, event, ...)
        self.open = []           # transports currently open (accessory view)
        self.all = []            # every transport ever opened, by cid order
        self._cid = 0
        self.attempts = 0
        self.peer_form = lambda h: h      # how getpeername() spells the address that was dialled

    def _new_cid(self):
        self._cid += 1
        return self._cid

    def log(self, *ev):
        self.trace.append((self.loop.ticks,) + ev)

    def _opened(self, tr):
        self.open.append(tr)
        self.all.append(tr)
        self.log("opened", tr.cid, tr.host)
        if self.endpoint_factory:
            tr.endpoint = self.endpoint_factory(tr)

    def _closed(self, tr):
        if tr in self.open:
            self.open.remove(tr)
            self.log("closed", tr.cid, tr.closed_by)

    async def start_connection(self, addr_infos, *, local_addr_infos=None, happy_eyeballs_delay=None,
                               interleave=None, loop=None):
        cands = [ai[4][0] for ai in addr_infos]
        self.attempts += 1
        entry = self.script.pop(0) if self.script else self.default
        self.log("dial", tuple(cands), entry[0])
        if entry[0] == "refused":
            await asyncio.sleep(0)
            raise OSError(errno.ECONNREFUSED, "Connect call failed")
        if entry[0] == "hang":
            await self.loop.create_future()      # cancelled by the caller's timeout
        if entry[0] == "connect":
            idx = min(entry[1], len(cands) - 1)
            await asyncio.sleep(0)
            return FakeSock(self, self.peer_form(cands[idx]), addr_infos[idx][4][1])
        raise RuntimeError("bad script entry")

    def install(self):
        """Patch the seam used by HomeKitConnection._connect_once; returns an undo function."""
        import aiohappyeyeballs
        orig = aiohappyeyeballs.start_connection
        aiohappyeyeballs.start_connection = self.start_connection

        def undo():
            aiohappyeyeballs.start_connection = orig
        return undo


def run(main_factory, timeout_ticks=None):
    """Run `await main_factory(loop)` on a fresh VLoop; returns (result, loop)."""
    loop = VLoop()
    asyncio.set_event_loop(loop)
    try:
        res = loop.run_until_complete(main_factory(loop))
        return res, loop
    finally:
        try:
            pending = [t for t in asyncio.all_tasks(loop) if not t.done()]
            for t in pending:
                t.cancel()
            if pending:
                try:
                    loop.run_until_complete(asyncio.gather(*pending, return_exceptions=True))
                except (Stalled, Livelock):
                    pass
        finally:
            asyncio.set_event_loop(None)
            loop.close()


async def sleep_ticks(n: int):
    await asyncio.sleep(n / TICKS)


# ----------------------------------------------------------------------------------------------
# self test against the real selector loop (contract points the models rely on)
# ----------------------------------------------------------------------------------------------
def selftest():
    """Returns a list of (name, ok) comparing MemTransport with a real socketpair transport."""
    results = []

    class P(asyncio.Protocol):
        def __init__(self, raise_on_data=False, eof_ret=False):
            self.ev, self.raise_on_data, self.eof_ret = [], raise_on_data, eof_ret

        def connection_made(self, t):
            self.ev.append("made")
            self.t = t

        def data_received(self, d):
            self.ev.append(("data", bytes(d)))
            if self.raise_on_data:
                raise RuntimeError("boom")

        def eof_received(self):
            self.ev.append("eof")
            return self.eof_ret

        def connection_lost(self, exc):
            self.ev.append(("lost", type(exc).__name__ if exc else None))

    def real(scenario, **pk):
        async def main():
            loop = asyncio.get_running_loop()
            loop.set_exception_handler(lambda l, c: None)
            a, b = socket.socketpair()
            a.setblocking(False)
            p = P(**pk)
            tr, _ = await loop.create_connection(lambda: p, sock=a)
            if scenario == "data_raises":
                b.send(b"x")
            elif scenario == "peer_fin":
                b.shutdown(socket.SHUT_WR)
            elif scenario == "close_twice":
                tr.close()
                tr.close()
            elif scenario == "write_after_close":
                tr.close()
                tr.write(b"zz")
            for _ in range(20):
                await asyncio.sleep(0.005)
            closing = tr.is_closing()
            b.close()
            return p.ev, closing
        return asyncio.run(main())

    def virt(scenario, **pk):
        async def main(loop):
            net = Net(loop, [("connect", 0)])
            sock = await net.start_connection([(socket.AF_INET, 0, 0, "h", ("1.2.3.4", 80))])
            p = P(**pk)
            tr, _ = await loop.create_connection(lambda: p, sock=sock)
            if scenario == "data_raises":
                tr.peer_send(b"x")
            elif scenario == "peer_fin":
                tr.peer_fin()
            elif scenario == "close_twice":
                tr.close()
                tr.close()
            elif scenario == "write_after_close":
                tr.close()
                tr.write(b"zz")
            for _ in range(5):
                await asyncio.sleep(0.005)
            return p.ev, tr.is_closing()
        return run(main)[0]

    for sc, pk in [("data_raises", dict(raise_on_data=True)), ("peer_fin", {}), ("peer_fin", dict(eof_ret=True)),
                   ("close_twice", {}), ("write_after_close", {})]:
        r, v = real(sc, **pk), virt(sc, **pk)
        results.append((f"{sc}{pk}", r == v, r, v))
    return results


if __name__ == "__main__":
    for row in selftest():
        print(row)
