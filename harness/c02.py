"""C02 correspondence: aiohomekit.crypto.srp (SrpClient) vs Model/Srp.v vs an independent accessory.

Three parties on every generated exchange (user name, setup code, salt, ephemerals a and b):
  * the implementation: the real SrpClient (ephemeral fixed by patching generate_private_key) and the
    real perform_pair_setup_part2 generator (byte-level use of the client in pair-setup);
  * the model: Model/Srp.v instantiated with the Gallina SHA-512 and the BigN modexp (Model/SrpBig.v,
    proved equal to the Z model), evaluated by `vm_compute` in generated files (common.coq_eval);
  * the oracle: harness/ref/srp_ref.py, an accessory written from RFC 5054 + the HAP rules.
Streams: constants, SHA-512 (model vs hashlib vs Srp.digest), to_byte_array / pad_left, exchanges
(directed search for leading-zero A, B, S, K, M1, M2, zero salts; wrong setup code; malformed input), session sequences
(exchanges one after the other in this process), live objects (stream `concurrent`: several SrpClient objects, pair-setup
generators and a SrpServer alive at the same time, their calls interleaved; model Model/SrpSession.v), SrpServer.
"""
from __future__ import annotations

import ast
import collections
import concurrent.futures
import hashlib
import json
import os
import re
import subprocess
import sys
import threading
import time
from unittest import mock

from common import Coverage, coq_eval, rng, violation
from ref import pairsetup_ref as PS
from ref import srp_ref as R

USER = "Pair-Setup"
# exchanges run on a thread pool (the model evaluations are subprocesses); fixing the ephemeral patches a class
# attribute, i.e. global state, so every use of the seam is serialised
SEAM_LOCK = threading.Lock()
PRE = "From Coq Require Import List NArith ZArith.\nFrom AHK Require Import %s.\nImport ListNotations.\n" \
      "Open Scope N_scope.\nSet Printing Depth 1000000.\nSet Printing Width 200.\n"


# ---------------------------------------------------------------- model side (vm_compute in generated files)
def lit(b) -> str:
    b = bytes(b)
    return f"({len(b)}, 0x{b.hex() or '0'})"


def parse_evals(out: str):
    """All `= value : type` answers of a coqc run, as Python lists/ints."""
    res = []
    for m in re.finditer(r"^\s*=\s(.*?)^\s*:\s", out, re.S | re.M):
        txt = m.group(1).replace("%N", "").replace(";", ",")
        res.append(ast.literal_eval(" ".join(txt.split())))
    return res


def model_eval(ctx, name, exprs, timeout=1200, big=False, session=False):
    body = PRE % ("Model.SrpCases Model.SrpBig Model.SrpSession Model.SrpSessionBig" if session else "Model.SrpBig" if big else "Model.SrpCases") + "".join(f"Eval vm_compute in ({e}).\n" for e in exprs)
    name = re.sub(r"[^A-Za-z0-9_]", "_", name)
    out = coq_eval(ctx["verif"], "C02", f"{name}_{os.getpid()}", body, timeout=timeout)
    res = parse_evals(out)
    if len(res) != len(exprs):
        raise RuntimeError(f"model evaluation {name}: {len(res)} answers for {len(exprs)} requests: {out[-800:]}")
    return res


def pool_map(fn, items, workers):
    if not items:
        return []
    with concurrent.futures.ThreadPoolExecutor(max(1, min(workers, len(items)))) as ex:
        return list(ex.map(fn, items))


# ---------------------------------------------------------------- implementation side
def exc_class(e):
    return "crash" if isinstance(e, (ValueError, OverflowError)) else "other:" + type(e).__name__


class OsShim:
    """Stands for the name `os` inside aiohomekit.crypto.srp: urandom() hands out the queued byte strings, everything
    else is the real os module.  The code under test keeps its own generate_private_key / _create_salt_bytes."""

    def __init__(self, queue):
        self.queue, self.calls = list(queue), []

    def urandom(self, n):
        self.calls.append(n)
        if not self.queue or len(self.queue[0]) != n:
            raise RuntimeError("seam: unexpected os.urandom request")
        return self.queue.pop(0)

    def __getattr__(self, name):
        return getattr(os, name)


SEAM_USED = collections.Counter()


def rng_draws(a: int):
    """The scripted os.urandom(16) sequence of a client session: the first draw is the case's ephemeral a; later draws (a client
    that re-rolls its ephemeral gets different bytes each time, as from a real RNG) are derived from it deterministically."""
    out, x = [a], a
    for _ in range(3):
        x = (x * 0x5DEECE66D + 0x9E3779B97F4A7C15F39CC0605CEDC835) % (1 << 128)
        out.append(x)
    return out


def impl_new_client(code: str, a: int):
    """SrpClient(USER, code) whose ephemeral is a (through os.urandom when the code still draws it there)."""
    import aiohomekit.crypto.srp as srp
    c = None
    if 0 <= a < 1 << 128 and getattr(srp, "os", None) is not None:
        shim = OsShim([x.to_bytes(16, "big") for x in rng_draws(a)])
        try:
            with SEAM_LOCK, mock.patch.object(srp, "os", shim):
                c = srp.SrpClient(USER, code)
            if not shim.calls:
                c = None
            elif len(shim.calls) > 1:
                SEAM_USED["client:extra-urandom-draws"] += 1
        except RuntimeError:
            c = None
    if c is None:        # the ephemeral is not drawn through os.urandom(16) (any more): fix it one level up
        SEAM_USED["client:generate_private_key"] += 1
        with SEAM_LOCK, mock.patch.object(srp.SrpClient, "generate_private_key", staticmethod(lambda: a)):
            c = srp.SrpClient(USER, code)
    else:
        SEAM_USED["client:os.urandom"] += 1
    return c


def impl_client(code: str, a: int, salt: bytes, B_b: bytes):
    c = impl_new_client(code, a)
    c.set_salt(bytearray(salt))
    c.set_server_public_key(bytes(B_b))
    return c


def impl_srpserver(code: str, salt: bytes, b: int, int_path: bool, A_b: bytes, M1s):
    """The real SrpServer with salt and ephemeral fixed through os.urandom; public API only.
    -> dict(status ok|raised|other:X, B_b, K, accepts, M2, M2_int)"""
    import aiohomekit.crypto.srp as srp
    out = dict(status="ok", B_b=b"", K=b"", accepts=[], M2=b"", M2_int=b"")
    try:
        s = None
        if getattr(srp, "os", None) is not None:
            shim = OsShim([bytes(salt), b.to_bytes(16, "big")])
            try:
                with SEAM_LOCK, mock.patch.object(srp, "os", shim):
                    s = srp.SrpServer(USER, code)
                if shim.calls != [16, 16]:
                    s = None
            except RuntimeError:
                s = None
        if s is None:
            SEAM_USED["server:methods"] += 1
            with SEAM_LOCK, mock.patch.object(srp.SrpServer, "_create_salt_bytes", lambda self: bytes(salt)), \
                    mock.patch.object(srp.SrpServer, "generate_private_key", staticmethod(lambda: b)):
                s = srp.SrpServer(USER, code)
        else:
            SEAM_USED["server:os.urandom"] += 1
        out["B_b"] = bytes(s.get_public_key_bytes())
        s.set_client_public_key(int.from_bytes(A_b, "big") if int_path else bytes(A_b))
        out["K"] = bytes(s.get_session_key_bytes())
        out["accepts"] = [1 if s.verify_clients_proof_bytes(bytes(m)) else 0 for m in M1s]
        out["M2"] = bytes(s.get_proof_bytes(bytes(M1s[0])))
        try:
            out["M2_int"] = int(s.get_proof(int.from_bytes(M1s[0], "big"))).to_bytes(64, "big")
        except (ValueError, OverflowError):
            out["M2_int"] = b"raised"
    except (ValueError, OverflowError):
        out = dict(status="raised", B_b=b"", K=b"", accepts=[], M2=b"", M2_int=b"")
    except Exception as e:  # noqa
        out = dict(status="other:" + type(e).__name__, B_b=b"", K=b"", accepts=[], M2=b"", M2_int=b"")
    return out


def impl_run(code, a, salt, B_b, Ms):
    """-> dict(status, A_b, M1, K, accepts) from the public API only."""
    try:
        c = impl_client(code, a, salt, B_b)
        A_b = bytes(c.get_public_key_bytes())
        M1 = bytes(c.get_proof_bytes())
        K = bytes(c.get_session_key_bytes())
        acc = [1 if c.verify_servers_proof_bytes(bytes(m)) else 0 for m in Ms]
        return dict(status="ok", A_b=A_b, M1=M1, K=K, accepts=acc)
    except Exception as e:  # noqa
        return dict(status=exc_class(e), A_b=b"", M1=b"", K=b"", accepts=[])


# optional items a conformant accessory may add to M4: the sealed MFi response of PairSetupWithAuth (kTLVType_EncryptedData,
# which the controller lists among the expected M4 types) and item types the controller does not know
M4_VARIANTS = ["plain", "mfi-encrypted-data", "unknown-item", "mfi-before-proof", "mfi+unknown"]


# M4 replies in which a required item is absent, empty, doubled or contradicted: (shape, must the controller refuse?)
# None = not constrained (recorded only): a missing State item is tolerated by the code on purpose (iOS does too),
# and with two Proof items the conformant reading is not defined when the last one is the right one.
M4_SHAPES = [("no-proof", True), ("no-items", True), ("empty-proof", True), ("empty-proof+mfi", True), ("no-proof+mfi", True),
             ("only-unknown-item", True), ("proof-twice-wrong-last", True), ("proof-twice-both-wrong", True),
             ("no-state-wrong-proof", True), ("wrong-state-correct-proof", True), ("error-item+correct-proof", True),
             ("state-twice-wrong-last", True), ("no-state-correct-proof", None), ("proof-twice-correct-last", None)]


def m4_items(TLV, M2, variant):
    state, proof = (TLV.kTLVType_State, TLV.M4), (TLV.kTLVType_Proof, bytearray(M2))
    mfi = (TLV.kTLVType_EncryptedData, bytearray(b"\x5a" * 48))
    unknown = (0xFE, bytearray(b"\x01\x02\x03"))
    wrong = (TLV.kTLVType_Proof, bytearray(bytes(M2[:-1]) + bytes([M2[-1] ^ 1]) if len(M2) else b"\x01"))
    empty = (TLV.kTLVType_Proof, bytearray())
    return {"plain": [state, proof], "mfi-encrypted-data": [state, proof, mfi], "unknown-item": [state, proof, unknown],
            "mfi-before-proof": [state, mfi, proof], "mfi+unknown": [state, proof, mfi, unknown],
            "no-proof": [state], "no-items": [], "empty-proof": [state, empty], "empty-proof+mfi": [state, empty, mfi],
            "no-proof+mfi": [state, mfi], "only-unknown-item": [unknown],
            "proof-twice-wrong-last": [state, proof, wrong], "proof-twice-both-wrong": [state, wrong, wrong],
            "proof-twice-correct-last": [state, wrong, proof],
            "no-state-wrong-proof": [wrong], "no-state-correct-proof": [proof],
            "wrong-state-correct-proof": [(TLV.kTLVType_State, TLV.M2), proof],
            "state-twice-wrong-last": [state, proof, (TLV.kTLVType_State, TLV.M6)],
            "error-item+correct-proof": [state, (TLV.kTLVType_Error, TLV.kTLVError_Authentication), proof]}[variant]


def impl_pair_setup(code, a, salt, B_b, M2, ref_K=None, variant="plain"):
    """Drive the real pair-setup generator: M3 items, outcome of feeding M4 with M2 and - when the independent accessory's
    64-byte session key ref_K is given and M4 was accepted - M5 opened by that accessory and its M6 fed back.
    -> (public key item, proof item, outcome, later) with later = None or dict(m5_ok, m5_reason, m6)."""
    import aiohomekit.crypto.srp as srp
    from aiohomekit.exceptions import AuthenticationError
    from aiohomekit.protocol import perform_pair_setup_part2
    from aiohomekit.protocol.tlv import TLV
    shim = OsShim([x.to_bytes(16, "big") for x in rng_draws(a)] if 0 <= a < 1 << 128 else [])
    use_os = bool(shim.queue) and getattr(srp, "os", None) is not None and SEAM_USED["client:generate_private_key"] == 0
    with SEAM_LOCK, (mock.patch.object(srp, "os", shim) if use_os else
                     mock.patch.object(srp.SrpClient, "generate_private_key", staticmethod(lambda: a))):
        gen = perform_pair_setup_part2(code, "00000000-0000-0000-0000-000000000000", bytearray(salt), bytearray(B_b))
        req, _expected = next(gen)
    d = dict(req)
    pub, proof = bytes(d[TLV.kTLVType_PublicKey]), bytes(d[TLV.kTLVType_Proof])
    later, m5 = None, None
    try:
        m5 = gen.send(m4_items(TLV, M2, variant))
        outcome = "continues"
    except AuthenticationError:
        outcome = "auth-error"
    except StopIteration:
        outcome = "continues"
    except Exception as e:  # noqa
        outcome = "refused:" + type(e).__name__ if type(e).__module__.startswith("aiohomekit") else "other:" + type(e).__name__
    try:
        if ref_K is not None and m5 is not None:
            enc = dict(m5[0]).get(TLV.kTLVType_EncryptedData)
            if enc is None:
                later = dict(m5_ok=False, m5_reason="M5 carries no encrypted data", m6="not-run")
            else:
                ok, reason, _dev_id, _dev_ltpk = PS.open_m5(ref_K, bytes(enc))
                later = dict(m5_ok=ok, m5_reason=reason, m6="not-run")
                m6_enc, acc_ltpk = PS.build_m6(ref_K)
                try:
                    gen.send([(TLV.kTLVType_State, TLV.M6), (TLV.kTLVType_EncryptedData, bytearray(m6_enc))])
                    later["m6"] = "no-result"
                except StopIteration as fin:
                    r = fin.value
                    later["m6"] = "completed" if isinstance(r, dict) and bytes.fromhex(r.get("AccessoryLTPK", "")) == acc_ltpk \
                        else "completed-with-wrong-record"
                except Exception as e:  # noqa
                    later["m6"] = "raised:" + type(e).__name__
    finally:
        gen.close()
    return pub, proof, outcome, later


# ---------------------------------------------------------------- fast search helper (builtin pow; search only)
class Fast:
    def __init__(self, code: bytes, salt: bytes):
        self.code, self.salt = code, salt
        self.x = int.from_bytes(hashlib.sha512(salt + hashlib.sha512(USER.encode() + b":" + code).digest()).digest(), "big")
        self.v = pow(R.G, self.x, R.N)

    def B_b(self, b):
        return R.PAD((R.K_MULT * self.v + pow(R.G, b, R.N)) % R.N)

    def client(self, a, B_b):
        A_b = R.PAD(pow(R.G, a, R.N))
        u = int.from_bytes(hashlib.sha512(A_b + B_b).digest(), "big")
        S = pow((int.from_bytes(B_b, "big") - R.K_MULT * self.v) % R.N, a + u * self.x, R.N)
        K = hashlib.sha512(R.PAD(S)).digest()
        M1 = hashlib.sha512(R.H_GROUP + hashlib.sha512(USER.encode()).digest() + self.salt + A_b + B_b + K).digest()
        M2 = hashlib.sha512(A_b + M1 + K).digest()
        return dict(A_b=A_b, u=u, S_b=R.PAD(S), K=K, M1=M1, M2=M2)


def rand128(r):
    return r.getrandbits(128)


def directed(kind, r, code: bytes, limit=6000):
    """Search (cheaply, in Python) for an exchange of the given kind.  A kind may combine classes with '+': one class on
    the salt (salt-zero, salt-leading-zero, x0; salt-t0 = trailing zero), one on b (B0; Bt0 = B ends in 0x00) and one on a
    (A0, S0, K0, M1-0, M2-0, u0, a-small, a-max; At0, M1-t0, M2-t0 = trailing zero byte).
    Returns (salt, a, b, hit); hit is False if some requested class was not reached within the limit."""
    parts = set(kind.split("+"))
    salt = bytes(r.getrandbits(8) for _ in range(16))
    hit = True
    if "salt-t0" in parts:
        salt = salt[:14] + bytes([salt[14] | 1, 0])
    if "salt-zero" in parts:
        salt = bytes(16)
    elif "salt-leading-zero" in parts:
        k = r.choice([1, 2, 7, 15])
        salt = bytes(k) + bytes([r.randrange(1, 256)]) + salt[k + 1:]
    elif "x0" in parts:
        hit = False
        for _ in range(limit * 4):
            salt = bytes(r.getrandbits(8) for _ in range(16))
            if Fast(code, salt).x >> 504 == 0:
                hit = True
                break
    f = Fast(code, salt)
    a, b = rand128(r), rand128(r)
    if "B0" in parts:
        found = False
        for _ in range(limit):
            b = rand128(r)
            if f.B_b(b)[0] == 0:
                found = True
                break
        hit = hit and found
    if "Bt0" in parts:
        found = False
        for _ in range(limit):
            b = rand128(r)
            if f.B_b(b)[-1] == 0:
                found = True
                break
        hit = hit and found
    on_a = parts & {"S0", "K0", "M1-0", "M2-0", "u0", "M1-t0", "M2-t0"}
    if "A0" in parts:
        found = False
        for _ in range(limit):
            a = rand128(r)
            if pow(R.G, a, R.N) >> (8 * 383) == 0:
                found = True
                break
        hit = hit and found
    elif "At0" in parts:
        found = False
        for _ in range(limit):
            a = rand128(r)
            if pow(R.G, a, R.N) % 256 == 0:
                found = True
                break
        hit = hit and found
    elif on_a:
        which = sorted(on_a)[0]
        key = {"S0": "S_b", "K0": "K", "M1-0": "M1", "M2-0": "M2", "M1-t0": "M1", "M2-t0": "M2"}.get(which)
        pos = -1 if which.endswith("-t0") else 0
        B_b = f.B_b(b)
        found = False
        for _ in range(limit):
            a = rand128(r)
            c = f.client(a, B_b)
            if (which == "u0" and c["u"] >> 504 == 0) or (key and c[key][pos] == 0):
                found = True
                break
        hit = hit and found
    elif "a-small" in parts:
        a = r.choice([0, 1, 2, 255, 256])
    elif "a-max" in parts:
        a = (1 << 128) - 1
    return salt, a, b, hit


def flips(m: bytes):
    out = []
    for i in range(len(m)):
        for bit in range(8):
            x = bytearray(m)
            x[i] ^= 1 << bit
            out.append(bytes(x))
    return out


def candidates(M2: bytes, M1: bytes):
    """(label, bytes, must_accept) - must_accept per the property (None = not constrained: non-64-byte strings)."""
    cs = [("correct", M2, True)]
    cs += [(f"flip{n}", x, False) for n, x in enumerate(flips(M2))]
    cs += [("client-proof-echoed", M1, False), ("all-zero", bytes(64), False),
           ("byte-reversed", M2[::-1], None if M2[::-1] == M2 else False),
           ("zero-prefixed", b"\x00" + M2, None), ("truncated-63", M2[:63], None), ("empty", b"", None),
           ("stripped", M2.lstrip(b"\x00"), None)]
    return cs


# ---------------------------------------------------------------- one exchange through all three parties
def impl_phase(case):
    """Implementation + independent accessory on one exchange (Python only; called serially, in stream order, so that
    the exchanges of a session sequence really follow each other in this process).
    case: dict(kind, code, server_code, salt(hex), a, b, [B_b override hex])."""
    code, scode = case["code"], case["server_code"]
    salt = bytes.fromhex(case["salt"])
    a, b = case["a"], case["b"]
    acc = R.Accessory(scode.encode(), salt, b)
    B_b = bytes.fromhex(case["B_b"]) if case.get("B_b") is not None else acc.B_b
    conformant = case.get("B_b") is None and len(salt) == 16
    first = impl_run(code, a, salt, B_b, [])          # first pass (no candidate proofs yet)
    if first["status"] == "ok" and 0 <= a < 1 << 128:
        # a client may legitimately draw its ephemeral more than once; the values must then be those of the draw whose
        # public key it sends (unchanged code: the first)
        for cand in rng_draws(a):
            if R.PAD(pow(R.G, cand, R.N)) == first["A_b"]:
                a = cand
                break
    if first["status"] == "ok":
        verdict = acc.receive(first["A_b"], first["M1"])
        M2 = verdict["M2"] if verdict["M2"] is not None else bytes(64)
    else:
        verdict, M2 = None, bytes(64)
    cands = candidates(M2, first["M1"] if first["status"] == "ok" else bytes(64))
    Ms = [c[1] for c in cands]
    impl = impl_run(code, a, salt, B_b, Ms) if first["status"] == "ok" else first
    P = dict(case=case, code=code, scode=scode, salt=salt, a=a, b=b, acc=acc, B_b=B_b, conformant=conformant,
             impl=impl, verdict=verdict, M2=M2, cands=cands, Ms=Ms, pair_setup=None, pair_setup_later=None, pair_setup_variants=None,
             pair_setup_shapes=None, pair_setup_error=None,
             want=None)
    if conformant and impl["status"] == "ok":
        P["want"] = R.client_values(code.encode(), salt, a, B_b)
        try:      # byte-level use inside pair-setup (M3 items, M4 verification)
            ref_K = verdict["K"] if (code == scode and verdict["ok"] and impl["K"] == verdict["K"]) else None
            pub, proof, outcome, later = impl_pair_setup(code, a, salt, B_b, M2, ref_K=ref_K)
            bad = bytearray(M2)
            bad[-1] ^= 1
            _p, _q, outcome_bad, _l = impl_pair_setup(code, a, salt, B_b, bytes(bad))
            P["pair_setup"] = (pub, proof, outcome, outcome_bad)
            P["pair_setup_later"] = later
            # the verdict on the accessory's proof must not depend on optional items riding in M4
            wrong = [("last-bit", bytes(bad)), ("first-bit", bytes([M2[0] ^ 0x80]) + M2[1:]), ("client-proof-echoed", impl["M1"]),
                     ("all-zero", bytes(64))]
            # ... and a reply without a (non-empty, single, uncontradicted) proof must never let the controller go on
            # (the full alphabet on the first exchanges of a run, a short one on the others: the verdict is the same function)
            PHASES[0] += 1
            full = PHASES[0] <= 3
            shapes = M4_SHAPES if full else [x for x in M4_SHAPES if x[0] in ("no-proof", "empty-proof", "proof-twice-wrong-last")]
            P["pair_setup_shapes"] = [(shape, must, impl_pair_setup(code, a, salt, B_b, M2, variant=shape)[2]) for shape, must in shapes]
            P["pair_setup_variants"] = []
            for n, variant in enumerate(M4_VARIANTS[1:] if full else M4_VARIANTS[1:2]):
                P["pair_setup_variants"].append((variant, "correct", True, impl_pair_setup(code, a, salt, B_b, M2, variant=variant)[2]))
                for label, m in (wrong if n == 0 else wrong[n % len(wrong):][:2]):
                    P["pair_setup_variants"].append((variant, label, False, impl_pair_setup(code, a, salt, B_b, m, variant=variant)[2]))
        except Exception as e:  # noqa
            P["pair_setup_error"] = f"{type(e).__name__}: {e}"
    return P


def oracle_failures(P):
    """The property judged on the implementation's values by the independent accessory: list of (key, what, extra)."""
    out = []
    if not P["conformant"]:
        return out
    case, impl, verdict, code, scode, M2 = P["case"], P["impl"], P["verdict"], P["code"], P["scode"], P["M2"]
    kind = case["kind"]
    if impl["status"] != "ok":
        return [("exchange:client-raised", f"SrpClient raised ({impl['status']}) on a conformant exchange kind={kind}", {})]
    want = P["want"]
    if impl["A_b"] != want["A_b"]:
        out.append(("exchange:public-key-bytes", f"A_b is not PAD(g^a mod N) (len {len(impl['A_b'])}) kind={kind}",
                    dict(expected_A_b=want["A_b"].hex())))
    if code == scode:
        if not verdict["ok"]:
            out.append(("exchange:proof-rejected-by-accessory",
                        f"conformant accessory rejects the controller's M1 computed from the right setup code (kind={kind})",
                        dict(expected_M1=(verdict["M1_expected"] or b"").hex())))
        if verdict["K"] is not None and impl["K"] != verdict["K"]:
            out.append(("exchange:session-key-differs", f"session key differs from the accessory's K=H(PAD(S)) kind={kind}",
                        dict(expected_K=verdict["K"].hex())))
    else:
        if verdict["ok"]:
            out.append(("exchange:wrong-code-accepted", "accessory accepted a proof computed from a different setup code", {}))
        # the controller's own values are still the SRP-6a values for the code that was typed
        if impl["K"] != want["K"] or impl["M1"] != want["M1"]:
            out.append(("exchange:client-values", f"K/M1 are not the SRP-6a values for the typed (wrong) setup code kind={kind}",
                        dict(expected_K=want["K"].hex(), expected_M1=want["M1"].hex())))
    for (label, m, must), got in zip(P["cands"], impl["accepts"]):      # acceptance of the accessory's proof: iff correct
        if must is None:
            continue
        if code != scode and label == "correct":
            # the accessory would not send M2; it is the correct proof for the client only if the keys agree
            must = (impl["K"] == verdict["K"])
        if bool(got) != must:
            if must:
                out.append(("exchange:correct-proof-rejected", f"client rejects the accessory's correct M2 kind={kind}", dict(M2=m.hex())))
            else:
                out.append(("exchange:corrupted-proof-accepted", f"client accepts a wrong accessory proof ({label}) kind={kind}",
                            dict(M2=M2.hex(), offered=m.hex())))
            break
    if P["pair_setup"] is not None:
        pub, proof, outcome, outcome_bad = P["pair_setup"]
        if pub != want["A_b"] or (code == scode and proof != verdict["M1_expected"]):
            out.append(("pair-setup:m3-items", "pair-setup M3 carries a public key/proof different from the conformant values",
                        dict(m3_public_key=pub.hex(), m3_proof=proof.hex())))
        exp_out = "continues" if impl["K"] == verdict["K"] else "auth-error"
        if outcome != exp_out or outcome_bad != "auth-error":
            out.append(("pair-setup:m4-verification", f"pair-setup M4 handling: correct proof -> {outcome}, corrupted -> {outcome_bad}", {}))
    keys_agree = verdict is not None and impl["K"] == verdict["K"]
    for variant, label, is_correct, got in P.get("pair_setup_variants") or []:
        exp = "continues" if (is_correct and keys_agree) else "auth-error"
        if got != exp:
            out.append(("pair-setup:m4-optional-items", f"pair-setup M4 carrying optional items ({variant}): "
                        f"{'correct' if is_correct else 'incorrect (' + label + ')'} accessory proof -> {got}, must be {exp} kind={kind}",
                        dict(m4_variant=variant, offered_proof=label, M2=M2.hex())))
            break
    for shape, must_refuse, got in P.get("pair_setup_shapes") or []:
        if must_refuse and got == "continues":
            out.append(("pair-setup:m4-item-shape", f"pair-setup M4 reply of shape '{shape}' (no valid accessory proof in it): the controller "
                        f"goes on to M5, it must refuse kind={kind}", dict(m4_shape=shape, M2=M2.hex())))
            break
    later = P.get("pair_setup_later")
    if later is not None:
        # SrpClient's K equals the accessory's 64-byte K here; pair-setup must key M5/M6 with exactly those bytes
        k0 = " (K starts with 0x00)" if impl["K"][:1] == b"\x00" else ""
        if not later["m5_ok"]:
            out.append(("pair-setup:m5-session-key", f"a conformant accessory holding the same 64-byte session key cannot accept the "
                        f"controller's M5{k0}: {later['m5_reason']} kind={kind}", dict(accessory_K=verdict["K"].hex())))
        elif later["m6"] != "completed":
            out.append(("pair-setup:m6-session-key", f"the controller does not accept the conformant accessory's M6 keyed by the same "
                        f"64-byte session key{k0}: {later['m6']} kind={kind}", dict(accessory_K=verdict["K"].hex())))
    return out


def model_exprs(P):
    case, impl = P["case"], P["impl"]
    exprs = [f"client_case {lit(USER.encode())} {lit(P['code'].encode())} {lit(P['salt'])} {P['a']} {lit(P['B_b'])} "
             f"[{'; '.join(lit(m) for m in P['Ms'])}]"]
    if impl["status"] == "ok":
        exprs.append(f"server_case {lit(USER.encode())} {lit(P['scode'].encode())} {lit(P['salt'])} {P['b']} {lit(impl['A_b'])} {lit(impl['M1'])}")
    return exprs


PHASES = [0]               # conformant exchanges driven through pair-setup so far in this process
FRESH_BUDGET = [8]      # at most this many fresh-process re-runs per check (each ~1 s)


def fresh_process_failures(ctx, case):
    """Oracle failure keys of the same single exchange in a brand-new interpreter (no history), or None if that could not be run."""
    if FRESH_BUDGET[0] <= 0:
        return None
    FRESH_BUDGET[0] -= 1
    prog = ("import sys, json; sys.path.insert(0, sys.argv[1]); sys.path.insert(0, sys.argv[2]); import c02; "
            "P = c02.impl_phase(json.loads(sys.argv[3])); print('FRESH ' + json.dumps([k for k, _w, _e in c02.oracle_failures(P)]))")
    try:
        p = subprocess.run([sys.executable, "-B", "-c", prog, ctx["repo"], os.path.join(ctx["verif"], "harness"), json.dumps(case)],
                           stdout=subprocess.PIPE, stderr=subprocess.PIPE, text=True, timeout=120)
        for line in p.stdout.splitlines():
            if line.startswith("FRESH "):
                return json.loads(line[6:])
    except Exception:  # noqa
        pass
    return None


def judge(ctx, P, mres, seq=None):
    """Compare implementation, model and oracle on one exchange.  seq = (sequence name, index, history of earlier steps)."""
    case, impl, verdict, M2 = P["case"], P["impl"], P["verdict"], P["M2"]
    res = dict(case=case, viol=[], impl_status=impl["status"], seq=seq[0] if seq else None)
    if mres is None:          # oracle-only exchange (no model evaluation): implementation judged by the reference accessory
        model = dict(impl)
        mres = []
    elif mres[0][0] == [1]:
        mc = mres[0]
        model = dict(status="ok", A_b=bytes(mc[1]), M1=bytes(mc[2]), K=bytes(mc[3]), accepts=list(mc[5]))
    else:
        model = dict(status="crash", A_b=b"", M1=b"", K=b"", accepts=[])
    res["impl"] = {k: (v.hex() if isinstance(v, bytes) else v) for k, v in impl.items() if k != "accepts"}
    res["model"] = {k: (v.hex() if isinstance(v, bytes) else v) for k, v in model.items() if k != "accepts"}
    payload = dict(case=case, impl=res["impl"], model=res["model"], rng_draws=[str(x) for x in rng_draws(case["a"])][:2])
    if seq:
        payload["sequence"] = dict(name=seq[0], failing_step=seq[1], steps_so_far=seq[2] + [case])

    def V(key, what, found, **extra):
        res["viol"].append(violation(key, what, found, **payload, **extra))

    # ---- property oracle on the implementation (independent accessory)
    fails = oracle_failures(P)
    prop_broken = bool(fails)
    if fails:
        # does the very same exchange pass in an interpreter without history?  then earlier sessions leaked into this one
        fresh = fresh_process_failures(ctx, case)
        if fresh is not None and not fresh:
            hist = (f"step {seq[1]} of session sequence '{seq[0]}'" if seq else "an exchange run after other exchanges in this process")
            V("sequence:state-leak", f"{hist}: the controller's values depend on earlier SrpClient sessions in the same process "
              f"(the same exchange alone in a fresh interpreter is conformant); here: " + "; ".join(w for _k, w, _e in fails)[:400], True,
              failures=[k for k, _w, _e in fails], fresh_process_failures=fresh,
              expected_K=(P["want"] or {}).get("K", b"").hex(), expected_M1=(P["want"] or {}).get("M1", b"").hex())
        else:
            for key, what, extra in fails:
                V(key, what + (f" [sequence {seq[0]} step {seq[1]}]" if seq else ""), True, **extra)
    if P["pair_setup_error"]:
        V("pair-setup:harness", f"could not drive perform_pair_setup_part2: {P['pair_setup_error']}", False)
    if P["pair_setup"] is not None:
        res["pair_setup"] = [P["pair_setup"][2], P["pair_setup"][3]] + ([("m5-opened" if P["pair_setup_later"]["m5_ok"] else "m5-refused"),
                                                                       "m6-" + P["pair_setup_later"]["m6"]] if P.get("pair_setup_later") else [])
    # ---- correspondence model <-> implementation (the model is history-free)
    same = (impl["status"] == model["status"] and impl["A_b"] == model["A_b"] and impl["M1"] == model["M1"]
            and impl["K"] == model["K"] and impl["accepts"] == model["accepts"])
    if not same and not prop_broken:
        diff = [k for k in ("status", "A_b", "M1", "K", "accepts") if impl[k] != model[k]]
        V("exchange:model-mismatch" if not seq else "sequence:model-mismatch",
          f"implementation and Model/Srp.v differ on {diff} (kind={case['kind']}); the independent accessory "
          "found no property failure on this input", False, broken="correspondence Model/Srp.v <-> aiohomekit/crypto/srp.py")
    # ---- the model's specification accessory vs the Python reference accessory
    if impl["status"] == "ok" and len(mres) > 1 and len(impl["A_b"]) <= 384 and verdict["K"] is not None:
        ms = mres[1]
        mine = [bytes(ms[0]), bytes(ms[1]), bytes(ms[2]), ms[3][0], bytes(ms[4])]
        ref = [P["acc"].B_b, verdict["K"], verdict["M1_expected"], 1 if verdict["ok"] else 0, verdict["M2"]]
        if mine != ref:
            idx = [i for i in range(5) if mine[i] != ref[i]]
            V("spec-accessory:model-vs-reference", f"Model/Srp.v server_x and harness/ref/srp_ref.py disagree on fields {idx} "
              "(B_b,K,M1,ok,M2)", False)
    if P["conformant"] and P["code"] == P["scode"] and impl["status"] == "ok":
        res["alt_convention_differs"] = (R.skip_zero_variant_accepts(P["scode"].encode(), P["salt"], P["b"], impl["A_b"], impl["M1"])
                                         != verdict["ok"])
    want = P["want"] or {}
    res["flags"] = dict(A0=impl["A_b"][:1] == b"\x00", B0=P["B_b"][:1] == b"\x00", K0=impl["K"][:1] == b"\x00",
                        M1_0=impl["M1"][:1] == b"\x00", M2_0=M2[:1] == b"\x00", salt0=P["salt"][:1] == b"\x00",
                        S0=("S" in want and want["S"] >> (8 * 383) == 0), u0=("u" in want and want["u"] >> 504 == 0),
                        x0=(P["code"] == P["scode"] and P["acc"].x >> 504 == 0),
                        A_t0=impl["A_b"][-1:] == b"\x00", B_t0=P["B_b"][-1:] == b"\x00", salt_t0=P["salt"][-1:] == b"\x00",
                        M1_t0=impl["M1"][-1:] == b"\x00", M2_t0=M2[-1:] == b"\x00")
    return res


# ---------------------------------------------------------------- generators
def _directed_job(args):
    seed, i, kind, code = args
    return directed(kind, rng(seed, f"c02ex/{i}"), code.encode())


def gen_exchanges(tier, seed):
    r = rng(seed, "c02ex")
    # quick: every leading-zero class of the property at least once (A, B, S, K, M1, M2, u, x, zero / leading-zero salt)
    kinds_quick = ["A0", "B0+u0", "S0", "K0", "x0+M2-0", "salt-zero+M1-0"]
    kinds_all = ["A0", "B0", "S0", "K0", "M1-0", "M2-0", "u0", "x0", "salt-zero", "salt-leading-zero", "a-small", "a-max",
                 "plain", "plain", "plain", "plain"]
    # everything that crosses the wire may also END in 0x00 (a strip()/rstrip() somewhere on the path): A, B, salt, M1, M2
    kinds_wire = ["At0", "Bt0", "salt-t0+M1-t0", "Bt0+M2-t0"]
    if tier != "quick":
        kinds_all = kinds_all + kinds_wire + ["salt-t0+Bt0+At0"]
    kinds = kinds_quick if tier == "quick" else [kinds_all[i % len(kinds_all)] for i in range(96)]
    n_model = len(kinds)
    if tier == "quick":
        kinds = kinds + kinds_wire      # quick: these four are judged by the reference accessory only (no model evaluation)
    codes = ["123-45-678", "111-22-333", "031-45-154", "000-00-000", "999-99-999"]
    todo = []
    for i, kind in enumerate(kinds):
        code = r.choice(codes) if i else "123-45-678"
        if tier != "quick" and i % 31 == 30:
            code = "päss-中"        # non-ASCII setup code: UTF-8 bytes
        todo.append((seed, i, kind, code))
    # the directed searches are independent: spread them over processes
    try:
        with concurrent.futures.ProcessPoolExecutor(min(8, len(todo))) as ex:
            found = list(ex.map(_directed_job, todo))
    except Exception:  # noqa  (no fork / pickling trouble: do it inline)
        found = [_directed_job(t) for t in todo]
    cases = []
    for (_, i, kind, code), (salt, a, b, hit) in zip(todo, found):
        if kind.startswith("A0") and i % 2 == 0 and tier == "quick":
            salt = bytes(3) + salt[3:]     # leading-zero salt together with a leading-zero A
        cases.append(dict(id=f"{i}", kind=kind, code=code, server_code=code, salt=salt.hex(), a=a, b=b, hit=hit,
                          **({"oracle_only": True} if i >= n_model else {})))
    # wrong setup code
    n_wrong = 1 if tier == "quick" else 6
    for i in range(n_wrong):
        salt, a, b, _ = directed("plain", r, b"123-45-678")
        cases.append(dict(id=f"w{i}", kind="wrong-code", code="123-45-679" if i % 2 == 0 else "023-45-678",
                          server_code="123-45-678", salt=salt.hex(), a=a, b=b, hit=True))
    # malformed / non-conformant input: the model is the client on its whole domain
    salt, a, b, _ = directed("plain", r, b"123-45-678")
    B_b = R.Accessory(b"123-45-678", salt, b).B_b
    mal = [("short-B", dict(B_b=B_b.lstrip(b"\x00")[1:].hex())),
           ("long-salt", dict(salt=(b"\x01" + salt).hex()))]
    if tier != "quick":
        mal += [("zero-B", dict(B_b=bytes(384).hex())), ("B-ge-N", dict(B_b=(b"\xff" * 384).hex())),
                ("short-salt", dict(salt=salt[:8].hex())), ("zero-prefixed-salt", dict(salt=(b"\x00" + salt).hex())),
                ("empty-salt", dict(salt="")), ("B-385-bytes", dict(B_b=(b"\x00" + B_b).hex()))]
    for name, over in mal:
        c = dict(id="m" + name, kind="malformed:" + name, code="123-45-678", server_code="123-45-678", salt=salt.hex(), a=a, b=b,
                 hit=True, B_b=over.get("B_b", B_b.hex()))
        c.update(over)
        cases.append(c)
    return cases


def wrong_of(code: str) -> str:
    """A mistyped setup code: one digit changed."""
    for i, ch in enumerate(code):
        if ch.isdigit():
            return code[:i] + str((int(ch) + 1) % 10) + code[i + 1:]
    return code + "x"


def gen_sequences(tier, seed, cases):
    """Session sequences: several SrpClient exchanges one after the other in this process, sharing the salt (an accessory
    keeps its provisioned salt), the setup code, the ephemeral, or everything.  The model is history-free, so every step
    is judged exactly like a single exchange.  Quick reuses exchanges of the directed stream wherever the inputs repeat
    (their model evaluation is shared); only three steps need a new evaluation."""
    r = rng(seed, "c02seq")
    by = {c["id"]: c for c in cases}

    def step(sid, kind, code, scode, salt_hex, a=None, b=None):
        return dict(id=sid, kind=kind, code=code, server_code=scode, salt=salt_hex,
                    a=rand128(r) if a is None else a, b=rand128(r) if b is None else b, hit=True)

    def fresh_salt():
        return bytes(r.getrandbits(8) for _ in range(16)).hex()
    seqs = []
    w0, c0, c5 = by.get("w0"), by.get("0"), by.get("5")
    right = None
    if w0 and c0:
        # mistyped code, then the right one: same salt, new b; the ephemeral of exchange 0 is used again
        right = step("sA1", "seq:right-after-wrong", w0["server_code"], w0["server_code"], w0["salt"], a=c0["a"])
        seqs.append(dict(name="wrong-then-right", steps=[w0, right]))
    if c5:
        wrong = step("sB1", "seq:wrong-after-right", wrong_of(c5["code"]), c5["code"], c5["salt"])
        again = step("sB2", "seq:right-after-wrong", c5["code"], c5["code"], c5["salt"], a=c5["a"])
        seqs.append(dict(name="right-wrong-right", steps=[c5, wrong, again]))
    if c0:
        seqs.append(dict(name="identical-repeat-then-same-code-other-salt", steps=[c0, c0] + ([right] if right else [])))
    if tier != "quick":
        codes = ["123-45-678", "031-45-154", "518-08-582"]
        for n in range(3):
            code, salt = codes[n], fresh_salt()
            seqs.append(dict(name=f"wrong-then-right-{n}", steps=[
                step(f"sC{n}a", "seq:wrong-first", wrong_of(code), code, salt),
                step(f"sC{n}b", "seq:right-after-wrong", code, code, salt)]))
        for n in range(2):
            code, salt = codes[n], fresh_salt()
            a = rand128(r)
            seqs.append(dict(name=f"right-wrong-right-{n}", steps=[
                step(f"sD{n}a", "seq:right-first", code, code, salt, a=a),
                step(f"sD{n}b", "seq:wrong-after-right", wrong_of(code), code, salt),
                step(f"sD{n}c", "seq:right-after-wrong", code, code, salt, a=a)]))
        code, salt = "777-66-555", fresh_salt()
        last = step("sE3", "seq:right-after-two-wrong", code, code, salt)
        seqs.append(dict(name="wrong-wrong-right-right", steps=[
            step("sE1", "seq:wrong-first", wrong_of(code), code, salt), step("sE2", "seq:wrong-second", "000-00-000", code, salt),
            last, last]))
        code = "246-80-135"
        seqs.append(dict(name="same-code-three-salts", steps=[step(f"sF{n}", "seq:same-code-other-salt", code, code, fresh_salt())
                                                              for n in range(3)]))
        a, b = rand128(r), rand128(r)
        seqs.append(dict(name="same-ephemerals-other-code-and-salt", steps=[
            step(f"sG{n}", "seq:same-ephemerals", codes[n], codes[n], fresh_salt(), a=a, b=b) for n in range(3)]))
        # more salts than any small cache would hold, then back to the first accessory with a different code
        code, salt = "135-79-246", fresh_salt()
        steps = [step("sH0", "seq:right-first", code, code, salt)]
        steps += [step(f"sH{n}", "seq:other-accessory", codes[n % 3], codes[n % 3], fresh_salt()) for n in range(1, 10)]
        steps += [step("sH10", "seq:wrong-after-many", wrong_of(code), code, salt), step("sH11", "seq:right-after-many", code, code, salt)]
        seqs.append(dict(name="many-accessories-then-back", steps=steps))
    return seqs


# ---------------------------------------------------------------- live objects: several exchanges in flight in ONE process
# (added after the round-8 seeded change C02-O, a class-level memo shared by every Srp object: no earlier stream ever had two
# SrpClient objects alive at the same time).  A scenario is a list of objects (SrpClient through its public API; the real
# perform_pair_setup_part2 generator, which holds its own SrpClient between M3 and M4; a SrpServer as a bystander) and a
# schedule of (object, call) pairs.  Model: Model/SrpSession.v (hap_run; theorems srp_session_isolation,
# srp_concurrent_exchanges).  Oracle: every object used in protocol order must show the values of ITS exchange as the
# reference accessory computes them, whatever the other objects do in between.
def conc_class(e):
    if isinstance(e, (ValueError, OverflowError)):
        return "raised:value"
    if isinstance(e, (RuntimeError, AttributeError, TypeError)):
        return "raised:state"
    return "other:" + type(e).__name__


class LivePairSetup:
    """One perform_pair_setup_part2 generator kept alive between M3 and M4 (and on to M5/M6)."""

    def __init__(self, o):
        self.o, self.gen = o, None

    def start(self):
        import aiohomekit.crypto.srp as srp
        from aiohomekit.protocol import perform_pair_setup_part2
        from aiohomekit.protocol.tlv import TLV
        o = self.o
        a = o["a"]
        shim = OsShim([x.to_bytes(16, "big") for x in rng_draws(a)] if 0 <= a < 1 << 128 else [])
        use_os = bool(shim.queue) and getattr(srp, "os", None) is not None and SEAM_USED["client:generate_private_key"] == 0
        with SEAM_LOCK, (mock.patch.object(srp, "os", shim) if use_os else
                         mock.patch.object(srp.SrpClient, "generate_private_key", staticmethod(lambda: a))):
            self.gen = perform_pair_setup_part2(o["code"], "00000000-0000-0000-0000-00000000000%d" % (o.get("n", 0) % 10),
                                                bytearray(bytes.fromhex(o["salt"])), bytearray(bytes.fromhex(o["B_b"])))
            req, _expected = next(self.gen)
        d = dict(req)
        return bytes(d[TLV.kTLVType_PublicKey]) + bytes(d[TLV.kTLVType_Proof])

    def m4(self, M2, ref_K):
        from aiohomekit.exceptions import AuthenticationError
        from aiohomekit.protocol.tlv import TLV
        try:
            m5 = self.gen.send([(TLV.kTLVType_State, TLV.M4), (TLV.kTLVType_Proof, bytearray(M2))])
        except AuthenticationError:
            return "auth-error"
        except StopIteration:
            return "continues:no-m5"
        enc = dict(m5[0]).get(TLV.kTLVType_EncryptedData)
        if enc is None:
            return "continues:m5-without-data"
        ok, _reason, _i, _k = PS.open_m5(ref_K, bytes(enc))
        if not ok:
            return "continues:m5-refused-by-accessory"
        m6_enc, acc_ltpk = PS.build_m6(ref_K)
        try:
            self.gen.send([(TLV.kTLVType_State, TLV.M6), (TLV.kTLVType_EncryptedData, bytearray(m6_enc))])
            return "continues:m6-no-result"
        except StopIteration as fin:
            r = fin.value
            good = isinstance(r, dict) and bytes.fromhex(r.get("AccessoryLTPK", "")) == acc_ltpk
            return "continues:completed" if good else "continues:m6-wrong-record"
        except Exception as e:  # noqa
            return "continues:m6-raised:" + type(e).__name__

    def close(self):
        if self.gen is not None:
            self.gen.close()


def conc_exec(sc, only=None):
    """Run the schedule on the implementation (only = index of the single object whose calls are executed).
    -> one canonical observation per executed step."""
    import aiohomekit.crypto.srp as srp
    live, obs = {}, []
    try:
        for st in sc["schedule"]:
            i, op = st["obj"], st["op"]
            if only is not None and i != only:
                continue
            o = sc["objects"][i]
            arg = bytes.fromhex(st["arg"]) if st.get("arg") is not None else None
            c = live.get(i)
            try:
                if op == "new":
                    live[i] = impl_new_client(o["code"], o["a"])
                    r = "done"
                elif op == "salt":
                    c.set_salt(bytearray(arg))
                    r = "done"
                elif op == "B":
                    c.set_server_public_key(bytes(arg))
                    r = "done"
                elif op == "A":
                    r = "bytes:" + bytes(c.get_public_key_bytes()).hex()
                elif op == "M1":
                    r = "bytes:" + bytes(c.get_proof_bytes()).hex()
                elif op == "K":
                    r = "bytes:" + bytes(c.get_session_key_bytes()).hex()
                elif op == "verify":
                    r = "bool:%d" % (1 if c.verify_servers_proof_bytes(bytes(arg)) else 0)
                elif op == "ps-start":
                    live[i] = LivePairSetup(dict(o, n=i))
                    r = "bytes:" + live[i].start().hex()
                elif op == "ps-m4":
                    r = c.m4(arg, bytes.fromhex(o["K"]))
                elif op == "srv-new":
                    shim = OsShim([bytes.fromhex(o["salt"]), o["b"].to_bytes(16, "big")])
                    with SEAM_LOCK, mock.patch.object(srp, "os", shim):
                        live[i] = srp.SrpServer(USER, o["code"])
                    r = "bytes:" + bytes(live[i].get_public_key_bytes()).hex()
                elif op == "srv-setA":
                    c.set_client_public_key(bytes(arg))
                    r = "done"
                elif op == "srv-K":
                    r = "bytes:" + bytes(c.get_session_key_bytes()).hex()
                elif op == "srv-verify":
                    r = "bool:%d" % (1 if c.verify_clients_proof_bytes(bytes(arg)) else 0)
                else:
                    raise KeyError("harness: unknown op " + op)
            except KeyError:
                raise
            except Exception as e:  # noqa
                r = conc_class(e)
            obs.append(r)
    finally:
        for c in live.values():
            if isinstance(c, LivePairSetup):
                c.close()
    return obs


def conc_expected(sc):
    """Oracle: per step the observation the property demands, or None where it does not constrain the call (an object used
    outside protocol order or re-keyed for a second exchange; plain setters)."""
    stage = {}
    exp = []
    for st in sc["schedule"]:
        i, op, arg = st["obj"], st["op"], st.get("arg")
        o = sc["objects"][i]
        s = stage.get(i, 0)
        e = None
        if o["kind"] == "client":
            if op == "new":
                s = 1 if s == 0 else -1
                e = "done"
            elif op == "salt":
                s = 2 if (s == 1 and arg == o["salt"]) else -1
                e = "done" if s == 2 else None
            elif op == "B":
                s = 3 if (s == 2 and arg == o["B_b"]) else -1
                e = "done" if s == 3 else None
            elif op == "A" and s != 0:
                e = "bytes:" + o["A_b"]          # the public value depends on the ephemeral only
            elif s == 3:
                e = {"M1": "bytes:" + o["M1"], "K": "bytes:" + o["K"]}.get(op) or ("bool:%d" % (1 if arg == o["M2"] else 0))
        elif o["kind"] == "pairsetup":
            if op == "ps-start":
                e = "bytes:" + o["A_b"] + o["M1"]
            elif op == "ps-m4":
                e = "continues:completed" if arg == o["M2"] else "auth-error"
        elif o["kind"] == "server":
            if op == "srv-new":
                e = "bytes:" + o["B_b"]
            elif op == "srv-setA":
                e = "done"
            elif op == "srv-K":
                e = "bytes:" + o["srv_K"]
            elif op == "srv-verify":
                e = "bool:%d" % (1 if arg == o["srv_M1"] else 0)
        stage[i] = s
        exp.append(e)
    return exp


def conc_model_expr(sc):
    """The schedule restricted to the SrpClient objects, as a Gallina term for session_case (the other kinds are other
    objects; srp_session_isolation says they cannot matter)."""
    evs = []
    for st in sc["schedule"]:
        o = sc["objects"][st["obj"]]
        if o["kind"] != "client":
            continue
        op, arg = st["op"], st.get("arg")
        b = (lambda h: f"(bs {lit(bytes.fromhex(h))})")
        ev = {"new": lambda: f"ENew (bs {lit(USER.encode())}) (bs {lit(o['code'].encode())}) {o['a']}%Z",
              "salt": lambda: f"ESalt {b(arg)}", "B": lambda: f"EB {b(arg)}", "A": lambda: "EGetA", "M1": lambda: "EGetM1",
              "K": lambda: "EGetK", "verify": lambda: f"EVerify {b(arg)}"}[op]()
        evs.append(f"({st['obj']}%nat, {ev})")
    return "session_case [" + "; ".join(evs) + "]"


def conc_model_decode(rows):
    out = []
    for row in rows:
        tag, rest = row[0], row[1:]
        out.append({1000: "done", 1003: "raised:value", 1004: "raised:state"}.get(tag) or
                   ("bytes:" + bytes(rest).hex() if tag == 1001 else "bool:%d" % rest[0] if tag == 1002 else f"?{tag}"))
    return out


def conc_object(kind, ex, n=0):
    """Object description from an exchange (code, salt, a, b): the reference accessory's and controller's values."""
    code, salt, a, b = ex["code"], bytes.fromhex(ex["salt"]), ex["a"], ex["b"]
    acc = R.Accessory(code.encode(), salt, b)
    want = R.client_values(code.encode(), salt, a, acc.B_b)
    o = dict(kind=kind, code=code, salt=ex["salt"], a=a, b=b, B_b=acc.B_b.hex(), A_b=want["A_b"].hex(), M1=want["M1"].hex(),
             K=want["K"].hex(), M2=want["M2"].hex(), exchange=ex.get("kind", "?"))
    if kind == "server":          # the accessory-side class of the same module, fed this exchange's client values
        v = acc.receive(want["A_b"], want["M1"])
        o.update(srv_K=v["K"].hex(), srv_M1=v["M1_expected"].hex())
    return o


def conc_phases(i, o, others, order):
    """(what the object does before its M3 is out, what it does when M4 arrives) as schedule steps."""
    def st(op, arg=None):
        return dict(obj=i, op=op, arg=arg)
    flip = bytearray(bytes.fromhex(o["M2"]))
    flip[17] ^= 0x04
    cross = [x["M2"] for x in others if x["M2"] != o["M2"]][:1]
    if o["kind"] == "client":
        p1 = [st("new"), st("salt", o["salt"]), st("B", o["B_b"])]
        g1 = {"m1-first": [st("A"), st("M1")], "k-first": [st("K"), st("A")], "verify-first": []}[order]
        p2 = [st("verify", o["M2"]), st("K"), st("M1"), st("verify", flip.hex())] + [st("verify", m) for m in cross] + \
             [st("A"), st("verify", o["M2"])]
        return p1 + g1, p2
    if o["kind"] == "pairsetup":
        return [st("ps-start")], [st("ps-m4", o["M2"] if order != "verify-first" else flip.hex())]
    return [st("srv-new"), st("srv-setA", o["A_b"])], [st("srv-K"), st("srv-verify", o["srv_M1"]), st("srv-verify", o["M1"][:-2] + "00")]


def conc_schedule(template, phases, r):
    n = len(phases)
    if template == "m3-then-m4":            # every exchange sends M3, then the M4 answers arrive in the same order
        return [s for p1, _ in phases for s in p1] + [s for _, p2 in phases for s in p2]
    if template == "reverse-finish":        # ... or in the opposite order
        return [s for p1, _ in phases for s in p1] + [s for _, p2 in reversed(phases) for s in p2]
    if template == "nested":                # the first exchange waits for M4 while the others run from start to end
        return phases[0][0] + [s for p1, p2 in phases[1:] for s in p1 + p2] + phases[0][1]
    lists = [list(p1 + p2) for p1, p2 in phases]
    out = []
    if template == "lockstep":              # call by call, round robin
        while any(lists):
            for l in lists:
                if l:
                    out.append(l.pop(0))
        return out
    while any(lists):                       # "random": any interleaving that keeps every object's own order
        l = r.choice([l for l in lists if l])
        out.append(l.pop(0))
    return out


def gen_concurrent(tier, seed, cases):
    r = rng(seed, "c02conc")
    pool = [c for c in cases if c.get("B_b") is None and c["code"] == c["server_code"] and len(c["salt"]) == 32
            and 0 <= c["a"] < 1 << 128 and not c.get("oracle_only")]
    if len(pool) < 2:
        return []
    ex = lambda k: pool[k % len(pool)]

    def other_ab(c, k):          # the same accessory code and salt, other ephemerals: a second controller / a retry in flight
        return dict(c, a=(c["a"] * 31 + 0x1F2E3D4C5B6A7988 + k) % (1 << 128), b=(c["b"] * 17 + 0x0102030405060708 + k) % (1 << 128),
                    kind="same-code-and-salt")
    plans = [  # (name, [(kind, exchange)], template, getter order, model?)
        ("two-clients", [("client", ex(0)), ("client", ex(1))], "m3-then-m4", "m1-first", True),
        ("two-clients-k-first", [("client", ex(2)), ("client", ex(3))], "lockstep", "k-first", True),
        ("client+pairsetup+srpserver", [("client", ex(4)), ("pairsetup", ex(5)), ("server", ex(0))], "nested", "m1-first", False),
        ("three-pairsetups", [("pairsetup", ex(0)), ("pairsetup", ex(5)), ("pairsetup", ex(1))], "reverse-finish", "m1-first", False),
        ("same-accessory-twice", [("client", ex(0)), ("client", other_ab(ex(0), 1)), ("pairsetup", ex(3))], "reverse-finish",
         "verify-first", False),
    ]
    if tier != "quick":
        kinds = ["client", "client", "pairsetup", "client", "server"]
        templates = ["m3-then-m4", "reverse-finish", "nested", "lockstep", "random", "random"]
        orders = ["m1-first", "k-first", "verify-first"]
        for k in range(20):
            n = 2 + k % 4
            objs = [(kinds[(k + j) % len(kinds)] if j else "client", ex(r.randrange(len(pool))) if (k + j) % 5 else other_ab(ex(k), j))
                    for j in range(n)]
            plans.append((f"mix-{k}", objs, templates[k % len(templates)], orders[k % len(orders)], k % 2 == 0))
    out = []
    for name, objs, template, order, with_model in plans:
        objects = [conc_object(kind, c, n) for n, (kind, c) in enumerate(objs)]
        phases = [conc_phases(i, o, [x for j, x in enumerate(objects) if j != i and x["kind"] != "server"], order)
                  for i, o in enumerate(objects)]
        sched = conc_schedule(template, phases, r)
        if with_model and name != "two-clients":
            # afterwards the first client object is re-keyed with the salt and accessory key of the second exchange: outside
            # what C02 constrains (the controller never does it), compared with the model only (Srp._session_key survives)
            o2 = objects[1]
            sched = sched + [dict(obj=0, op="salt", arg=o2["salt"]), dict(obj=0, op="B", arg=o2["B_b"]), dict(obj=0, op="K", arg=None),
                             dict(obj=0, op="M1", arg=None), dict(obj=1, op="K", arg=None), dict(obj=2, op="A", arg=None)]
            objects = objects + ([dict(kind="client", code="-", salt="", a=0, b=0, B_b="", A_b="", M1="", K="", M2="", exchange="never-created")]
                                 if len(objects) == 2 else [])
        out.append(dict(name=name, template=template, getter_order=order, model=with_model, objects=objects, schedule=sched))
    return out


def conc_run(sc):
    """Implementation + oracle for one scenario (serial, in this process)."""
    got = conc_exec(sc)
    exp = conc_expected(sc)
    bad = [k for k, (g, e) in enumerate(zip(got, exp)) if e is not None and g != e]
    solo = None
    if bad:
        i = sc["schedule"][bad[0]]["obj"]
        mine = [k for k, st in enumerate(sc["schedule"]) if st["obj"] == i]
        alone = conc_exec(sc, only=i)
        solo = all(exp[k] is None or alone[n] == exp[k] for n, k in enumerate(mine))
    return dict(sc=sc, got=got, exp=exp, bad=bad, solo_conformant=solo)


def conc_judge(C, mrows):
    sc, got, exp, bad = C["sc"], C["got"], C["exp"], C["bad"]
    viol = []
    payload = dict(concurrent=sc, observed=got, expected=exp)
    if bad:
        k = bad[0]
        st = sc["schedule"][k]
        o = sc["objects"][st["obj"]]
        alive = sorted({s["obj"] for s in sc["schedule"][:k]})
        what = (f"scenario '{sc['name']}' ({len(sc['objects'])} objects, {sc['template']}): step {k} = {st['op']} on object {st['obj']} "
                f"({o['kind']}, exchange {o['exchange']}) returned {got[k][:40]}... where its own exchange demands {exp[k][:40]}...; "
                f"objects alive: {alive}")
        if C["solo_conformant"]:
            viol.append(violation("concurrent:shared-state", "exchanges in flight at the same time influence each other (the calls of this "
                                  "object alone, in the same process, give the conformant values): " + what, True,
                                  failing_step=k, failing_steps=bad[:12], **payload))
        else:
            viol.append(violation("concurrent:values", what + " (the object's calls alone fail too)", True, failing_step=k,
                                  failing_steps=bad[:12], **payload))
    reuse_stale = 0
    if mrows is not None:
        model = conc_model_decode(mrows)
        idx = [k for k, st in enumerate(sc["schedule"]) if sc["objects"][st["obj"]]["kind"] == "client"]
        diff = [k for k, m in zip(idx, model) if got[k] != m] if len(idx) == len(model) else idx[:1]
        if diff and not bad:
            viol.append(violation("concurrent:model-mismatch", f"scenario '{sc['name']}': implementation and Model/SrpSession.v differ at steps "
                                  f"{diff[:8]}; the independent accessory found no property failure", False, model=model, **payload,
                                  broken="correspondence Model/SrpSession.v <-> aiohomekit/crypto/srp.py (object state)"))
        for k, m in zip(idx, model):
            st = sc["schedule"][k]
            if exp[k] is None and st["op"] == "K" and got[k] == m and got[k] == "bytes:" + sc["objects"][st["obj"]]["K"]:
                reuse_stale += 1
    return dict(viol=viol, reuse_stale=reuse_stale)


# ---------------------------------------------------------------- SrpServer stream (extension)
def zero_key_forged(salt: bytes, A_hashed: bytes, B_b: bytes) -> bytes:
    """The proof anybody can compute for A = 0 (mod N): S = 0, K = H(PAD(0)); no setup code involved."""
    return R.Hb(R.H_GROUP, R.Hb(USER.encode()), salt, A_hashed, B_b, R.Hb(R.PAD(0)))


def gen_srpserver(tier, cases):
    by = {c["id"]: c for c in cases if c.get("B_b") is None and c["code"] == c["server_code"]}
    out = []

    def mk(sid, kind, src, int_path, A=None, A_b=None):
        out.append(dict(id=sid, kind=kind, code=src["code"], salt=src["salt"], a=src["a"], b=src["b"], int_path=int_path,
                        A=A, A_b=A_b))
    c0, c5 = by.get("0"), by.get("5")
    if c5:
        mk("v5", "honest:" + c5["kind"], c5, False)
    if c0:
        mk("vz", "zero-key:int", c0, True, A=0)
    if tier != "quick":
        for n, c in enumerate([c for c in cases if c["id"].isdigit()][:18]):
            if c["id"] != "5":
                mk("v" + c["id"], "honest:" + c["kind"], c, n % 2 == 1)
        if c0:
            mk("vzb", "zero-key:bytes", c0, False, A=0)
            mk("vn", "zero-key:A=N", c0, True, A=R.N)
            mk("vn1", "special:A=N+1", c0, True, A=R.N + 1)
            mk("v1", "special:A=1", c0, False, A=1)
            mk("vbig", "special:int-too-big", c0, True, A_b=(b"\x01" + bytes(384)).hex())
            mk("vshort", "special:383-byte-A", c0, False, A_b=R.PAD(pow(R.G, c0["a"], R.N))[1:].hex())
    return out


def srpserver_phase(case):
    """Implementation (real SrpServer) + reference accessory for one SrpServer case (Python only, serial)."""
    code, salt, b = case["code"], bytes.fromhex(case["salt"]), case["b"]
    acc = R.Accessory(code.encode(), salt, b)
    honest = case["A"] is None and case["A_b"] is None
    if honest:
        cv = R.client_values(code.encode(), salt, case["a"], acc.B_b)
        A_b, M1 = cv["A_b"], cv["M1"]
        wrong = R.client_values(wrong_of(code).encode(), salt, case["a"], acc.B_b)["M1"]
        f0, f1 = bytearray(M1), bytearray(M1)
        f0[0] ^= 0x80
        f1[63] ^= 1
        M1s = [M1, bytes(f0), bytes(f1), wrong, M1.lstrip(b"\x00") if M1[0] == 0 else M1[1:], b"\x00" + M1]
    else:
        A_b = bytes.fromhex(case["A_b"]) if case["A_b"] is not None else R.PAD(case["A"])
        M1s = [zero_key_forged(salt, A_b, acc.B_b), bytes(range(64))]
    fits = len(A_b) == 384
    impl = impl_srpserver(code, salt, b, case["int_path"], A_b, M1s)
    ref = None
    if fits:
        ref = [acc.receive(A_b, m) for m in M1s]
    return dict(case=case, acc=acc, A_b=A_b, M1s=M1s, impl=impl, ref=ref, honest=honest, salt=salt,
                zero_class=fits and int.from_bytes(A_b, "big") % R.N == 0)


def srpserver_exprs(Q, guard):
    c = Q["case"]
    return [f"srpserver_case {'true' if guard else 'false'} {'true' if c['int_path'] else 'false'} {lit(USER.encode())} "
            f"{lit(c['code'].encode())} {lit(Q['salt'])} {c['b']} {lit(Q['A_b'])} [{'; '.join(lit(m) for m in Q['M1s'])}]"]


def srpserver_judge(Q, mres, guard):
    c, impl, ref = Q["case"], Q["impl"], Q["ref"]
    viol = []
    m = mres[0]
    if m[0] == [1]:
        model = dict(status="ok", B_b=bytes(m[1]), K=bytes(m[2]), accepts=list(m[3]), M2=bytes(m[4]),
                     M2_int=b"raised" if m[5] == [999] else bytes(m[5]))
    else:
        model = dict(status="raised", B_b=b"", K=b"", accepts=[], M2=b"", M2_int=b"")
    hexd = lambda d: {k: (v.hex() if isinstance(v, bytes) else v) for k, v in d.items()}
    payload = dict(case=c, impl=hexd(impl), model=hexd(model), client_public_key=Q["A_b"].hex(), client_proofs=[x.hex() for x in Q["M1s"]])

    def V(key, what, found, **extra):
        viol.append(violation(key, what, found, **payload, **extra))
    broken = False
    if ref is not None and impl["status"] == "ok":
        r0 = ref[0]
        if impl["B_b"] != Q["acc"].B_b:
            V("srpserver:public-key", f"SrpServer's B_b is not PAD((k v + g^b) mod N) kind={c['kind']}", True, expected_B_b=Q["acc"].B_b.hex())
            broken = True
        if not Q["zero_class"]:
            if impl["K"] != r0["K"]:
                V("srpserver:session-key", f"SrpServer's session key differs from the conformant accessory's kind={c['kind']}", True,
                  expected_K=r0["K"].hex())
                broken = True
            for mm, got, rv in zip(Q["M1s"], impl["accepts"], ref):
                if len(mm) == 64 and bool(got) != rv["ok"]:
                    V("srpserver:proof-verdict", f"SrpServer {'accepts' if got else 'rejects'} a client proof the conformant accessory "
                      f"{'rejects' if got else 'accepts'} kind={c['kind']}", True, offered=mm.hex())
                    broken = True
                    break
            if len(Q["M1s"][0]) == 64 and impl["M2"] != r0["M2"]:
                V("srpserver:accessory-proof", f"SrpServer's proof is not H(PAD(A) | M1 | K) kind={c['kind']}", True, expected_M2=r0["M2"].hex())
                broken = True
            if len(Q["M1s"][0]) == 64 and impl["M2_int"] != r0["M2"]:
                V("srpserver:get-proof-int", f"SrpServer.get_proof(int) is not the proof for the 64-byte M1 (leading zero of M1: "
                  f"{Q['M1s'][0][0] == 0}) kind={c['kind']}", True, expected_M2=r0["M2"].hex())
                broken = True
    same = all(impl[k] == model[k] for k in ("status", "B_b", "K", "accepts", "M2", "M2_int"))
    if not same and not broken:
        diff = [k for k in ("status", "B_b", "K", "accepts", "M2", "M2_int") if impl[k] != model[k]]
        V("srpserver:model-mismatch", f"SrpServer and Model/SrpServer.v (guard={guard}) differ on {diff} kind={c['kind']}", False,
          broken="correspondence Model/SrpServer.v <-> aiohomekit/crypto/srp.py::SrpServer")
    zero_accepted = bool(Q["zero_class"] and impl["status"] == "ok" and impl["accepts"] and impl["accepts"][0])
    if zero_accepted and os.environ.get("VERIF_C02_STRICT_SRPSERVER") == "1":
        V("srpserver:zero-public-key-accepted", "SrpServer accepts A = 0 (mod N) with a proof computed without the setup code "
          "(RFC 5054 2.5.4: the server MUST abort)", True)
    return dict(case=c, viol=viol, impl_status=impl["status"], zero_accepted=zero_accepted)


def gen_sha(tier, seed):
    r = rng(seed, "c02sha")
    lens = list(range(0, 300)) + [367, 368, 383, 384, 385, 399, 400, 511, 512, 768, 832, 976, 1023, 1024]
    msgs = [bytes(r.getrandbits(8) for _ in range(n)) for n in lens]
    for n in (0, 1, 111, 112, 127, 128, 239, 240, 255, 256):
        msgs += [bytes(n), b"\xff" * n, b"\x80" * n]
    target = 2100 if tier == "quick" else 6000
    while len(msgs) < target:
        n = r.choice([r.randrange(0, 130), r.randrange(0, 260), r.choice([111, 112, 127, 128, 129, 239, 240, 241])])
        msgs.append(bytes(r.getrandbits(8) for _ in range(n)))
    return msgs


def impl_digest(m: bytes, cut: int):
    """The implementation's hash helper on the message split in three parts (None if the helper is gone)."""
    import aiohomekit.crypto.srp as srp
    try:
        s = srp.Srp(USER, "000-00-000")
        f = s.digest
    except Exception:  # noqa
        return None
    c1, c2 = sorted(((cut * 7) % (len(m) + 1), (cut * 13) % (len(m) + 1)))
    return bytes(f(m[:c1], bytearray(m[c1:c2]), m[c2:]))


# ---------------------------------------------------------------- run
def run(ctx):
    tier, seed = ctx["tier"], ctx["seed"]
    workers = int(os.environ.get("VERIF_C02_WORKERS", "10" if tier == "quick" else "12"))
    cov = Coverage("exchange: distinct (code, server code, salt, a, b, B_b) for which all three parties produced a result; "
                   "sequence: every step of every session sequence (a step is a distinct history); "
                   "concurrent: every scenario (objects + interleaved schedule of public calls) of the live-objects stream; "
                   "srpserver: distinct (code, salt, b, client public key, path) on which SrpServer, model and reference ran; "
                   "sha512: distinct message; to_byte_array/pad_left: distinct argument tuple")
    viols = []
    import aiohomekit.crypto.srp as srp
    t_start = time.time()

    # ---- inputs of every stream
    msgs = gen_sha(tier, seed)
    chunk = 360 if tier == "quick" else 500
    sha_parts = [msgs[i:i + chunk] for i in range(0, len(msgs), chunk)]
    r = rng(seed, "c02small")
    ns = list(range(0, 1030)) + [-1, -255, -256]
    for kbits in list(range(8, 200, 8)) + [504, 512, 1024, 3064, 3072, 3080]:
        ns += [(1 << kbits) - 1, 1 << kbits, (1 << kbits) + 1, r.getrandbits(kbits)]
    pl_cases = []
    for dl in list(range(0, 20)) + [63, 64, 383, 384, 385]:
        for ln in sorted({0, 1, 15, 16, 17, 64, 383, 384, 385, dl, max(dl - 1, 0), dl + 1}):
            data = bytes((r.getrandbits(8) if j else r.choice([0, 0, 1, 255])) for j in range(dl))
            pl_cases.append((data, ln))
    seqs = None
    conc_scs = None
    if ctx.get("replay"):
        rp = json.load(open(ctx["replay"]))
        if isinstance(rp.get("concurrent"), dict) and rp["concurrent"].get("schedule"):
            cases, seqs, conc_scs = [], [], [dict(rp["concurrent"], model=True)]
        elif isinstance(rp.get("sequence"), dict) and rp["sequence"].get("steps_so_far"):
            cases, seqs = [], [dict(name=rp["sequence"].get("name", "replay"), steps=rp["sequence"]["steps_so_far"])]
        elif isinstance(rp.get("case"), dict) and "salt" in rp["case"]:
            cases, seqs = [rp["case"]], []
        else:
            cases = gen_exchanges(tier, seed)
    else:
        cases = gen_exchanges(tier, seed)
    if seqs is None:
        seqs = gen_sequences(tier, seed, cases)
    if conc_scs is None:
        conc_scs = gen_concurrent(tier, seed, cases) if not ctx.get("replay") else []
    t_gen = time.time()

    # ---- implementation + independent accessory, serially and in stream order (one process: the sequences are real histories)
    FRESH_BUDGET[0] = 8
    PHASES[0] = 0
    plain_P = [impl_phase(c) for c in cases]
    seq_P = [[impl_phase(st) for st in sq["steps"]] for sq in seqs]
    conc_C = [conc_run(sc) for sc in conc_scs]          # several objects alive at the same time, calls interleaved
    srv_cases = gen_srpserver(tier, cases) if not ctx.get("replay") else []
    probe = impl_srpserver("000-00-000", bytes(16), 5, True, R.PAD(0),
                           [zero_key_forged(bytes(16), R.PAD(0), R.Accessory(b"000-00-000", bytes(16), 5).B_b)])
    srv_guard = not (probe["status"] == "ok" and probe["accepts"] == [1])      # which variant of the class is this?
    srv_Q = [srpserver_phase(c) for c in srv_cases]
    all_P = plain_P + [P for l in seq_P for P in l]
    job_of, exprs_list = {}, []
    for P in all_P:                       # one model evaluation per distinct input (the model has no history)
        if P["case"].get("oracle_only"):
            P["job"] = None
            continue
        e = model_exprs(P)
        key = "\n".join(e)
        if key not in job_of:
            job_of[key] = len(exprs_list)
            exprs_list.append(e)
        P["job"] = job_of[key]
    t_impl = time.time()

    # ---- all model evaluations on one pool; the long jobs (exchanges) are queued first
    # (the first SrpServer evaluations ride in the same coqc process as an exchange evaluation: saves loading BigN again)
    srv_e = [srpserver_exprs(Q, srv_guard) for Q in srv_Q]
    n_ride = min(len(srv_e), len(exprs_list)) if tier == "quick" else 0
    jobs = [(lambda n=n, e=e: model_eval(ctx, f"ex_{n}", e + (srv_e[n] if n < n_ride else []), big=True)) for n, e in enumerate(exprs_list)]
    jobs += [(lambda n=n: model_eval(ctx, f"srv_{n}", srv_e[n], big=True)) for n in range(n_ride, len(srv_e))]
    conc_jobs = [n for n, C in enumerate(conc_C) if C["sc"].get("model")]
    jobs += [(lambda n=n: model_eval(ctx, f"conc_{n}", [conc_model_expr(conc_C[n]["sc"])], session=True)[0]) for n in conc_jobs]
    plainz = []
    if tier != "quick" and plain_P:
        # axiom-free cross-check of the BigN evaluator: A_b through powm on plain Z (about 1 s per 3072-bit modular
        # multiplication, so a 40-bit ephemeral and the a-small ones), against the real client
        for a_ in [0xC0FFEE1234] + sorted({P["a"] for P in plain_P if P["case"]["kind"] == "a-small"})[:3]:
            r_ = impl_run("123-45-678", a_, bytes(16), R.PAD(5), [])
            if r_["status"] == "ok":
                plainz.append(dict(a=a_, A_b=r_["A_b"]))
        q = "AHK.Model.Srp."
        jobs += [(lambda n=n, z=z: model_eval(ctx, f"plainz_{n}", [f"{q}PAD {q}HK_KEY_LENGTH ({q}powm {q}G3072 {z['a']}%Z {q}N3072)"],
                                             timeout=2400)[0]) for n, z in enumerate(plainz)]
    jobs += [(lambda i=i, part=part: model_eval(ctx, f"sha_{i}", ["map sha_case [" + "; ".join(lit(m) for m in part) + "]"])[0])
             for i, part in enumerate(sha_parts)]
    jobs.append(lambda: model_eval(ctx, "tba", ["map (fun p => to_byte_array_case (fst p) (snd p)) ["
                                                + "; ".join(f"({'true' if n < 0 else 'false'}, {abs(n)})" for n in ns) + "]"])[0])
    jobs.append(lambda: model_eval(ctx, "padleft", ["map (fun p => pad_left_case (fst p) (snd p)) ["
                                                    + "; ".join(f"({lit(d)}, {ln})" for d, ln in pl_cases) + "]"])[0])
    jobs.append(lambda: model_eval(ctx, "consts", ["constants_case"])[0])
    out = pool_map(lambda f: f(), jobs, workers)
    ex_out = [r_[:len(e)] for r_, e in zip(out[:len(exprs_list)], exprs_list)]
    o = len(exprs_list)
    srv_out = [out[n][len(exprs_list[n]):] for n in range(n_ride)] + out[o:o + len(srv_Q) - n_ride]
    o += len(srv_Q) - n_ride
    conc_out = dict(zip(conc_jobs, out[o:o + len(conc_jobs)]))
    o += len(conc_jobs)
    plainz_out = out[o:o + len(plainz)]
    o += len(plainz)
    sha_model = [d for part in out[o:o + len(sha_parts)] for d in part]
    tba_model, pl_model, mc = out[-3], out[-2], out[-1]
    t_model = time.time()
    results = [judge(ctx, P, ex_out[P["job"]] if P["job"] is not None else None) for P in plain_P]
    seq_results = [judge(ctx, P, ex_out[P["job"]], seq=(sq["name"], k, sq["steps"][:k]))
                   for sq, l in zip(seqs, seq_P) for k, P in enumerate(l)]

    # ---- SrpServer stream
    srv_results = [srpserver_judge(Q, mr, srv_guard) for Q, mr in zip(srv_Q, srv_out)]
    srv_viols = [v for r_ in srv_results for v in r_["viol"]]
    for r_ in srv_results:
        c = r_["case"]
        cov.case("srv" + json.dumps(c, sort_keys=True), True, stream="srpserver", srpserver_kind=c["kind"].split(":")[0],
                 srpserver_path="int" if c["int_path"] else "bytes", srpserver_impl=r_["impl_status"],
                 sample=dict(stream="srpserver", kind=c["kind"], code=c["code"], salt=c["salt"], b=str(c["b"]), int_path=c["int_path"],
                             status=r_["impl_status"], zero_key_accepted=r_["zero_accepted"]) if c["id"] in ("v5", "vz") else None)
    cov.extra["srpserver"] = dict(
        variant="guarded (A mod N = 0 rejected)" if srv_guard else "unguarded (class as it is: no check of the client's public key)",
        cases=len(srv_results),
        zero_key_accepted=sorted(r_["case"]["kind"] for r_ in srv_results if r_["zero_accepted"]),
        note="SrpServer accepting A = 0 (mod N) with a proof that needs no setup code is theorem srpserver_zero_key_refuted; it is "
             "outside what C02 states (the controller), so it is recorded here and becomes a violation only with "
             "VERIF_C02_STRICT_SRPSERVER=1; fixes/C02-srpserver-zero-public-key.patch adds the RFC 5054 check")
    cov.extra["seams"] = dict(SEAM_USED)
    pv = collections.Counter((v, "correct" if ok_ else "incorrect", got) for P in all_P for v, _l, ok_, got in (P.get("pair_setup_variants") or []))
    ps = collections.Counter((sh, got.split(":")[0] if not got.startswith("refused") else got) for P in all_P
                             for sh, _m, got in (P.get("pair_setup_shapes") or []))
    cov.extra["pair_setup_m4_item_shapes"] = {f"{sh}->{g}": n for (sh, g), n in sorted(ps.items())}
    cov.extra["pair_setup_m4_optional_items"] = {f"{v}/{c}->{g}": n for (v, c, g), n in sorted(pv.items())}
    for z, mr in zip(plainz, plainz_out):
        ok = bytes(mr) == z["A_b"]
        cov.case("plainz" + str(z["a"]), True, stream="plain-Z-crosscheck", plainz_agree=ok)
        if not ok:
            viols.append(violation("plainz:public-key", "A_b evaluated with powm on plain Z (no BigN, no Uint63 axioms) differs from the "
                                   "implementation", False, a=str(z["a"]), model=bytes(mr).hex(), impl=z["A_b"].hex()))

    # ---- live objects (several exchanges in flight)
    conc_viols, reuse_stale = [], 0
    for n, C in enumerate(conc_C):
        j = conc_judge(C, conc_out.get(n))
        conc_viols += j["viol"]
        reuse_stale += j["reuse_stale"]
        sc = C["sc"]
        kinds = "+".join(sorted(o["kind"] for o in sc["objects"] if o.get("exchange") != "never-created"))
        cov.case("conc" + json.dumps(sc, sort_keys=True), True, stream="concurrent", concurrent_objects=len(sc["objects"]),
                 concurrent_template=sc["template"], concurrent_kinds=kinds, concurrent_getter_order=sc["getter_order"],
                 concurrent_model="model+oracle" if n in conc_out else "oracle-only", concurrent_calls=len(sc["schedule"]) // 8 * 8,
                 sample=dict(stream="concurrent", scenario=sc["name"], template=sc["template"], objects=kinds,
                             calls=[f"{st['obj']}.{st['op']}" for st in sc["schedule"]], observed=[g[:22] for g in C["got"]])
                 if n == 0 else None)
    cov.extra["concurrent"] = dict(
        scenarios=len(conc_C), calls=sum(len(C["got"]) for C in conc_C), model_evaluated=len(conc_out),
        constrained_calls=sum(1 for C in conc_C for e in C["exp"] if e is not None),
        max_objects_alive=max([len(C["sc"]["objects"]) for C in conc_C] or [0]),
        reuse_stale_session_key_observed=reuse_stale,
        note="an SrpClient re-keyed (set_salt / set_server_public_key) after its session key was computed keeps answering the old key "
             "(Srp._session_key is never invalidated; theorem srpclient_reuse_stale_key_observation); the controller creates one "
             "client per pair-setup, so this is outside C02's statement and only compared with the model")

    # ---- session sequences
    seq_viols = []           # reported after the single-exchange violations (the runner keeps the first per key)
    for res in seq_results:
        seq_viols += res["viol"]
        c = res["case"]
        cov.case("seq" + json.dumps([res["seq"], c["id"], c["code"], c["server_code"], c["salt"], c["a"], c["b"]]) + str(id(res)), True,
                 stream="sequence", sequence=res["seq"], sequence_step_kind=c["kind"], sequence_impl=res["impl_status"],
                 sample=dict(stream="sequence", sequence=res["seq"], kind=c["kind"], code=c["code"], server_code=c["server_code"],
                             salt=c["salt"], K=res["impl"]["K"][:24] + "...", pair_setup=res.get("pair_setup"))
                 if len(cov.samples) < 3 else None)
    cov.extra["sequences"] = {sq["name"]: [f"{st['kind']}:{st['code']}@{st['salt'][:8]}" for st in sq["steps"]] for sq in seqs}
    cov.extra["sequence_steps"] = len(seq_results)
    cov.extra["model_evaluations_shared"] = len(all_P) - len(exprs_list)

    # ---- exchanges (first, so that their samples are kept)
    flags = dict(A0=0, B0=0, S0=0, K0=0, M1_0=0, M2_0=0, u0=0, x0=0, salt0=0, A_t0=0, B_t0=0, salt_t0=0, M1_t0=0, M2_t0=0)
    flips_checked = 0
    for res in results:
        viols += res["viol"]
        c = res["case"]
        for k, v in res.get("flags", {}).items():
            flags[k] += 1 if v else 0
        flips_checked += 512 if res["impl_status"] == "ok" else 0
        canon = json.dumps([c["code"], c["server_code"], c["salt"], c["a"], c["b"], c.get("B_b")])
        cov.case("ex" + canon, True, stream="exchange" if not c.get("oracle_only") else "exchange-oracle-only",
                 exchange_kind=c["kind"], exchange_impl=res["impl_status"],
                 directed_hit=c["hit"],
                 sample=dict(stream="exchange", kind=c["kind"], code=c["code"], salt=c["salt"], a=str(c["a"]), b=str(c["b"]),
                             A_b=res["impl"]["A_b"][:24] + "...", K=res["impl"]["K"][:24] + "...", pair_setup=res.get("pair_setup"),
                             ) if len(cov.samples) < 9 else None)

    # ---- constants, read from the implementation at run time
    model_consts = dict(N=int.from_bytes(bytes(mc[0]), "big"), g=int.from_bytes(bytes(mc[1]), "big"),
                        k=int.from_bytes(bytes(mc[2]), "big"), hgroup=bytes(mc[3]), keylen=mc[4][0], saltlen=mc[4][1])
    # (module globals and instance attributes are both read when present; a refactor that renames one of them is tolerated)
    impl_consts = dict(N=getattr(srp, "MODULUS_VALUE", None), g=getattr(srp, "GENERATOR_VALUE", None),
                       k=getattr(srp, "CLIENT_K_VALUE", None), hgroup=getattr(srp, "H_GROUP", None),
                       keylen=getattr(srp, "HK_KEY_LENGTH", None))
    ref_consts = dict(N=R.N, g=R.G, k=R.K_MULT, hgroup=R.H_GROUP, keylen=R.NLEN)
    try:
        inst = srp.SrpClient(USER, "000-00-000")
    except Exception:  # noqa  (a client that cannot even be constructed is reported by the exchange stream)
        inst = None
    inst_consts = dict(N=getattr(inst, "n", None), g=getattr(inst, "g", None),
                       k=(inst._calculate_k() if hasattr(inst, "_calculate_k") else getattr(inst, "k", None)) if inst is not None else None,
                       hgroup=getattr(inst, "hGroup", None), keylen=None)
    for name in ("N", "g", "k", "hgroup", "keylen"):
        vals = dict(model=model_consts[name], reference=ref_consts[name])
        for src, d in (("module", impl_consts), ("instance", inst_consts)):
            if d[name] is not None:
                vals[src] = bytes(d[name]) if isinstance(d[name], (bytes, bytearray)) else d[name]
        readable = "module" in vals or "instance" in vals
        ok = readable and len({repr(v) for v in vals.values()}) == 1
        cov.case("const" + name, True, sample=dict(stream="constants", name=name, agree=ok, sources=sorted(vals)), stream="constants")
        if not readable:
            viols.append(violation(f"constants:{name}:unreadable", f"group constant {name} could not be read from aiohomekit.crypto.srp "
                                   "(neither module global nor instance attribute)", False, constant=name))
        elif not ok:
            wrong_impl = any(vals.get(sname, vals["reference"]) != vals["reference"] for sname in ("module", "instance"))
            viols.append(violation(f"constants:{name}", f"group constant {name} differs between srp.py, the model and RFC 5054/HAP: "
                                   + ", ".join(k for k, v in vals.items() if v != vals["reference"]) + " deviate",
                                   wrong_impl, constant=name, values={k: (v.hex() if isinstance(v, bytes) else hex(v) if isinstance(v, int) else v)
                                                                     for k, v in vals.items()}))

    # ---- SHA-512: model vs hashlib vs the implementation's digest()
    for i, (m, dm) in enumerate(zip(msgs, sha_model)):
        want = hashlib.sha512(m).digest()
        di = impl_digest(m, i)
        if di is not None and di != want:
            viols.append(violation("sha512:impl-digest", "Srp.digest is not SHA-512 of the concatenation", True, message=m.hex(),
                                   impl=di.hex(), expected=want.hex()))
        if bytes(dm) != want:
            viols.append(violation("sha512:model-mismatch", f"Model/Sha512.v differs from hashlib on a {len(m)}-byte message", False,
                                   message=m.hex(), model=bytes(dm).hex() if all(0 <= x < 256 for x in dm) else str(dm), expected=want.hex()))
        cov.case("sha" + m.hex(), True, sample=dict(stream="sha512", length=len(m), digest=want.hex()[:16]) if i in (111, 112, 128) else None,
                 stream="sha512", sha_len=len(m) if len(m) in (0, 111, 112, 127, 128, 239, 240, 255, 256) else f"{len(m) // 128 * 128}+")

    # ---- to_byte_array / pad_left
    for n, mm in zip(ns, tba_model):
        if not hasattr(srp, "to_byte_array"):
            break
        try:
            im = "ok " + bytes(srp.to_byte_array(n)).hex()
            im2 = "ok " + bytes(srp.Srp.to_byte_array(n)).hex() if hasattr(srp.Srp, "to_byte_array") else im
        except Exception as e:  # noqa
            im = im2 = exc_class(e)
        want = "crash" if n < 0 else "ok " + (R.i2osp(n, n.bit_length() // 8 + 1).lstrip(b"\x00")).hex()
        mo = "crash" if mm == [999] else "ok " + bytes(mm).hex()
        if im != want or im2 != want:
            viols.append(violation("to_byte_array:not-minimal", f"to_byte_array({n if abs(n) < 1 << 64 else hex(n)}) is not the minimal "
                                   "big-endian encoding", True, n=str(n), impl=im, expected=want))
        elif mo != im:
            viols.append(violation("to_byte_array:model-mismatch", "model differs from implementation", False, n=str(n), impl=im, model=mo))
        cov.case(f"tba{n}", True, stream="to_byte_array", tba_bytes=(n.bit_length() + 7) // 8 if n >= 0 else "negative",
                 sample=dict(stream="to_byte_array", n=n, impl=im) if n in (0, 255, 256) else None)
    for (d, ln), mm in zip(pl_cases, pl_model):
        if not hasattr(srp, "pad_left"):
            break
        try:
            im = "ok " + bytes(srp.pad_left(d, ln)).hex()
        except Exception as e:  # noqa
            im = exc_class(e)
        mo = "crash" if mm == [999] else "ok " + bytes(mm).hex()
        want = ("ok " + (bytes(ln - len(d)) + d).hex()) if len(d) <= ln else None     # longer data: property silent
        if want is not None and im != want:
            viols.append(violation("pad_left:wrong-padding", f"pad_left(data[{len(d)}], {ln}) is not zero-left-padded data", True,
                                   data=d.hex(), length=ln, impl=im, expected=want))
        elif mo != im:
            viols.append(violation("pad_left:model-mismatch", "model differs from implementation", False, data=d.hex(), length=ln,
                                   impl=im, model=mo))
        cov.case(f"pl{d.hex()}/{ln}", True, stream="pad_left", pad_result=im.split(" ")[0])

    viols += srv_viols
    viols += seq_viols
    viols += conc_viols
    cov.extra["informational_skip_leading_zero_convention"] = dict(
        note="exchanges on which an accessory hashing A, B, S without leading zero bytes in M1/K (not the convention DESIGN.md fixes) "
             "would judge the controller's proof differently; not counted as violations",
        exchanges=sum(1 for res in results if res.get("alt_convention_differs")),
        kinds=sorted({res["case"]["kind"] for res in results if res.get("alt_convention_differs")}))
    cov.extra["exhaustive"] = False
    cov.extra["exchanges"] = len(results)
    cov.extra["leading_zero_hits"] = flags
    cov.extra["leading_zero_classes_not_reached"] = sorted(k for k, v in flags.items() if v == 0)
    cov.extra["directed_misses"] = [c["kind"] for c in cases if not c.get("hit", True)]
    cov.extra["proof_corruptions_checked_per_exchange"] = "all 512 single-bit flips of M2 + echoed M1, zeros, reversed, resized forms"
    cov.extra["proof_corruptions_checked_total"] = flips_checked
    cov.extra["domain"] = ("user name 'Pair-Setup', setup codes as UTF-8 strings, 16-byte salts (any content), a, b < 2^128, B_b = the "
                           "accessory's 384-byte public key; salts of other lengths and foreign B_b only in the model-vs-implementation "
                           "stream (the property does not constrain them)")
    cov.extra["timing_s"] = dict(generation_and_directed_search=round(t_gen - t_start, 1), implementation_and_oracle_serial=round(t_impl - t_gen, 1),
                                 model_runs=round(t_model - t_impl, 1), comparison=round(time.time() - t_model, 1), workers=workers,
                                 exchange_model_jobs=len(exprs_list))
    cov.extra["trusted_base_extra"] = [
        "C02: model evaluated by vm_compute (coqc on generated files), modexp on Bignums.BigN/primitive Uint63 proved equal to the Z model "
        "(srp_big_refines_*; Uint63 axioms of the standard library listed in coq/axioms.d/C02.json)",
        "C02 oracle: harness/ref/srp_ref.py (RFC 5054 + HAP padding rules as fixed in DESIGN.md section 5: K = H(PAD(S)), M1 over PAD(A), PAD(B)); "
        "hashlib.sha512",
    ]
    return dict(coverage=cov.to_dict(), violations=viols)
