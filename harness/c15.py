"""C15 correspondence: aiohomekit.protocol.tlv.TLV + BLE pairing reassembly vs Model/Tlv.v, Model/TlvObj.v.

Four streams: enc (item lists, in two container shapes, argument checked after the call and encoded twice),
dec (byte strings, with/without expected filter), reasm (BLE FragmentData/FragmentLast reply scripts),
sess (histories of encode / decode / caller-side append on ONE set of live objects in one process).  For every case the implementation result,
the model result (extracted OCaml) and an independent reference codec are compared.
"""
from __future__ import annotations

import asyncio
import itertools

from common import Coverage, Driver, coq_eval, hx, rng, shrink_bytes, unhx, violation
from ref.tlv8 import ref_decode, ref_encode, wf

LENS = [0, 1, 2, 254, 255, 256, 257, 509, 510, 511, 765, 766]
TYPES = [0, 1, 6, 7, 12, 13, 254, 255]


# ---------------------------------------------------------------- implementation side
def impl_encode(items):
    from aiohomekit.protocol.tlv import TLV
    try:
        return "ok " + hx(TLV.encode_list([(k, bytearray(v)) for k, v in items]))
    except ValueError:
        return "err value"
    except Exception as e:  # noqa
        return "other:" + type(e).__name__


# The caller's argument is a live Python object graph: an outer sequence of 2-item sequences whose values are
# bytes (immutable) or bytearray (mutable, what TLV.M1..M6, decode results and SrpClient.to_byte_array hand
# out).  The model's encoder is a function of the item list, so the implementation must (a) give the same
# answer for every container shape of one list, (b) leave the argument as it found it, (c) give the same
# answer when the SAME object is encoded again (retry / re-send).  memoryview values are not generated: the
# type hints say bytes, and nothing in /repo passes one.
def enc_shapes(idx, n):
    a = ("list", "tuple", tuple("bytearray" for _ in range(n)))
    b = ("tuple" if idx % 2 else "list", "list" if idx % 3 == 0 else "tuple",
         tuple(("bytes", "bytearray")[(idx + j + (j >> 1)) % 2] if idx % 5 else "bytes" for j in range(n)))
    return [a, b]


def build_arg(items, shape):
    outer, ik, vks = shape
    mk = {"bytes": bytes, "bytearray": bytearray}
    arg = [(list if ik == "list" else tuple)((k, mk[vk](v))) for (k, v), vk in zip(items, vks)]
    return tuple(arg) if outer == "tuple" else arg


def arg_snapshot(arg):
    return [(type(it).__name__, it[0], type(it[1]).__name__, bytes(it[1])) if len(it) == 2 else ("?", len(it)) for it in arg]


def impl_encode_obj(items, shape):
    """-> (answer of the first call, None | (slug, text) describing a side effect on the caller's objects)"""
    from aiohomekit.protocol.tlv import TLV

    def call(arg):
        try:
            return "ok " + hx(TLV.encode_list(arg))
        except ValueError:
            return "err value"
        except Exception as e:  # noqa
            return "other:" + type(e).__name__
    arg = build_arg(items, shape)
    before = arg_snapshot(arg)
    first = call(arg)
    after = arg_snapshot(arg)
    side = None
    if len(arg) != len(items) or after != before:
        ch = [(j, b[1], len(b[3]), len(a[3])) for j, (b, a) in enumerate(zip(before, after)) if a != b][:3]
        side = ("argument-modified", f"encode_list changed the caller's argument ({len(before)} items before the call, "
                f"{len(after)} after; changed items as (index, type, value length before, after): {ch}); "
                f"decode(encode(x)) can no longer equal x")
    else:
        second = call(arg)
        if second != first:
            side = ("second-call-differs", f"encoding the same object twice gives {first[:50]}... then {second[:50]}...")
    return first, side


def fmt_items(lst):
    return "ok " + (" ".join(f"{int(k)}:{hx(v)}" for k, v in lst) if lst else ".")


def impl_decode(bs, expected, use_bytes=False):
    from aiohomekit.protocol.tlv import TLV, TlvParseException
    try:
        if use_bytes:
            r = TLV.decode_bytes(bytes(bs), expected)
        else:
            ba = bytearray(bs)
            r = TLV.decode_bytearray(ba, expected)
            if bytes(ba) != bytes(bs):
                return "other:caller-buffer-modified"
        return fmt_items(r)
    except TlvParseException:
        return "err parse"
    except Exception as e:  # noqa
        return "other:" + type(e).__name__


async def impl_reasm_async(replies):
    import aiohomekit.controller.ble.client as bc
    from aiohomekit.protocol.tlv import TlvParseException
    writes = []
    it = iter(replies)

    async def fake_char_write(client, ek, dk, handle, iid, body):
        writes.append(bytes(body))
        try:
            return next(it)
        except StopIteration:
            raise RuntimeError("script-exhausted")

    class FakeClient:
        address = "00:00"

    orig = bc.char_write
    bc.char_write = fake_char_write
    try:
        try:
            d = await bc._pairing_char_write(FakeClient(), None, 1, [(6, b"\x01")])
        except TlvParseException:
            acks = writes[1:]
            if any(a != b"\x0c\x00" for a in acks):
                return "other:bad-ack"
            return f"fail {len(acks)} parse"
        except RuntimeError as e:
            if "script-exhausted" in str(e):
                return "crash"
            return "other:RuntimeError"
        except ValueError as e:
            if "Reassembly failed" in str(e):
                return "toomany"
            return "other:ValueError"
        except Exception as e:  # noqa
            return "other:" + type(e).__name__
    finally:
        bc.char_write = orig
    acks = writes[1:]
    if any(a != b"\x0c\x00" for a in acks):
        return "other:bad-ack"
    return f"done {len(acks)} " + dict_str(d)


def dict_str(d):
    return " ".join(f"{int(k)}:{hx(v)}" for k, v in sorted(d.items())) if d else "."


def model_reasm_canon(ans):
    """model answers 'done <acks> items' with an item list; the implementation returns dict(items)."""
    t = ans.split(" ")
    if t[0] != "done":
        return ans
    d = {}
    for tok in t[2:]:
        if tok == ".":
            continue
        k, v = tok.split(":")
        d[int(k)] = unhx(v)
    return f"done {t[1]} " + dict_str(d)


# ---------------------------------------------------------------- generators
def gen_enc(tier, r):
    cases = []
    for k in TYPES:
        for n in LENS:
            cases.append([(k, bytes([(k + i) & 0xFF for i in range(n)]))])
    pl = [0, 1, 255, 256, 510] if tier == "quick" else [0, 1, 2, 254, 255, 256, 257, 510, 511]
    for k1, k2 in itertools.product(TYPES, TYPES):
        for n1, n2 in itertools.product(pl, pl):
            cases.append([(k1, bytes([0xA0 | (i & 0xF) for i in range(n1)])), (k2, bytes([i & 0x7F for i in range(n2)]))])
    # invalid keys / separators with data
    for k in (-1, 256, 300, 1000):
        cases.append([(6, b"\x01"), (k, b"\x02")])
    n_rand = 1500 if tier == "quick" else 30000
    for _ in range(n_rand):
        n = r.choice([1, 2, 3, 4, 6])
        items = []
        for _ in range(n):
            k = r.choice(TYPES + [r.randrange(256)])
            ln = r.choice(LENS + [r.randrange(0, 40), r.randrange(0, 2000)])
            if k == 255 and r.random() < 0.8:
                ln = 0
            items.append((k, bytes(r.getrandbits(8) for _ in range(ln))))
        # mostly valid: put separators between equal neighbours most of the time
        fixed = []
        for it in items:
            if fixed and fixed[-1][0] == it[0] and r.random() < 0.8:
                fixed.append((255, b""))
            fixed.append(it)
        cases.append(fixed)
    return cases


def gen_dec(tier, r):
    cases = []  # (bytes, expected or None)
    # exhaustive: all strings up to 2 bytes
    cases.append((b"", None))
    for a in range(256):
        cases.append((bytes([a]), None))
    for a in range(256):
        for b in range(256):
            cases.append((bytes([a, b]), None))
    # exhaustive over a boundary alphabet up to 6 (quick: 5) bytes
    alpha = [0, 1, 2, 3, 254, 255]
    top = 5 if tier == "quick" else 6
    for n in range(3, top + 1):
        for t in itertools.product(alpha, repeat=n):
            cases.append((bytes(t), None))
    for n in range(0, 5):
        for t in itertools.product([0, 1, 2, 6, 7], repeat=n):
            cases.append((bytes(t), [6, 7]))
            cases.append((bytes(t), []))
    # valid encodings, truncations and mutations of them, with filters
    n_rand = 3000 if tier == "quick" else 60000
    for i in range(n_rand):
        items = []
        for _ in range(r.choice([1, 2, 3, 5])):
            k = r.choice([0, 1, 2, 3, 4, 5, 6, 7, 10, 12, 13, 255, r.randrange(256)])
            ln = 0 if k == 255 else r.choice(LENS + [r.randrange(0, 30), r.randrange(0, 2000)])
            items.append((k, bytes(r.getrandbits(8) for _ in range(ln))))
        enc = bytearray(ref_encode(items))
        m = r.random()
        if m < 0.35 and enc:
            enc = enc[: r.randrange(len(enc))]                      # truncation
        elif m < 0.55 and enc:
            j = r.randrange(len(enc))
            enc[j] ^= 1 << r.randrange(8)                           # bit flip
        elif m < 0.65 and enc:
            j = r.randrange(len(enc))
            enc = enc[:j] + enc[j:j + r.randrange(1, 4)] + enc[j:]  # duplication
        elif m < 0.7:
            enc += bytes([r.randrange(256)])                        # lone trailing byte
        exp = r.choice([None, None, None, [], [6, 7], [k for k, _ in items][:2], [0, 1, 2, 3, 4, 5, 6, 7, 10]])
        cases.append((bytes(enc), exp))
    for i in range(300 if tier == "quick" else 5000):
        cases.append((bytes(r.getrandbits(8) for _ in range(r.randrange(0, 600))), None))
    return cases


def gen_reasm(tier, r):
    cases = []
    n = 400 if tier == "quick" else 8000
    for i in range(n):
        items = []
        for _ in range(r.choice([1, 2, 3])):
            k = r.choice([1, 3, 5, 6, 7, 10])
            items.append((k, bytes(r.getrandbits(8) for _ in range(r.choice([0, 1, 32, 200, 255, 256, 300, 600])))))
        m = r.random()
        regular = i % 4 == 3
        if regular:
            # repetitive content in equal pieces: consecutive fragments are then byte-identical (a reassembler
            # must still append each of them), e.g. zero padding or a constant value in 257-byte TLV items
            fill = r.choice([b"\x00", b"\xff", b"\x05\xff", b"ab", b"\x00\x00\x00\x01"])
            items = [(k, (fill * 400)[: len(v)]) for k, v in items]
            if r.random() < 0.5:
                items = [(5, (fill * 1000)[: r.choice([510, 800, 1020, 1500])])]
        blob = ref_encode(items)
        if m < 0.1 and blob:
            blob = blob[: r.randrange(len(blob))]           # blob that does not decode
        npieces = r.choice([1, 2, 3, 5, 8]) if m < 0.97 else 60
        if i % 25 == 7:
            npieces = (48, 49, 50, 51)[(i // 25) % 4]       # around MAX_REASSEMBLY: 50 pieces are accepted, 51 refused
        cuts = sorted(r.randrange(len(blob) + 1) for _ in range(npieces - 1))
        if regular and m < 0.97:
            size = r.choice([1, 2, 4, 16, 64, 257, 514])
            cuts = list(range(size, len(blob), size))[:50]
        pieces = [blob[a:b] for a, b in zip([0] + cuts, cuts + [len(blob)])]
        replies = [ref_encode([(12, p)]) for p in pieces[:-1]] + [ref_encode([(13, pieces[-1])])]
        if i % 5 == 2:
            # other items beside a fragment item in one payload (first, a middle or the last payload, before or
            # after the fragment item): they are part of the reply, e.g. an Error item next to FragmentLast
            j = r.choice([0, len(pieces) // 2, len(pieces) - 1])
            frag = (13 if j == len(pieces) - 1 else 12, pieces[j])
            sibs = r.choice([[(7, b"\x02")], [(6, b"\x04")], [(6, b"\x05"), (7, b"\x06")], [(1, b"id")], [(7, b"")]])
            replies[j] = ref_encode(sibs + [frag]) if r.random() < 0.5 else ref_encode([frag] + sibs)
        if i % 40 == 11:
            replies = [ref_encode([(12, b"\x07\x01\x02")]), ref_encode(items)]   # unterminated buffer, then a plain reply
        if i % 40 == 31:
            # a ZERO-LENGTH FragmentData piece with items beside it leaves the buffer empty; the exchange then ends
            # with a payload that has no fragment item (empty, or ordinary items): the items sent beside the empty
            # fragment are still part of the reply
            sibs = r.choice([[(6, b"\x04"), (7, b"\x02")], [(7, b"\x06")], [(6, b"\x05")]])
            tail = r.choice([b"", ref_encode([(2, b"salt"), (3, b"pk")]), ref_encode(items)])
            replies = [ref_encode(sibs + [(12, b"")]), tail] if r.random() < 0.7 else \
                      [ref_encode([(12, b"")] + sibs), ref_encode([(12, b"")]), tail]
        if 0.9 < m < 0.93:
            replies = [ref_encode(items)]                   # plain, unfragmented reply
        if 0.93 <= m < 0.95:
            replies[0] = replies[0][:-1]                    # undecodable reply
        cases.append(replies)
    return cases


# ---------------------------------------------------------------- property oracle
def oracle_enc(items, impl):
    """Returns a description of the property failure of the implementation on this case, or None."""
    if not all(0 <= k <= 255 for k, _ in items) or any(k == 255 and len(v) for k, v in items):
        return None if impl == "err value" else ("invalid-not-rejected", f"invalid item list not rejected with ValueError: {impl}")
    want = ref_encode(items)
    if impl != "ok " + hx(want):
        slug = "noncanonical"
        if impl.startswith("ok") and any(len(v) == 0 and k != 255 for k, v in items):
            got = unhx(impl[3:])
            if got == ref_encode([(k, v) for k, v in items if len(v) or k == 255]):
                slug = "noncanonical:empty-value-dropped"
        return (slug, f"encoding differs from the canonical TLV8 encoding (got {impl[:60]}..., want {hx(want)[:60]}...)")
    if wf(items):
        back = impl_decode(want, None)
        if back != fmt_items(items):
            return ("roundtrip", f"round trip failed: decode(encode(d)) = {back[:80]}")
    return None


def oracle_dec(bs, exp, impl):
    want = ref_decode(bs, exp)
    if want is None:
        if impl == "err parse":
            return None
        slug = "truncated-not-parse-error:" + impl.split(" ")[0]
        if len(bs) >= 1 and ref_decode(bs[:-1], exp) is not None and impl == "other:IndexError":
            slug = "lone-type-byte-IndexError"
        return (slug, f"truncated input must raise TlvParseException, got {impl[:80]}")
    if impl != fmt_items(want):
        slug = "items-differ"
        if impl == "other:IndexError" and any(k == 7 and len(v) == 0 for k, v in want):
            slug = "empty-error-item-IndexError"
        return (slug, f"decoded items differ from the reference parse (got {impl[:80]}, want {fmt_items(want)[:80]})")
    return None


def ref_reasm(replies):
    """Reference for the pairing reassembly loop, written from its contract (not from the model): payloads are
    consumed in order; FragmentData (12) values are appended to a buffer and acknowledged, FragmentLast (13) ends
    the exchange, a payload with neither ends it too; items sent NEXT to a fragment item are part of the reply
    and come back in front of the items decoded from the buffer (a reassembled item wins over a sibling of the
    same type); at most 50 payloads."""
    buf, sib, acks = b"", [], 0
    for n, rep in enumerate(replies):
        if n >= 50:
            return "toomany"
        items = ref_decode(rep, None)
        if items is None:
            return f"fail {acks} parse"
        d = dict(items)
        sib += [(k, v) for k, v in items if k not in (12, 13)]
        if 13 in d or 12 not in d:
            if 13 in d:
                buf += d[13]
            r = ref_decode(buf, None)
            return f"fail {acks} parse" if r is None else f"done {acks} " + dict_str(dict(sib + r))
        buf += d[12]
        acks += 1
    return "toomany" if len(replies) >= 50 else "crash"


def oracle_reasm(replies, impl):
    """Independent of the model: the implementation's answer must be the reference's; for plainly fragmented
    scripts this says the result is the decoding of the concatenated pieces, for payloads that carry other items
    beside a fragment item it says none of them is lost."""
    want = ref_reasm(replies)
    if want == "crash" or impl == want:
        return None
    lost = ""
    if want.startswith("done") and impl.startswith("done"):
        wd = set(want.split(" ")[2:])
        gd = set(impl.split(" ")[2:])
        missing = sorted(wd - gd)
        if missing:
            lost = f" (items sent but not returned: {' '.join(missing)[:80]})"
    return ("reasm:wrong-result", f"reply of {len(replies)} payloads reassembled to {impl[:80]}, the reference "
            f"gives {want[:80]}{lost}")


# ---------------------------------------------------------------- sess: histories on live objects
# A session = initial caller-owned objects (bytes / bytearray) and a history of operations on ONE store:
#   ("E", [(k, ref), ...])   t = TLV.encode_list(items built from the live objects); t becomes a new object
#   ("D", expected|None, ref) TLV.decode_bytearray / decode_bytes of a live object; every result VALUE object is new
#   ("A", ref, bytes)        the caller extends a bytearray it holds (argument, encode result, decode result)
# Outputs and the final contents of ALL objects are compared: implementation vs Model/TlvObj.v (tlv_obj_run,
# extracted) vs ref_session (reference codec on immutable values; shares nothing with either).
def sess_line(objs, ops):
    toks = ["sess"] + [f"o:{k}:{hx(v)}" for k, v in objs] + ["--"]
    for op in ops:
        if op[0] == "E":
            toks.append("E:" + ",".join(f"{k}@{r}" for k, r in op[1]))
        elif op[0] == "D":
            toks.append(f"D:{hx(bytes(op[1])) if op[1] else '-'}:{op[2]}")
        else:
            toks.append(f"A:{op[1]}:{hx(op[2])}")
    return " ".join(toks)


def sess_fmt(outs, store):
    return " | ".join(outs) + " || " + " ".join(f"{k}:{hx(v)}" for k, v in store)


def ref_step(store, op):
    """store: list of [kind, bytes] (mutated in place); returns the output string of the call"""
    if op[0] == "E":
        items = [(k, store[r][1]) for k, r in op[1]]
        if any(k == 255 and len(v) for k, v in items):
            return "enc err value"
        t = ref_encode(items)
        store.append(["a", t])
        return "enc ok " + hx(t)
    if op[0] == "D":
        items = ref_decode(store[op[2]][1], op[1] or None)
        if items is None:
            return "dec err parse"
        base = len(store)
        store.extend(["a", bytes(v)] for _, v in items)
        return "dec ok " + (",".join(f"{k}@{base + i}" for i, (k, _) in enumerate(items)) or ".")
    if store[op[1]][0] == "a":
        store[op[1]][1] = store[op[1]][1] + op[2]
        return "app 1"
    return "app 0"


def ref_session(objs, ops):
    store = [[k, bytes(v)] for k, v in objs]
    outs = [ref_step(store, op) for op in ops]
    return sess_fmt(outs, store)


def impl_session(objs, ops, variant=0):
    from aiohomekit.protocol.tlv import TLV, TlvParseException
    live = [bytes(v) if k == "b" else bytearray(v) for k, v in objs]
    outs = []
    for n, op in enumerate(ops):
        try:
            if op[0] == "E":
                mk = tuple if (n + variant) % 2 == 0 else list
                arg = [mk((k, live[r])) for k, r in op[1]]
                if (n + variant) % 3 == 0:
                    arg = tuple(arg)
                try:
                    t = TLV.encode_list(arg)
                except ValueError:
                    outs.append("enc err value")
                    continue
                live.append(t)
                outs.append("enc ok " + hx(t))
            elif op[0] == "D":
                x = live[op[2]]
                exp = list(op[1]) if op[1] else None
                try:
                    # entry point: fixed per session (both for half of the sessions each), alternating in every fourth
                    via_bytes = not isinstance(x, bytearray) or (variant % 2 == 0 if variant % 4 != 3 else n % 2 == 0)
                    res = TLV.decode_bytes(x, exp) if via_bytes else TLV.decode_bytearray(x, exp)
                except TlvParseException:
                    outs.append("dec err parse")
                    continue
                base = len(live)
                live.extend(v for _, v in res)
                outs.append("dec ok " + (",".join(f"{int(k)}@{base + i}" for i, (k, _) in enumerate(res)) or "."))
            else:
                # x += bs as the caller writes it: in place on a bytearray; a RESULT object that happens to be
                # immutable bytes is rebound (the property does not say which of the two a result is)
                if isinstance(live[op[1]], bytearray) or op[1] >= len(objs):
                    live[op[1]] += op[2]
                    outs.append("app 1")
                else:
                    outs.append("app 0")
        except Exception as e:  # noqa
            outs.append(f"{ {'E': 'enc', 'D': 'dec', 'A': 'app'}[op[0]] } other:{type(e).__name__}")
            break
    return sess_fmt(outs, [("a" if isinstance(x, bytearray) or j >= len(objs) else "b", bytes(x)) for j, x in enumerate(live)])


def gen_sess(tier, r):
    cases = []
    n = 700 if tier == "quick" else 14000
    sizes = LENS + [300, 384, 600, 1000]
    for i in range(n):
        objs = []
        for j in range(r.choice([1, 2, 3, 4])):
            ln = r.choice(sizes + [r.randrange(0, 40), r.randrange(0, 40), r.randrange(256, 1500)])
            if i % 7 == 0 and j == 0:
                ln = r.choice([256, 300, 384, 511, 766, 1000])       # a long value first: SRP key / certificate
            data = bytes(r.getrandbits(8) for _ in range(ln)) if r.random() < 0.7 else bytes((3 + 7 * t) % 251 for t in range(ln))
            objs.append((r.choice("ab") if i % 7 else "a", data))
        store = [[k, bytes(v)] for k, v in objs]
        roles = ["init"] * len(store)           # init | enc | dec
        ops, last_e = [], None
        for _ in range(r.choice([2, 3, 4, 6, 9])):
            c = r.random()
            encs = [x for x, ro in enumerate(roles) if ro == "enc"]
            if c < 0.12 and last_e is not None:
                op = last_e                                          # the same argument again (retry / re-send)
            elif c < 0.45 or not encs:
                pool = [x for x, ro in enumerate(roles) if ro != "enc"] or list(range(len(store)))
                refs = [r.choice(pool) for _ in range(r.choice([1, 1, 2, 3, 4]))]
                a = []
                for x in refs:
                    k = r.choice([1, 2, 3, 5, 6, 9, 10, r.randrange(255)])
                    if a and a[-1][0] == k and r.random() < 0.85:
                        k = (k + 1) % 255
                    a.append((k, x))
                if r.random() < 0.1:
                    empt = [x for x, o in enumerate(store) if len(o[1]) == 0]
                    a.insert(r.randrange(len(a) + 1), (255, r.choice(empt) if empt and r.random() < 0.8 else r.randrange(len(store))))
                op = ("E", a)
                last_e = op
            elif c < 0.75:
                tgt = r.choice(encs) if r.random() < 0.9 else r.randrange(len(store))
                exp = None if r.random() < 0.7 else sorted({r.choice([1, 2, 3, 5, 6, 9, 10]) for _ in range(3)})
                op = ("D", exp, tgt)
            else:
                tgt = r.randrange(len(store))
                cur = len(store[tgt][1])
                ln = r.choice([1, 2, 3, 255, 256, max(1, 255 - cur), max(1, 256 - cur), r.randrange(1, 300)])
                op = ("A", tgt, bytes(r.getrandbits(8) for _ in range(ln)))
            before = len(store)
            ref_step(store, op)
            roles += [{"E": "enc", "D": "dec"}.get(op[0], "x")] * (len(store) - before)
            ops.append(op)
        if i % 6 == 1:
            # fixed shape: encode, decode the result, extend one decoded value in place, decode the SAME object again,
            # encode the argument again and encode the first decode result
            a = [(k, x) for x, k in zip(range(len(objs)), r.sample([1, 2, 3, 5, 6, 9, 10], len(objs)))]
            t = ref_decode(ref_encode([(k, objs[x][1]) for k, x in a]), None)
            e, base = len(objs), len(objs) + 1
            ops = [("E", a), ("D", None, e), ("A", base + r.randrange(len(t)), bytes(r.getrandbits(8) for _ in range(r.choice([1, 5, 255, 300])))),
                   ("D", None, e), ("E", a), ("E", [(k, base + j) for j, (k, _) in enumerate(t)])]
        cases.append((objs, ops))
    return cases


def oracle_sess(objs, ops, impl, variant=0):
    want = ref_session(objs, ops)
    if impl == want:
        return None
    # smallest failing prefix of the history (a prefix is always a valid history)
    for cut in range(1, len(ops) + 1):
        if impl_session(objs, ops[:cut], variant) != ref_session(objs, ops[:cut]):
            break
    io, wo = impl_session(objs, ops[:cut], variant), ref_session(objs, ops[:cut])
    iouts, istore = io.split(" || ")
    wouts, wstore = wo.split(" || ")
    il, wl = iouts.split(" | "), wouts.split(" | ")
    if il == wl:
        ch = [x for x, (a, b) in enumerate(zip(istore.split(" "), wstore.split(" "))) if a != b][:4]
        nin = len(objs)
        slug = "objects-changed:" + ("caller-argument" if any(x < nin for x in ch) else "result-object")
        text = (f"after {cut} call(s) on live objects the outputs are right but object(s) {ch} hold other contents than the "
                f"calls and the caller's own appends account for (objects 0..{nin - 1} are the caller's initial values)")
    else:
        d = next(x for x, (a, b) in enumerate(zip(il + ["?"], wl + ["?"])) if a != b)
        slug = "call-output:" + ops[d][0] + (":repeat" if ops[d] in ops[:d] else "")
        gi, gw = (il + ['?'])[d], (wl + ['?'])[d]
        text = (f"call {d} ({ops[d][0]}) of a history on live objects returned {gi[:40]}... ({len(gi)} chars), the reference "
                f"codec gives {gw[:40]}... ({len(gw)} chars) for the values the objects hold at that moment")
    return (slug, text, cut)


# ---------------------------------------------------------------- kernel cross-check of the extracted driver
def coq_bytes(b):
    return "[" + "; ".join(f"{x}%N" for x in bytes(b)) + "]"


def coq_items(items):
    return "[" + "; ".join(f"({k}%N, {coq_bytes(v)})" for k, v in items) + "]"


def vm_crosscheck(ctx, enc_pairs, dec_pairs):
    """Evaluate a sample of enc/dec requests with vm_compute inside Coq and compare with what the extracted
    OCaml driver answered (takes extraction + ocaml/drv*.ml out of the single-point-of-trust position)."""
    body = ["From Coq Require Import List NArith.", "From AHK Require Import Lib.Res Lib.ByteStr Model.Tlv.",
            "Import ListNotations.",
            "Definition show_b (r : res tlv_err bytes) := match r with Ok b => (0%N, b) | Err ParseError => (1%N, []) "
            "| Err ValueError => (2%N, []) | Crash => (3%N, []) | OutOfFuel => (4%N, []) end.",
            "Definition show_i (r : res tlv_err (list item)) := match r with Ok l => (0%N, l) | Err ParseError => (1%N, []) "
            "| Err ValueError => (2%N, []) | Crash => (3%N, []) | OutOfFuel => (4%N, []) end."]
    for items, _ in enc_pairs:
        body.append(f"Eval vm_compute in (show_b (tlv_encode {coq_items(items)})).")
    for (bs, exp), _ in dec_pairs:
        body.append(f"Eval vm_compute in (show_i (tlv_decode_exp {coq_bytes(bytes(exp) if exp else b'')} {coq_bytes(bs)})).")
    out = coq_eval(ctx["verif"], "C15", "crosscheck", "\n".join(body) + "\n", timeout=300)
    import re
    blocks = out.split("= ")[1:]
    bad = 0
    answers = [a for _, a in enc_pairs] + [a for _, a in dec_pairs]
    for blk, ans in zip(blocks, answers):
        nums = [int(x) for x in re.findall(r"(\d+)%N", blk.split(":")[0])]
        code = nums[0] if nums else -1
        want = {"ok": 0, "err parse": 1, "err value": 2, "crash": 3, "fuel": 4}["ok" if ans.startswith("ok") else ans]
        if code != want:
            bad += 1
            continue
        if ans.startswith("ok "):
            # compare the flattened byte content (structure is implied by the grammar of the answer)
            flat = []
            for tok in ans[3:].split(" "):
                if tok == ".":
                    continue
                if ":" in tok:
                    k, v = tok.split(":")
                    flat += [int(k)] + list(unhx(v))
                else:
                    flat += list(unhx(tok))
            if nums[1:] != flat:
                bad += 1
    return len(blocks), bad


# ---------------------------------------------------------------- run
def run(ctx):
    tier, seed = ctx["tier"], ctx["seed"]
    drv = Driver(ctx["driver"])
    cov = Coverage("enc: item list distinct and non-empty; dec: distinct byte string on which at least one fragment "
                   "was parsed or an error arose after the first byte; reasm: distinct reply script with >=1 reply; "
                   "sess: distinct history of >=2 calls on one set of live objects")
    viols = []

    def report(stream, case_repr, impl, model, orc, payload):
        if orc is not None:
            viols.append(violation(f"{stream}:{orc[0]}", f"{stream}: {orc[1]}", True,
                                   stream=stream, case=case_repr, impl=impl, model=model))
        elif impl != model:
            viols.append(violation(f"{stream}:model-mismatch", f"{stream}: implementation {impl[:100]} != model {model[:100]} "
                                   f"on {str(case_repr)[:120]}", False, stream=stream, case=case_repr, impl=impl, model=model,
                                   broken="correspondence Model/Tlv.v <-> aiohomekit/protocol/tlv.py"))

    # ---- enc
    enc_cases = gen_enc(tier, rng(seed, "c15enc"))
    lines = ["enc " + " ".join(f"{k}:{hx(v)}" for k, v in items) for items in enc_cases]
    model = enc_model = drv.batch(lines)
    spec = drv.batch(["spec " + " ".join(f"{k}:{hx(v)}" for k, v in items) if all(0 <= k for k, _ in items) else "spec"
                      for items in enc_cases])
    for idx, (items, m, sp) in enumerate(zip(enc_cases, model, spec)):
        if m.startswith("ok") and m != sp:
            viols.append(violation("enc:model-vs-spec", "model encode differs from spec_encode (theorem tlv_canonical contradicted?)",
                                   False, case=repr(items)))
        for shape in enc_shapes(idx, len(items)):
            impl, side = impl_encode_obj(items, shape)
            orc = oracle_enc(items, impl)
            case_repr = dict(items=[(k, hx(v)) for k, v in items], outer=shape[0], item_container=shape[1], value_kinds=list(shape[2]))
            if orc is None and side is not None:
                orc = side
            report("enc", case_repr, impl, m, orc, {})
            cov.case("e" + repr(items) + repr(shape), len(items) > 0,
                     sample=dict(stream="enc", items=[(k, len(v)) for k, v in items], shape=[shape[0], shape[1], list(shape[2])],
                                 impl=impl[:40]) if cov.evaluations % 997 == 0 else None,
                     enc_items=len(items), enc_maxlen=max([len(v) for _, v in items] + [0]), enc_result=impl.split(" ")[0],
                     enc_outer=shape[0], enc_item_container=shape[1],
                     enc_long_value_kind="+".join(sorted({vk for (_, v), vk in zip(items, shape[2]) if len(v) > 255})) or "none")
    # ---- dec
    dec_cases = gen_dec(tier, rng(seed, "c15dec"))
    lines = [f"dec {hx(bytes(exp)) if exp else '-'} {hx(bs)}" for bs, exp in dec_cases]
    model = dec_model = drv.batch(lines)
    for idx, ((bs, exp), m) in enumerate(zip(dec_cases, model)):
        impl = impl_decode(bs, exp, use_bytes=(idx % 2 == 1))
        orc = oracle_dec(bs, exp, impl)
        report("dec", dict(bytes=hx(bs), expected=exp), impl, m, orc, {})
        nontriv = (m.startswith("ok") and m != "ok .") or (m.startswith("err") and len(bs) > 1)
        cov.case("d" + hx(bs) + repr(exp), nontriv,
                 sample=dict(stream="dec", bytes=hx(bs)[:80], expected=exp, impl=impl[:60]) if idx % 9973 == 0 else None,
                 dec_len=min(len(bs), 8) if len(bs) < 8 else (len(bs) // 256 + 1) * 256, dec_result=impl.split(" ")[0],
                 dec_filter="none" if exp is None else ("empty" if not exp else "set"))
    # ---- reasm
    re_cases = gen_reasm(tier, rng(seed, "c15re"))
    lines = ["reasm " + " ".join(hx(x) for x in replies) for replies in re_cases]
    model = [model_reasm_canon(a) for a in drv.batch(lines)]

    async def all_reasm():
        return [await impl_reasm_async(replies) for replies in re_cases]
    impls = asyncio.run(all_reasm())
    for replies, m, impl in zip(re_cases, model, impls):
        orc = oracle_reasm(replies, impl)
        report("reasm", [hx(x) for x in replies], impl, m, orc, {})
        cov.case("r" + repr(replies), len(replies) >= 1,
                 sample=dict(stream="reasm", replies=[hx(x)[:40] for x in replies][:4], impl=impl[:60]) if cov.evaluations % 211 == 0 else None,
                 reasm_replies=len(replies), reasm_result=impl.split(" ")[0])
    # ---- sess
    se_cases = gen_sess(tier, rng(seed, "c15sess"))
    model = drv.batch([sess_line(objs, ops) for objs, ops in se_cases])
    for idx, ((objs, ops), m) in enumerate(zip(se_cases, model)):
        impl = impl_session(objs, ops, variant=idx)
        orc = oracle_sess(objs, ops, impl, idx)
        case_repr = dict(objects=[(k, hx(v)) for k, v in objs],
                         ops=[[op[0]] + [hx(x) if isinstance(x, bytes) else x for x in op[1:]] for op in ops])
        if orc is not None:
            case_repr["failing_prefix_ops"] = orc[2]
        report("sess", case_repr, impl[:4000], m[:4000], orc[:2] if orc else None, {})
        enc_args = [tuple(op[1]) for op in ops if op[0] == "E"]
        long_ba = any(objs[x][0] == "a" and len(objs[x][1]) > 255 for a in enc_args for _, x in a if x < len(objs))
        cov.case("s" + repr((objs, ops)), len(ops) >= 2,
                 sample=dict(stream="sess", objects=[(k, len(v)) for k, v in objs],
                             ops=[(op[0], op[1] if op[0] == "E" else op[-1] if op[0] == "D" else (op[1], len(op[2]))) for op in ops],
                             impl=impl.split(" || ")[0][:80]) if idx % 233 == 0 else None,
                 sess_ops=len(ops), sess_same_arg_encoded=max([enc_args.count(a) for a in enc_args] + [0]),
                 sess_long_bytearray_encoded=long_ba, sess_op_kinds="".join(sorted({op[0] for op in ops})),
                 sess_result="other" if "other:" in impl else "ok")
    # shrink the first decode violation for a smaller replay
    for v in viols:
        if v["payload"].get("stream") == "dec" and v["found_input"]:
            exp = v["payload"]["case"]["expected"]
            bs = unhx(v["payload"]["case"]["bytes"])
            small = shrink_bytes(bs, lambda c: oracle_dec(c, exp, impl_decode(c, exp)) is not None)
            v["payload"]["shrunk_bytes"] = hx(small)
            break
    step_e, step_d = max(1, len(enc_cases) // 8), max(1, len(dec_cases) // 12)
    enc_sample = [(enc_cases[i], enc_model[i]) for i in range(0, len(enc_cases), step_e)
                  if all(0 <= k for k, _ in enc_cases[i]) and sum(len(v) for _, v in enc_cases[i]) < 1200][:8]
    dec_sample = [(dec_cases[i], dec_model[i]) for i in range(0, len(dec_cases), step_d) if len(dec_cases[i][0]) < 1200][:12]
    n, bad = vm_crosscheck(ctx, enc_sample, dec_sample)
    cov.extra["vm_compute_crosscheck"] = dict(requests=n, disagreements=bad)
    if bad:
        viols.append(violation("extraction-vs-vm_compute", f"{bad} of {n} sampled requests: extracted driver and vm_compute disagree",
                               False, broken="extraction / ocaml driver glue"))
    cov.extra["exhaustive"] = True
    cov.extra["exhaustive_part"] = ("dec: all byte strings of length <= 2 and all strings of length <= %d over {0,1,2,3,254,255}; "
                                    "enc: all single items over 8 types x 12 boundary lengths, all pairs over the pair-length set"
                                    % (5 if tier == "quick" else 6))
    cov.extra["wf_domain"] = "round trip claimed for: types 0..255, separators (255) empty, no two adjacent items of equal type"
    return dict(coverage=cov.to_dict(), violations=viols)
