"""C20 correspondence: persistence of pairings and of the accessory cache.

Streams
  save    real Controller.save_data under the file-system shim (harness/ref/c20_fsshim.py), a crash
          injected before every primitive (open/truncate, each piece of each raw write, fsync,
          close, rename), in two crash views (all data kept / un-synced data lost); afterwards a
          fresh Controller loads the file.  The model (Model/Persist.v, extracted) replays the
          recorded operation list and predicts the directory contents and the class
          {old,new,missing,prefix,other} of the pairing file at every crash point.
  cache   the same for CharacteristicCacheFile (saved in place; must load as old/new/empty), plus
          every (sampled) strict prefix and unparsable corruptions of valid cache files.
  pair    pairing records of all transports through save_data -> fresh load_data.
  emap    entity maps (random well-formed + tests/fixtures) through Accessories.from_list /
          serialize / JSON / from_list, against the record model (Model/PersistRec.v).
Oracle: after any crash point the loaded pairing data equals the old or the new data (or nothing
was there before and nothing or the new data is there now); the cache never fails to load; round
trips are identities on the listed fields.
"""
from __future__ import annotations

import asyncio
import glob
import json
import os
import shutil
import tempfile
import zlib

from common import Coverage, Driver, hx, rng, violation
from ref.c20_fsshim import run_with_crash

SANDBOX_PARENT = "/tmp"


# ---------------------------------------------------------------- implementation side
def make_controller(cache=None):
    """A Controller with all three transports registered (must run inside an event loop)."""
    from unittest.mock import MagicMock

    from aiohomekit.controller import Controller
    from aiohomekit.controller.abstract import TransportType
    from aiohomekit.controller.ble.controller import BleController
    from aiohomekit.controller.coap.controller import CoAPController
    from aiohomekit.controller.ip.controller import IpController
    c = Controller(async_zeroconf_instance=MagicMock(), char_cache=cache)
    cc = c._char_cache
    c.transports[TransportType.IP] = IpController(char_cache=cc, zeroconf_instance=MagicMock())
    c.transports[TransportType.COAP] = CoAPController(char_cache=cc, zeroconf_instance=MagicMock())
    c.transports[TransportType.BLE] = BleController(char_cache=cc)
    return c


def controller_with(pairings):
    c = make_controller()
    for alias, pd in pairings.items():
        c.load_pairing(alias, json.loads(json.dumps(pd)))
    return c


def load_pairings(path):
    """What a fresh Controller sees: ('ok', {alias: pairing_data}) | ('broken',) | ('other', exc)."""
    from aiohomekit.exceptions import ConfigLoadingError
    c = make_controller()
    try:
        c.load_data(path)
    except ConfigLoadingError:
        return ("broken",)
    except Exception as e:  # noqa
        return ("other", type(e).__name__)
    return ("ok", {a: dict(p.pairing_data) for a, p in c.aliases.items()})


def load_cache(path):
    import pathlib

    from aiohomekit.characteristic_cache import CharacteristicCacheFile
    try:
        c = CharacteristicCacheFile(pathlib.Path(path))
    except Exception as e:  # noqa
        return ("other", type(e).__name__)
    return ("ok", c.storage_data)


# ---------------------------------------------------------------- sandbox helpers
def reset_dir(root, files):
    for fn in os.listdir(root):
        p = os.path.join(root, fn)
        if os.path.isdir(p):
            shutil.rmtree(p)
        else:
            os.unlink(p)
    for rel, content in files.items():
        with open(os.path.join(root, rel), "wb") as f:
            f.write(content)


def show_content(b: bytes) -> str:
    if len(b) <= 2048:
        return hx(b)
    return f"#{len(b)}.{zlib.adler32(b) & 0xFFFFFFFF}"


def listing(root, names):
    out = {}
    for fn in sorted(os.listdir(root)):
        with open(os.path.join(root, fn), "rb") as f:
            out[names.get(fn, fn)] = show_content(f.read())
    return out


def op_tok(o):
    k = o[0]
    if k in ("T", "A"):
        return f"{k}.{o[1]}.{o[2]}"
    if k == "W":
        return f"W.{o[1]}.{hx(o[2])}"
    if k in ("S", "C"):
        return f"{k}.{o[1]}"
    if k == "R":
        return f"R.{o[1]}.{o[2]}"
    if k == "U":
        return f"U.{o[1]}"
    raise ValueError(o)


def shape_of(ops, target):
    """Which modelled procedure the observed operation list is (for the coverage record)."""
    kinds = "".join(o[0] for o in ops)
    if not ops:
        return "none"
    w = kinds[1:].rstrip("SCR")
    if kinds[0] == "T" and set(w) <= {"W"}:
        tail = kinds[1 + len(w):]
        if ops[0][2] == target and tail == "C":
            return "inplace"
        if ops[0][2] != target and tail == "SCR" and ops[-1][1] == ops[0][2] and ops[-1][2] == target:
            return "atomic"
        if ops[0][2] != target and tail == "CR" and ops[-1][1] == ops[0][2] and ops[-1][2] == target:
            return "atomic-nofsync"
    touches = [i for i, o in enumerate(ops) if (o[0] in "TAU" and o[-1] == target) or (o[0] == "R" and target in o[1:])]
    if touches == [len(ops) - 1] and ops[-1][0] == "R" and ops[-1][2] == target:
        return "other-rename-last"
    return "other"


class CrashCase:
    """One save procedure run to completion once and then cut short before every primitive."""

    def __init__(self, root, drv, target_rel, init_files, make_action, loader, classify_loaded, max_pieces):
        self.root, self.drv, self.target_rel = root, drv, target_rel
        self.init_files, self.make_action, self.loader = init_files, make_action, loader
        self.classify_loaded, self.max_pieces = classify_loaded, max_pieces

    def run(self, views=("a", "l")):
        root = self.root
        reset_dir(root, self.init_files)
        names0 = {self.target_rel: 0}
        for rel in self.init_files:
            names0.setdefault(rel, len(names0))
        sim0, completed, exc = run_with_crash(root, self.make_action(), None, "a", self.max_pieces, names0)
        res = dict(ops=sim0.ops, names=dict(sim0.names), completed=completed, exc=exc,
                   unsupported=sim0.unsupported, points=[], shape=shape_of(sim0.ops, 0))
        tpath = os.path.join(root, self.target_rel)
        new_bytes = open(tpath, "rb").read() if os.path.exists(tpath) else b""
        res["new_bytes"] = new_bytes
        old_bytes = self.init_files.get(self.target_rel)
        res["old_bytes"] = old_bytes
        final_names = dict(sim0.names)
        inv = {}
        # model replay of every crash point
        inits = ";".join(f"{final_names[rel]}:{hx(c)}" for rel, c in self.init_files.items()) or "."
        req = "sim 0 %s %s %d %s %s" % ("!" if old_bytes is None else hx(old_bytes), hx(new_bytes),
                                        len(final_names), inits, " ".join(op_tok(o) for o in sim0.ops))
        ans = self.drv.batch([req])[0]
        model = {}
        for ent in ans.split("|"):
            n, v, cls, lst = ent.split(";")
            d = {}
            for kv in filter(None, lst.split(",")):
                k, c = kv.split("=")
                d[int(k)] = c
            model[(int(n), v)] = (cls, d)
        res["model"] = model
        for n in range(len(sim0.ops) + 1):
            for view in views:
                reset_dir(root, self.init_files)
                sim, comp, exc2 = run_with_crash(root, self.make_action(), n, view, self.max_pieces, names0)
                real_list = listing(root, sim.names if len(sim.names) >= len(final_names) else final_names)
                loaded = self.loader(tpath)
                res["points"].append(dict(n=n, view=view, ops_prefix_ok=(sim.ops == sim0.ops[:n]),
                                          listing=real_list, loaded=loaded, cls=self.classify_loaded(loaded),
                                          next_op=(sim0.ops[n][0] if n < len(sim0.ops) else "end"),
                                          exc=type(exc2).__name__ if exc2 else None))
        return res


# ---------------------------------------------------------------- generators: pairings
ALIASES = ["alias", "älias ☃", "日本語のエイリアス", "🏠 home", "a\"b\\c", "tab\there", "x" * 70, "", "Ünï/cödé:1",
           "ключ", "a b", "é́"]


def hexs(r, n):
    return bytes(r.getrandbits(8) for _ in range(n)).hex()


def gen_pairing(r, transport=None, idx=0):
    t = transport or r.choice(["IP", "IP", "BLE", "CoAP"])
    pid = ":".join(f"{r.getrandbits(8):02X}" for _ in range(6))
    d = {
        "AccessoryPairingID": pid if r.random() < 0.8 else pid.lower(),
        "AccessoryLTPK": hexs(r, 32),
        "iOSPairingId": "%08x-%04x-%04x-%04x-%012x" % (r.getrandbits(32), r.getrandbits(16), r.getrandbits(16),
                                                     r.getrandbits(16), r.getrandbits(48)),
        "iOSDeviceLTSK": hexs(r, 32),
        "iOSDeviceLTPK": hexs(r, 32),
        "Connection": t,
    }
    if t == "IP":
        d["AccessoryIP"] = r.choice(["192.168.1.%d" % r.randrange(1, 255), "fe80::%x" % r.getrandbits(16), "127.0.0.1"])
        d["AccessoryPort"] = r.choice([80, 51826, 65535, r.randrange(1, 65536)])
        if r.random() < 0.5:
            d["AccessoryIPs"] = [d["AccessoryIP"]] + ["10.0.0.%d" % r.randrange(1, 255) for _ in range(r.randrange(0, 3))]
    elif t == "CoAP":
        d["AccessoryIP"] = "fd00::%x:%x" % (r.getrandbits(16), r.getrandbits(16))
        d["AccessoryPort"] = r.choice([5683, r.randrange(1, 65536)])
    else:
        d["AccessoryAddress"] = ":".join(f"{r.getrandbits(8):02X}" for _ in range(6))
    if r.random() < 0.2:
        d["name"] = r.choice(["Living room ☀", "Küche", "x"])           # extra, unknown field must survive too
    items = list(d.items())
    r.shuffle(items)
    return dict(items)


def gen_pairing_set(r, k=None, transports=None):
    k = k if k is not None else r.choice([1, 1, 2, 3, 5])
    aliases = r.sample(ALIASES, k)
    out = {}
    for i, a in enumerate(aliases):
        out[a] = gen_pairing(r, transports[i % len(transports)] if transports else None, i)
    return out


def dumps_file(pairings) -> bytes:
    """An independently produced valid pairing file (stdlib json, not hkjson)."""
    return json.dumps(pairings, ensure_ascii=False, indent=2).encode("utf-8")


# ---------------------------------------------------------------- stream: save_data crash points
def classify_pairings(old, new):
    def f(loaded):
        if loaded[0] != "ok":
            return loaded[0] if loaded[0] == "broken" else "other:" + loaded[1]
        d = loaded[1]
        if old is not None and d == old:
            return "old"
        if d == new:
            return "new"
        if not d:
            return "empty"
        return "different"
    return f


MODEL_TO_LOAD = {"old": "old", "new": "new", "missing": "empty", "prefix": "broken"}


def stream_save(ctx, drv, cov, viols, root, r):
    tier = ctx["tier"]
    n_saves = 30 if tier == "quick" else 600
    stats = dict(saves=0, crash_points=0, shapes={}, results={})
    first_violation = {}
    for i in range(n_saves):
        have_old = not (i % 7 == 3)
        old = gen_pairing_set(r) if have_old else None
        if i % 5 == 0 and old is not None:                       # remove / add / change one pairing
            new = dict(old)
            new.pop(next(iter(new)))
            if not new or i % 10 == 0:
                new.update(gen_pairing_set(r, 1))
        elif i == 1:
            new = gen_pairing_set(r, 3, ["IP", "BLE", "CoAP"])
        else:
            new = gen_pairing_set(r)
        if old is not None and i % 11 == 4:
            new = json.loads(json.dumps(old))                    # unchanged data saved again
        stale = {"pairing.json.tmp": b"stale"} if i % 9 == 5 else {}
        init = dict(stale)
        if old is not None:
            init["pairing.json"] = dumps_file(old)
        ctl = controller_with(new)
        path = os.path.join(root, "pairing.json")
        max_pieces = 0 if (i < 1 and tier == "quick") or (i < 6 and tier != "quick") else (6 if tier == "quick" else 16)
        if max_pieces == 0:
            # every byte boundary: keep the document small (quadratic number of raw writes)
            new = {ALIASES[(i + 1) % 4]: gen_pairing(r, ["BLE", "IP", "CoAP"][i % 3])}
            ctl = controller_with(new)
        case = CrashCase(root, drv, "pairing.json", init, lambda: (lambda: ctl.save_data(path)), load_pairings,
                         classify_pairings(old, new), max_pieces)
        res = case.run()
        stats["saves"] += 1
        stats["shapes"][res["shape"]] = stats["shapes"].get(res["shape"], 0) + 1
        judge_crash_case("save_data", res, old is not None, cov, viols, first_violation, stats,
                         dict(old=old, new=new, stale=sorted(stale)), MODEL_TO_LOAD, {"old", "new"}, {"empty", "new"})
    cov.extra["save_stream"] = stats
    return stats


def judge_crash_case(site, res, have_old, cov, viols, first_violation, stats, case_repr, model_to_load, ok_with_old, ok_fresh):
    if res["exc"] is not None or not res["completed"]:
        viols.append(violation(f"{site}:uninterrupted-save-failed", f"{site}: the uninterrupted save raised "
                               f"{type(res['exc']).__name__ if res['exc'] else 'nothing but did not complete'}", True,
                               case=case_repr))
        return
    if res["unsupported"]:
        viols.append(violation(f"{site}:shim-unsupported", f"{site}: file operation outside the shim's vocabulary: "
                               f"{res['unsupported'][:3]}", False, broken="file-system shim coverage"))
    inv = {v: k for k, v in res["names"].items()}
    allowed = ok_with_old if have_old else ok_fresh
    for pt in res["points"]:
        stats["crash_points"] += 1
        n, view = pt["n"], pt["view"]
        mcls, mlist = res["model"][(n, view)]
        real_list = {k: v for k, v in pt["listing"].items()}
        key_res = f"{res['shape']}/{view}/{pt['next_op']}/{pt['cls']}"
        stats["results"][key_res] = stats["results"].get(key_res, 0) + 1
        canon = f"{site}|{case_repr!r}|{n}|{view}"
        cov.case(canon, True,
                 sample=dict(stream=site, crash_before_op=n, of=len(res["ops"]), view=view, next_op=pt["next_op"],
                             shape=res["shape"], loaded=pt["cls"], model=mcls) if stats["crash_points"] % 97 == 1 else None,
                 **{f"{site}_view": view, f"{site}_next_op": pt["next_op"], f"{site}_loaded": pt["cls"],
                    f"{site}_shape": res["shape"]})
        replay = dict(site=site, case=case_repr, ops=[op_tok(o)[:80] for o in res["ops"]], names=res["names"],
                      crash_before_op=n, view=view, next_op=pt["next_op"], loaded=pt["cls"],
                      file_after_crash=real_list.get(0, "missing"), expected="one of " + "/".join(sorted(allowed)))
        if pt["cls"] not in allowed:
            slug = "crash-loses-data" if view == "a" else "unsynced-data-loss"
            key = f"{site}:{slug}:{res['shape']}"
            if key not in first_violation:
                first_violation[key] = True
                what = (f"{site} ({res['shape']} procedure) interrupted before primitive #{n} ({pt['next_op']}) of "
                        f"{len(res['ops'])}, view={'all data kept' if view == 'a' else 'un-synced data lost'}: a fresh "
                        f"loader sees '{pt['cls']}' instead of the old or the new data")
                viols.append(violation(key, what, True, **replay))
            continue
        if not pt["ops_prefix_ok"]:
            viols.append(violation(f"{site}:nondeterministic-ops", f"{site}: operation list differs between runs", False, **replay))
            continue
        # correspondence: directory contents and the loader's class as predicted by the model
        real_named = {k: v for k, v in real_list.items()}
        if real_named != mlist:
            viols.append(violation(f"{site}:model-mismatch:disk", f"{site}: directory after crash point {n}/{view} is "
                                   f"{ {inv.get(k, k): v[:40] for k, v in real_named.items()} } but the model predicts "
                                   f"{ {inv.get(k, k): v[:40] for k, v in mlist.items()} }", False,
                                   broken="correspondence Model/Persist.v <-> file operations of " + site, **replay))
        elif mcls in model_to_load and model_to_load[mcls] != pt["cls"]:
            viols.append(violation(f"{site}:model-mismatch:load", f"{site}: loader sees {pt['cls']} where the model "
                                   f"(class {mcls}) predicts {model_to_load[mcls]}", False,
                                   broken="codec hypotheses (parse.print / strict prefixes) or loader model", **replay))


# ---------------------------------------------------------------- run
async def run_async(ctx):
    tier, seed = ctx["tier"], ctx["seed"]
    drv = Driver(ctx["driver"])
    cov = Coverage("distinct (stream, case, crash point, view) for the crash streams; distinct document for the "
                   "round-trip streams; distinct byte string for the prefix/corruption stream")
    viols = []
    root = tempfile.mkdtemp(prefix="verif_c20_", dir=SANDBOX_PARENT)
    try:
        stream_save(ctx, drv, cov, viols, root, rng(seed, "c20save"))
    finally:
        shutil.rmtree(root, ignore_errors=True)
        for t in asyncio.all_tasks():
            if t is not asyncio.current_task():
                t.cancel()
    cov.extra["exhaustive"] = True
    cov.extra["exhaustive_part"] = ("every primitive operation of every generated save is a crash point (in both crash "
                                    "views); for the first saves every byte boundary of the written text is a crash point")
    cov.extra["sandbox"] = "fresh directory under /tmp per run, removed afterwards; no file under /repo or /verif is written"
    return dict(coverage=cov.to_dict(), violations=viols)


def run(ctx):
    return asyncio.run(run_async(ctx))
