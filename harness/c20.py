"""C20 correspondence: persistence of pairings and of the accessory cache.

Streams
  save    real Controller.save_data under the file-system shim (harness/ref/c20_fsshim.py), a crash
          injected before every primitive (open/truncate, each piece of each raw write, fsync,
          close, rename), in two crash views (all data kept / un-synced data lost); afterwards a
          fresh Controller loads the file.  The model (Model/Persist.v, extracted) replays the
          recorded operation list and predicts the directory contents and the class
          {old,new,missing,prefix,other} of the pairing file at every crash point.
  cache   the same for CharacteristicCacheFile (saved in place; must load as old/new/empty), plus
          every (sampled) strict prefix and unparsable corruptions of valid cache files.
  pair    pairing records of all transports through save_data -> fresh load_data.
  seq     histories of add / remove (real Controller.remove_pairing) / save / restart over 0..3 pairings, exhaustive
          for short histories plus walks N -> ... -> 0 -> 1; after every restart the loaded set equals the last
          saved one (also the empty set); crash injection on the transition to the empty set.
  cachehist histories of update_map / delete_map / restart over two pairing ids through CharacteristicCacheFile and
          through AbstractPairing.restore_accessories_state; after every restart each id holds what was written last.
  layout  save_data crash points when the pairing path is a symlink (same / other directory, dangling) or lies in a
          symlinked directory; the same path must load the old or the new data at every crash point.
  blewt   the BLE pairing methods that decide whether/what to write through (_async_set_broadcast_encryption_key,
          _update_state_num, _async_description_update, restore_accessories_state) on a live BlePairing; after every
          step a restart must see the config number, state number and broadcast key just established.
  jcodec  the concrete JSON codec (Model/PersistJson.v): real files = jprint of their lexical tree, jparse = tree,
          every / every structural strict prefix is rejected by the model AND by the real load_data, corruptions.
  emap    entity maps (random well-formed + tests/fixtures) through Accessories.from_list /
          serialize / JSON / from_list, against the record model (Model/PersistRec.v).
Oracle: after any crash point the loaded pairing data equals the old or the new data (or nothing
was there before and nothing or the new data is there now); the cache never fails to load; round
trips are identities on the listed fields.
"""
from __future__ import annotations

import asyncio
import glob
import json
import os
import shutil
import tempfile
import zlib

from common import Coverage, Driver, hx, rng, violation
from ref.c20_fsshim import run_with_crash

SANDBOX_PARENT = "/tmp"


# ---------------------------------------------------------------- implementation side
def make_controller(cache=None, transports=("IP", "CoAP", "BLE")):
    """A Controller with the given transports registered (must run inside an event loop)."""
    from unittest.mock import MagicMock

    from aiohomekit.controller import Controller
    from aiohomekit.controller.abstract import TransportType
    from aiohomekit.controller.ble.controller import BleController
    from aiohomekit.controller.coap.controller import CoAPController
    from aiohomekit.controller.ip.controller import IpController
    c = Controller(async_zeroconf_instance=MagicMock(), char_cache=cache)
    cc = c._char_cache
    if "IP" in transports:
        c.transports[TransportType.IP] = IpController(char_cache=cc, zeroconf_instance=MagicMock())
    if "CoAP" in transports:
        c.transports[TransportType.COAP] = CoAPController(char_cache=cc, zeroconf_instance=MagicMock())
    if "BLE" in transports:
        c.transports[TransportType.BLE] = BleController(char_cache=cc)
    return c


def controller_with(pairings):
    c = make_controller()
    for alias, pd in pairings.items():
        c.load_pairing(alias, json.loads(json.dumps(pd)))
    return c


def load_pairings(path, transports=("IP", "CoAP", "BLE")):
    """What a fresh Controller sees: ('ok', {alias: pairing_data}) | ('broken',) | ('other', exc)."""
    from aiohomekit.exceptions import ConfigLoadingError
    c = make_controller(None, transports)
    try:
        c.load_data(path)
    except ConfigLoadingError:
        return ("broken",)
    except Exception as e:  # noqa
        return ("other", type(e).__name__)
    return ("ok", {a: dict(p.pairing_data) for a, p in c.aliases.items()})


def load_cache(path):
    import pathlib

    from aiohomekit.characteristic_cache import CharacteristicCacheFile
    try:
        c = CharacteristicCacheFile(pathlib.Path(path))
    except Exception as e:  # noqa
        return ("other", type(e).__name__)
    return ("ok", c.storage_data)


# ---------------------------------------------------------------- sandbox helpers
def reset_dir(root, files):
    """files: relative path -> bytes | ("link", target relative to the sandbox root) | ("dirlink", target dir)."""
    for fn in os.listdir(root):
        p = os.path.join(root, fn)
        if os.path.isdir(p) and not os.path.islink(p):
            shutil.rmtree(p)
        else:
            os.unlink(p)
    for rel, content in files.items():
        p = os.path.join(root, rel)
        if isinstance(content, tuple):
            if content[0] == "dirlink":
                os.makedirs(os.path.join(root, content[1]), exist_ok=True)
            os.makedirs(os.path.dirname(p), exist_ok=True)
            os.symlink(os.path.join(root, content[1]), p)
    for rel, content in files.items():
        if isinstance(content, tuple):
            continue
        p = os.path.join(root, rel)
        os.makedirs(os.path.dirname(p), exist_ok=True)
        with open(p, "wb") as f:
            f.write(content)


def show_content(b: bytes) -> str:
    if len(b) <= 2048:
        return hx(b)
    return f"#{len(b)}.{zlib.adler32(b) & 0xFFFFFFFF}"


def listing(root, names):
    """Regular files of the sandbox (recursively; symlinks are not listed, directories reached through a link are not
    entered): name -> content."""
    out = {}
    for d, dirs, fns in os.walk(root):
        for fn in sorted(fns):
            p = os.path.join(d, fn)
            if os.path.islink(p):
                continue
            rel = os.path.relpath(p, root)
            with open(p, "rb") as f:
                out[names.get(rel, rel)] = show_content(f.read())
    return out


def op_tok(o):
    k = o[0]
    if k in ("T", "A"):
        return f"{k}.{o[1]}.{o[2]}"
    if k == "W":
        return f"W.{o[1]}.{hx(o[2])}"
    if k in ("S", "C"):
        return f"{k}.{o[1]}"
    if k == "R":
        return f"R.{o[1]}.{o[2]}"
    if k == "U":
        return f"U.{o[1]}"
    raise ValueError(o)


def shape_of(ops, target):
    """Which modelled procedure the observed operation list is (for the coverage record)."""
    kinds = "".join(o[0] for o in ops)
    if not ops:
        return "none"
    w = kinds[1:].rstrip("SCR")
    if kinds[0] == "T" and set(w) <= {"W"}:
        tail = kinds[1 + len(w):]
        if ops[0][2] == target and tail == "C":
            return "inplace"
        if ops[0][2] != target and tail == "SCR" and ops[-1][1] == ops[0][2] and ops[-1][2] == target:
            return "atomic"
        if ops[0][2] != target and tail == "CR" and ops[-1][1] == ops[0][2] and ops[-1][2] == target:
            return "atomic-nofsync"
    touches = [i for i, o in enumerate(ops) if (o[0] in "TAU" and o[-1] == target) or (o[0] == "R" and target in o[1:])]
    if touches == [len(ops) - 1] and ops[-1][0] == "R" and ops[-1][2] == target:
        return "other-rename-last"
    return "other"


class CrashCase:
    """One save procedure run to completion once and then cut short before every primitive."""

    def __init__(self, root, drv, target_rel, init_files, make_action, loader, classify_loaded, max_pieces, load_rel=None):
        self.load_rel = load_rel or target_rel          # the path the application uses (may go through symlinks)
        self.root, self.drv, self.target_rel = root, drv, target_rel
        self.init_files, self.make_action, self.loader = init_files, make_action, loader
        self.classify_loaded, self.max_pieces = classify_loaded, max_pieces

    def run(self, views=("a", "l")):
        root = self.root
        reset_dir(root, self.init_files)
        names0 = {self.target_rel: 0}
        for rel in self.init_files:
            names0.setdefault(rel, len(names0))
        sim0, completed, exc = run_with_crash(root, self.make_action(), None, "a", self.max_pieces, names0)
        res = dict(ops=sim0.ops, names=dict(sim0.names), completed=completed, exc=exc,
                   unsupported=sim0.unsupported, points=[], shape=shape_of(sim0.ops, 0))
        tpath = os.path.join(root, self.load_rel)
        new_bytes = open(tpath, "rb").read() if os.path.exists(tpath) else b""
        res["new_bytes"] = new_bytes
        links = {rel: c[1] for rel, c in self.init_files.items() if isinstance(c, tuple) and c[0] == "link"}
        old_bytes = self.init_files.get(links.get(self.target_rel, self.target_rel))
        if isinstance(old_bytes, tuple):
            old_bytes = None
        res["old_bytes"] = old_bytes
        res["dangling"] = self.target_rel in links and old_bytes is None
        final_names = dict(sim0.names)
        # model replay of every crash point
        for rel in list(self.init_files) + list(links.values()):
            final_names.setdefault(rel, len(final_names))
        # a symlink to an existing file is a second name of the same inode in the model (same behaviour for
        # open-through, rename-over and unlink); regular files first so that the alias can refer to them
        inits = ";".join([f"{final_names[rel]}:{hx(c)}" for rel, c in self.init_files.items() if not isinstance(c, tuple)]
                         + [f"{final_names[rel]}={final_names[t]}" for rel, t in links.items()
                            if not isinstance(self.init_files.get(t, ("x",)), tuple)]) or "."
        req = "sim 0 %s %s %d %s %s" % ("!" if old_bytes is None else hx(old_bytes), hx(new_bytes),
                                        len(final_names), inits, " ".join(op_tok(o) for o in sim0.ops))
        reqs = [req]
        kind = {"inplace": "inplace", "atomic": "atomic", "atomic-nofsync": "nofsync"}.get(res["shape"])
        if kind:
            # the observed operation list must literally be the procedure the theorems are about
            tmp = sim0.ops[0][2]
            reqs.append("proc %s %d %d 0 %s" % (kind, sim0.ops[0][1], tmp, " ".join(hx(o[2]) for o in sim0.ops if o[0] == "W")))
        answers = self.drv.batch(reqs)
        ans = answers[0]
        res["proc_matches"] = (answers[1] == " ".join(op_tok(o) for o in sim0.ops)) if kind else None
        model = {}
        for ent in ans.split("|"):
            n, v, cls, lst = ent.split(";")
            d = {}
            for kv in filter(None, lst.split(",")):
                k, c = kv.split("=")
                d[int(k)] = c
            model[(int(n), v)] = (cls, d)
        res["model"] = model
        for n in range(len(sim0.ops) + 1):
            for view in views:
                reset_dir(root, self.init_files)
                sim, comp, exc2 = run_with_crash(root, self.make_action(), n, view, self.max_pieces, names0)
                real_list = listing(root, {**final_names, **sim.names})
                live_links = sorted(final_names[rel] for rel in links if os.path.islink(os.path.join(root, rel)))
                loaded = self.loader(tpath)
                res["points"].append(dict(n=n, view=view, ops_prefix_ok=(sim.ops == sim0.ops[:n]),
                                          listing=real_list, live_links=live_links, loaded=loaded, cls=self.classify_loaded(loaded),
                                          next_op=(sim0.ops[n][0] if n < len(sim0.ops) else "end"),
                                          exc=type(exc2).__name__ if exc2 else None))
        return res


# ---------------------------------------------------------------- generators: pairings
ALIASES = ["alias", "älias ☃", "日本語のエイリアス", "🏠 home", "a\"b\\c", "tab\there", "x" * 70, "", "Ünï/cödé:1",
           "ключ", "a b", "é́"]


def hexs(r, n):
    return bytes(r.getrandbits(8) for _ in range(n)).hex()


def gen_pairing(r, transport=None, idx=0):
    t = transport or r.choice(["IP", "IP", "BLE", "CoAP"])
    pid = ":".join(f"{r.getrandbits(8):02X}" for _ in range(6))
    d = {
        "AccessoryPairingID": pid if r.random() < 0.8 else pid.lower(),
        "AccessoryLTPK": hexs(r, 32),
        "iOSPairingId": "%08x-%04x-%04x-%04x-%012x" % (r.getrandbits(32), r.getrandbits(16), r.getrandbits(16),
                                                     r.getrandbits(16), r.getrandbits(48)),
        "iOSDeviceLTSK": hexs(r, 32),
        "iOSDeviceLTPK": hexs(r, 32),
        "Connection": t,
    }
    if t == "IP":
        d["AccessoryIP"] = r.choice(["192.168.1.%d" % r.randrange(1, 255), "fe80::%x" % r.getrandbits(16), "127.0.0.1"])
        d["AccessoryPort"] = r.choice([80, 51826, 65535, r.randrange(1, 65536)])
        if r.random() < 0.5:
            d["AccessoryIPs"] = [d["AccessoryIP"]] + ["10.0.0.%d" % r.randrange(1, 255) for _ in range(r.randrange(0, 3))]
    elif t == "CoAP":
        d["AccessoryIP"] = "fd00::%x:%x" % (r.getrandbits(16), r.getrandbits(16))
        d["AccessoryPort"] = r.choice([5683, r.randrange(1, 65536)])
    else:
        d["AccessoryAddress"] = ":".join(f"{r.getrandbits(8):02X}" for _ in range(6))
    if r.random() < 0.2:
        d["name"] = r.choice(["Living room ☀", "Küche", "x"])           # extra, unknown field must survive too
    items = list(d.items())
    r.shuffle(items)
    return dict(items)


def gen_pairing_set(r, k=None, transports=None):
    k = k if k is not None else r.choice([1, 1, 2, 3, 5])
    aliases = r.sample(ALIASES, k)
    out = {}
    for i, a in enumerate(aliases):
        out[a] = gen_pairing(r, transports[i % len(transports)] if transports else None, i)
    return out


def dumps_file(pairings) -> bytes:
    """An independently produced valid pairing file (stdlib json, not hkjson)."""
    return json.dumps(pairings, ensure_ascii=False, indent=2).encode("utf-8")


# ---------------------------------------------------------------- stream: save_data crash points
def classify_pairings(old, new):
    def f(loaded):
        if loaded[0] != "ok":
            return loaded[0] if loaded[0] == "broken" else "other:" + loaded[1]
        d = loaded[1]
        if old is not None and d == old:
            return "old"
        if d == new:
            return "new"
        if not d:
            return "empty"
        return "different"
    return f


MODEL_TO_LOAD = {"old": "old", "new": "new", "missing": "empty", "prefix": "broken"}


def stream_save(ctx, drv, cov, viols, root, r):
    tier = ctx["tier"]
    n_saves = 30 if tier == "quick" else 600
    stats = dict(saves=0, crash_points=0, shapes={}, results={})
    first_violation = {}
    for i in range(n_saves):
        have_old = not (i % 7 == 3)
        old = gen_pairing_set(r) if have_old else None
        if i % 5 == 0 and old is not None:                       # remove / add / change one pairing
            new = dict(old)
            new.pop(next(iter(new)))
            if not new or i % 10 == 0:
                new.update(gen_pairing_set(r, 1))
        elif i == 1:
            new = gen_pairing_set(r, 3, ["IP", "BLE", "CoAP"])
        else:
            new = gen_pairing_set(r)
        if old is not None and i % 11 == 4:
            new = json.loads(json.dumps(old))                    # unchanged data saved again
        stale = {"pairing.json.tmp": b"stale"} if i % 9 == 5 else {}
        init = dict(stale)
        if old is not None:
            init["pairing.json"] = dumps_file(old)
        ctl = controller_with(new)
        path = os.path.join(root, "pairing.json")
        max_pieces = 0 if (i < 1 and tier == "quick") or (i < 6 and tier != "quick") else (6 if tier == "quick" else 12)
        if max_pieces == 0:
            # every byte boundary: keep the document small (quadratic number of raw writes)
            new = {ALIASES[(i + 1) % 4]: gen_pairing(r, ["BLE", "IP", "CoAP"][i % 3])}
            ctl = controller_with(new)
        case = CrashCase(root, drv, "pairing.json", init, lambda: (lambda: ctl.save_data(path)), load_pairings,
                         classify_pairings(old, new), max_pieces)
        res = case.run()
        res["old_equals_new"] = (old == new)
        stats["saves"] += 1
        stats["shapes"][res["shape"]] = stats["shapes"].get(res["shape"], 0) + 1
        judge_crash_case("save_data", res, old is not None, cov, viols, first_violation, stats,
                         dict(old=old, new=new, stale=sorted(stale)), MODEL_TO_LOAD, {"old", "new"}, {"empty", "new"})
    cov.extra["save_stream"] = stats
    return stats


def judge_crash_case(site, res, have_old, cov, viols, first_violation, stats, case_repr, model_to_load, ok_with_old, ok_fresh):
    if res["exc"] is not None or not res["completed"]:
        viols.append(violation(f"{site}:uninterrupted-save-failed", f"{site}: the uninterrupted save raised "
                               f"{type(res['exc']).__name__ if res['exc'] else 'nothing but did not complete'}", True,
                               case=case_repr))
        return
    if res["unsupported"]:
        viols.append(violation(f"{site}:shim-unsupported", f"{site}: file operation outside the shim's vocabulary: "
                               f"{res['unsupported'][:3]}", False, broken="file-system shim coverage"))
    if res.get("proc_matches") is False:
        viols.append(violation(f"{site}:model-mismatch:procedure", f"{site}: the operation list looks like the "
                               f"{res['shape']} procedure but differs from the model's list", False,
                               ops=[op_tok(o)[:60] for o in res["ops"]][:12], broken="Model/Persist.v save_" + res["shape"]))
    stats["procedure_is_modelled_one"] = stats.get("procedure_is_modelled_one", 0) + (res.get("proc_matches") is True)
    inv = {v: k for k, v in res["names"].items()}
    allowed = ok_with_old if have_old else ok_fresh
    for pt in res["points"]:
        stats["crash_points"] += 1
        n, view = pt["n"], pt["view"]
        mcls, mlist = res["model"][(n, view)]
        mlist = {k: v for k, v in mlist.items() if k not in pt.get("live_links", [])}      # symlinks are not listed
        if res.get("dangling"):
            mcls = "unmodelled"                                                          # no alias for a dangling link
        real_list = {k: v for k, v in pt["listing"].items()}
        key_res = f"{res['shape']}/{view}/{pt['next_op']}/{pt['cls']}"
        stats["results"][key_res] = stats["results"].get(key_res, 0) + 1
        canon = f"{site}|{case_repr!r}|{n}|{view}"
        cov.case(canon, True,
                 sample=dict(stream=site, crash_before_op=n, of=len(res["ops"]), view=view, next_op=pt["next_op"],
                             shape=res["shape"], loaded=pt["cls"], model=mcls) if stats["crash_points"] % 401 == 1 else None,
                 **{f"{site}_view": view, f"{site}_next_op": pt["next_op"], f"{site}_loaded": pt["cls"],
                    f"{site}_shape": res["shape"]})
        replay = dict(site=site, case=case_repr, ops=[op_tok(o)[:80] for o in res["ops"]], names=res["names"],
                      crash_before_op=n, view=view, next_op=pt["next_op"], loaded=pt["cls"],
                      file_after_crash=real_list.get(0, "missing"), expected="one of " + "/".join(sorted(allowed)))
        if n == len(res["ops"]) and view == "a" and pt["cls"] != "new" and not res.get("old_equals_new"):
            # the uninterrupted save (theorem save_complete): a restart must see exactly what was saved
            key = f"{site}:completed-save-not-persisted"
            if key not in first_violation:
                first_violation[key] = True
                viols.append(violation(key, f"{site} ran to completion ({len(res['ops'])} file operations, procedure "
                                       f"'{res['shape']}') but a fresh loader sees '{pt['cls']}' instead of the data that "
                                       f"was saved", True, **replay))
            continue
        if pt["cls"] not in allowed:
            slug = "crash-loses-data" if view == "a" else "unsynced-data-loss"
            key = f"{site}:{slug}:{res['shape']}"
            if key not in first_violation:
                first_violation[key] = True
                what = (f"{site} ({res['shape']} procedure) interrupted before primitive #{n} ({pt['next_op']}) of "
                        f"{len(res['ops'])}, view={'all data kept' if view == 'a' else 'un-synced data lost'}: a fresh "
                        f"loader sees '{pt['cls']}' instead of the old or the new data")
                viols.append(violation(key, what, True, **replay))
            continue
        if not pt["ops_prefix_ok"]:
            viols.append(violation(f"{site}:nondeterministic-ops", f"{site}: operation list differs between runs", False, **replay))
            continue
        # correspondence: directory contents and the loader's class as predicted by the model
        real_named = {k: v for k, v in real_list.items()}
        if real_named != mlist:
            viols.append(violation(f"{site}:model-mismatch:disk", f"{site}: directory after crash point {n}/{view} is "
                                   f"{ {inv.get(k, k): v[:40] for k, v in real_named.items()} } but the model predicts "
                                   f"{ {inv.get(k, k): v[:40] for k, v in mlist.items()} }", False,
                                   broken="correspondence Model/Persist.v <-> file operations of " + site, **replay))
        elif mcls in model_to_load and model_to_load[mcls] != pt["cls"] and not (
                res.get("old_equals_new") and {model_to_load[mcls], pt["cls"]} <= {"old", "new"}):
            viols.append(violation(f"{site}:model-mismatch:load", f"{site}: loader sees {pt['cls']} where the model "
                                   f"(class {mcls}) predicts {model_to_load[mcls]}", False,
                                   broken="codec hypotheses (parse.print / strict prefixes) or loader model", **replay))


# ---------------------------------------------------------------- JSON <-> driver tokens
def to_tokens(v, out=None):
    import decimal
    top = out is None
    out = [] if top else out
    if v is None:
        out.append("n")
    elif v is True:
        out.append("t")
    elif v is False:
        out.append("f")
    elif isinstance(v, int):
        out.append(f"i{v}")
    elif isinstance(v, float):
        d = decimal.Decimal(repr(v))
        sign, digits, exp = d.as_tuple()
        m = int("".join(map(str, digits))) * (-1 if sign else 1)
        if exp > 0:
            m, exp = m * 10 ** exp, 0
        out.append(f"d{m}:{-exp}")
    elif isinstance(v, str):
        out.append("s" + hx(v.encode("utf-8")))
    elif isinstance(v, (list, tuple)):
        out.append(f"a{len(v)}")
        for x in v:
            to_tokens(x, out)
    elif isinstance(v, dict):
        out.append(f"o{len(v)}")
        for k, x in v.items():
            out.append("s" + hx(str(k).encode("utf-8")))
            to_tokens(x, out)
    else:
        raise TypeError(type(v))
    return " ".join(out) if top else None


def from_tokens(toks, pos=0):
    import decimal
    t = toks[pos]
    c, body = t[0], t[1:]
    if c == "n":
        return None, pos + 1
    if c == "t":
        return True, pos + 1
    if c == "f":
        return False, pos + 1
    if c == "i":
        return int(body), pos + 1
    if c == "d":
        m, e = body.split(":")
        return float(decimal.Decimal(int(m)).scaleb(-int(e))), pos + 1
    if c == "s":
        return (b"" if body == "-" else bytes.fromhex(body)).decode("utf-8"), pos + 1
    if c == "a":
        out, pos = [], pos + 1
        for _ in range(int(body)):
            x, pos = from_tokens(toks, pos)
            out.append(x)
        return out, pos
    if c == "o":
        out, pos = {}, pos + 1
        for _ in range(int(body)):
            k, pos = from_tokens(toks, pos)
            x, pos = from_tokens(toks, pos)
            out[k] = x
        return out, pos
    raise ValueError(t)


def parse_answer(ans):
    """'ok <v> ; <v> ; ok <v>' -> list of python values / class strings."""
    parts = [p.strip() for p in ans.split(";")]
    out = []
    for p in parts:
        toks = p.split()
        if not toks:
            out.append(("empty",))
        elif toks[0] == "ok":
            out.append(("ok", from_tokens(toks, 1)[0]) if len(toks) > 1 else ("ok",))
        elif toks[0] in ("crash", "err", "fuel", "unmodelled", "driver-exception"):
            out.append((toks[0],))
        else:
            out.append(("ok", from_tokens(toks, 0)[0]))
    return out


def canon(v):
    return json.dumps(v, sort_keys=True, ensure_ascii=True)


# ---------------------------------------------------------------- entity maps: implementation side
CRASH_EXC = (KeyError, TypeError, AttributeError, IndexError)


def dump_accessories(accs):
    out = []
    for a in accs:
        svcs = []
        for sv in a.services:
            chars = []
            for c in sv.characteristics:
                chars.append({"type": c.type, "iid": c.iid, "perms": list(c.perms), "format": c.format, "value": c._value,
                              "description": c.description, "unit": c.unit, "minValue": c.minValue,
                              "maxValue": c.maxValue, "minStep": c.minStep, "valid_values": c.valid_values,
                              "handle": c.handle, "broadcast_events": c.broadcast_events,
                              "disconnected_events": c.disconnected_events})
            svcs.append({"iid": sv.iid, "type": sv.type, "linked": [x.iid for x in sv.linked], "characteristics": chars})
        out.append({"aid": a.aid, "services": svcs})
    return out


LISTED = ["type", "iid", "perms", "format", "value", "minValue", "maxValue", "minStep", "valid_values", "handle",
          "broadcast_events", "disconnected_events"]


def listed_view(dump):
    """The fields the property lists (description/unit are display metadata)."""
    return [{"aid": a["aid"], "services": [{"iid": s["iid"], "type": s["type"], "linked": s["linked"],
                                             "characteristics": [{k: c[k] for k in LISTED} for c in s["characteristics"]]}
                                            for s in a["services"]]} for a in dump]


def impl_from_list(j):
    from aiohomekit.model import Accessories
    try:
        return ("ok", Accessories.from_list(json.loads(json.dumps(j))))
    except CRASH_EXC:
        return ("crash",)
    except ValueError:
        return ("err",)
    except Exception as e:  # noqa
        return ("other:" + type(e).__name__,)


def table_for(j_norm):
    from aiohomekit.model.characteristics.data import characteristics
    out = {}
    for a in j_norm if isinstance(j_norm, list) else []:
        for sv in (a.get("services") or []) if isinstance(a, dict) else []:
            for c in (sv.get("characteristics") or []) if isinstance(sv, dict) else []:
                t = c.get("type") if isinstance(c, dict) else None
                if isinstance(t, str) and t in characteristics and t not in out:
                    e = characteristics[t]
                    out[t] = {k: e[k] for k in ("format", "description", "unit", "min_value", "max_value", "min_step")
                              if k in e}
    return out


def table_entry(ty):
    from aiohomekit.model.characteristics.data import characteristics
    from ref.c20_uuid import ref_normalize
    n = ref_normalize(ty) if isinstance(ty, str) else None
    return characteristics.get(n, {}) if n else {}


def normalise_types(j):
    """Apply the reference UUID normalisation to every service / characteristic type ('!' marks a rejected value)."""
    from ref.c20_uuid import ref_normalize
    j = json.loads(json.dumps(j))

    def fix(d):
        if isinstance(d, dict) and isinstance(d.get("type"), str):
            n = ref_normalize(d["type"])
            d["type"] = n if n is not None else "!" + d["type"]
    for a in j if isinstance(j, list) else []:
        for sv in (a.get("services") or []) if isinstance(a, dict) else []:
            fix(sv)
            for c in (sv.get("characteristics") or []) if isinstance(sv, dict) else []:
                fix(c)
    return j


# ---------------------------------------------------------------- entity maps: generators
KNOWN_SHORT = ["23", "25", "8", "13", "11", "37", "52", "14", "a6", "ce", "10", "6D", "b0", "2f"]
CUSTOM = ["E863F10A-079E-48FF-8F27-9C2605A29F52", "e863f10c-079e-48ff-8f27-9c2605a29f52", "34AB8811AC7F4340BAC3FD6A85F9943B",
          "0a1b2c3d4", "151909D7-3802-11E4-916C-0800200C9A66"]
SVC_TYPES = ["3E", "43", "0000003E-0000-1000-8000-0026BB765291", "8a", "49", "4a", "45"] + CUSTOM[:2]
FORMATS = ["bool", "uint8", "uint16", "uint32", "uint64", "int", "float", "string", "tlv8", "data", "array", "dict"]
PERMS = ["pr", "pw", "ev", "aa", "tw", "hd", "wr"]
STRS = ["", "x", "Wohnzimmer ☀", "日本語", "a\"b\\c\n", "🏠", "é́", "1.2.3"]


def num(r, fl=None):
    fl = r.random() < 0.4 if fl is None else fl
    if fl:
        return r.choice([0.0, 0.1, 0.5, 1.0, 25.5, 100.0, -10.0, 1e-05, 0.30000000000000004, 0.10000000149011612,
                         r.randrange(-1000, 1000) / 10, r.randrange(0, 10 ** 6) / 1000])
    return r.choice([0, 1, 2, 5, 100, 255, 360, 65535, -5, -2147483648, 4294967295, 18446744073709551615,
                     r.randrange(-50, 500)])


def gen_value(r, fmt):
    if fmt == "bool":
        return r.choice([True, False, True, False, 1, 0])
    if fmt in ("uint8", "uint16", "uint32", "uint64", "int"):
        return num(r, False)
    if fmt == "float":
        return num(r)
    if fmt == "string":
        return r.choice(STRS)
    if fmt in ("tlv8", "data"):
        return r.choice(["", "AQEA", "AQEAAgEB", "AAECAwQFBgc="])
    if fmt == "array":
        return r.choice([[], [1, 2], ["a"]])
    if fmt == "dict":
        return r.choice([{}, {"a": 1}])
    return r.choice([None, 1, "x", True, 0.5])


def gen_char(r, iid, wf=True):
    known = r.random() < 0.6
    ty = r.choice(KNOWN_SHORT) if known else r.choice(CUSTOM)
    if known and r.random() < 0.3:
        ty = "000000%02s-0000-1000-8000-0026BB765291" % ty.upper() if len(ty) == 2 else ty
        ty = ty.replace(" ", "0")
        if r.random() < 0.5:
            ty = ty.lower()
    perms = [p for p in PERMS if r.random() < 0.35]
    if r.random() < 0.7 and "pr" not in perms:
        perms.insert(0, "pr")
    c = {"type": ty, "iid": iid, "perms": perms}
    fmt = r.choice(FORMATS)
    tab = table_entry(ty)
    if tab.get("format") and r.random() < 0.85:
        fmt = tab["format"]                       # a known type mostly comes with its own format
    if r.random() < 0.9:
        c["format"] = fmt
    elif r.random() < 0.3:
        c["format"] = None
        fmt = None
    else:
        fmt = None
    numeric = fmt in ("uint8", "uint16", "uint32", "uint64", "int", "float")
    if "pr" in perms and r.random() < 0.8:
        c["value"] = gen_value(r, fmt)
        if r.random() < 0.08:
            c["value"] = None
    if numeric and r.random() < 0.5:
        lo, hi = sorted([num(r, fmt == "float"), num(r, fmt == "float")])
        if r.random() < 0.8:
            c["minValue"] = lo
        if r.random() < 0.8:
            c["maxValue"] = hi
        if r.random() < 0.6:
            c["minStep"] = r.choice([1, 0.1, 0.5, 5, 0.01])
    if numeric and r.random() < 0.15:
        c["valid-values"] = r.choice([[0, 1], [0, 1, 2], [1, 3], []])
    if r.random() < 0.4:
        c["description"] = r.choice(STRS + ["On", "Brightness"])
    if r.random() < 0.25:
        c["unit"] = r.choice(["celsius", "percentage", "arcdegrees", "lux", "seconds", ""])
    if r.random() < 0.2:
        c["maxLen"] = r.choice([64, 256])
    if r.random() < 0.2:
        c["ev"] = r.choice([True, False])
    if r.random() < 0.3:
        c["handle"] = r.randrange(1, 200)
    if r.random() < 0.25:
        c["broadcast_events"] = r.choice([True, False])
    if r.random() < 0.25:
        c["disconnected_events"] = r.choice([True, False])
    if not wf:
        m = r.random()
        if m < 0.15:
            c.pop(r.choice(["type", "iid", "perms"]))
        elif m < 0.3:
            c["type"] = r.choice(["not a uuid at all!", "zzzzzzzzzzzzzzzzzz", "12345678-9"])
        elif m < 0.45:
            c["perms"] = [p for p in c["perms"] if p != "pr"]
            c["value"] = gen_value(r, fmt)          # a value on a characteristic that cannot be read
        elif m < 0.6:
            c[r.choice(["minValue", "maxValue", "minStep", "format", "valid-values", "handle"])] = None
        elif m < 0.7 and fmt == "bool":
            c["minValue"], c["perms"] = 1, ["pr"]
            c.pop("value", None)
        elif m < 0.8:
            c["valid-values"] = r.choice([[2, 3], [None, 1]])
            c.pop("value", None)
        elif m < 0.9:
            c["minValue"], c["maxValue"] = r.choice([(5, 2), (0.5, 0.25), (1, "x"), (2.5, 1)])
            c.pop("value", None)
            c["perms"] = ["pr"]
    items = list(c.items())
    r.shuffle(items)
    return dict(items)


def gen_entity_map(r, wf=True, small=False):
    accs = []
    for ai in range(1 if small else r.choice([1, 1, 2, 3])):
        n_s = r.choice([1, 2]) if small else r.choice([1, 2, 3, 5])
        iids = r.sample(range(1, 200), 40)
        s_iids = iids[:n_s]
        k = n_s
        svcs = []
        for si in range(n_s):
            chars = []
            for _ in range(r.choice([0, 1, 2]) if small else r.choice([0, 1, 2, 4, 7])):
                chars.append(gen_char(r, iids[k], wf or r.random() < 0.6))
                k += 1
            sv = {"iid": s_iids[si], "type": r.choice(SVC_TYPES), "characteristics": chars}
            if r.random() < 0.3:
                sv["linked"] = [r.choice(s_iids) for _ in range(r.choice([1, 2]))]
                if r.random() < 0.3:
                    sv["linked"].insert(r.randrange(len(sv["linked"]) + 1), 0)    # the Schlage zero
            if r.random() < 0.1:
                sv["linked"] = []
            if r.random() < 0.2:
                sv["primary"] = True                                               # unknown key, ignored
            svcs.append(sv)
        if not wf:
            m = r.random()
            if m < 0.15 and svcs:
                svcs[-1]["iid"] = 0
            elif m < 0.3 and len(svcs) > 1:
                svcs[-1]["iid"] = svcs[0]["iid"]                                   # duplicate service iid
                svcs[0]["linked"] = [svcs[0]["iid"]]
            elif m < 0.45 and svcs:
                svcs[0]["linked"] = [999]                                          # dangling link
            elif m < 0.55 and svcs:
                svcs[0].pop(r.choice(["iid", "type", "characteristics"]))
            elif m < 0.6 and svcs:
                svcs[0]["type"] = "this is no uuid, sorry"
        a = {"aid": ai + 1, "services": svcs}
        if not wf and r.random() < 0.05:
            a.pop(r.choice(["aid", "services"]))
        accs.append(a)
    return accs


def wf_map(j):
    """The well-formedness the round-trip property is claimed for (mirrors wf_acc / wf_chr in Proofs/PersistRec.v,
    stated on the JSON that an accessory sends)."""
    from ref.c20_uuid import ref_normalize
    try:
        for a in j:
            _ = a["aid"]
            sids = [sv["iid"] for sv in a["services"]]
            if len(set(sids)) != len(sids) or not all(isinstance(i, int) and not isinstance(i, bool) and i != 0 for i in sids):
                return False
            for sv in a["services"]:
                if ref_normalize(sv["type"]) is None:
                    return False
                for l in sv.get("linked", []):
                    if l and l not in sids:
                        return False
                for c in sv["characteristics"]:
                    if ref_normalize(c["type"]) is None or not isinstance(c["perms"], list):
                        return False
                    if "pr" not in c["perms"] and c.get("value") is not None:
                        return False
                    for k in ("minValue", "maxValue", "minStep", "valid-values", "handle", "broadcast_events",
                              "disconnected_events", "format"):
                        if k in c and c[k] is None:
                            return False
                    tab = table_entry(c["type"])
                    if c.get("format", tab.get("format")) == "bool" and (
                            c.get("minValue", tab.get("min_value")) or c.get("maxValue", tab.get("max_value"))
                            or c.get("valid-values")):
                        return False              # a bool whose initial value would be a number
                    for k in ("minValue", "maxValue"):
                        if k in c and (isinstance(c[k], bool) or not isinstance(c[k], (int, float))):
                            return False
                    vv = c.get("valid-values")
                    if vv is not None and (not isinstance(vv, list) or (vv and vv[0] is None)):
                        return False
                    _ = c["iid"]
        return True
    except (KeyError, TypeError, AttributeError):
        return False


# ---------------------------------------------------------------- stream: entity map round trips
def stream_emap(ctx, drv, cov, viols, r):
    from aiohomekit import hkjson
    tier = ctx["tier"]
    cases = []
    for f in sorted(glob.glob(os.path.join(ctx["repo"], "tests", "fixtures", "*.json"))):
        try:
            cases.append(("fixture:" + os.path.basename(f), json.load(open(f, encoding="utf-8"))))
        except ValueError:
            pass
    n_fix = len(cases)
    n_rand = 300 if tier == "quick" else 5000
    for i in range(n_rand):
        cases.append(("random-wf", gen_entity_map(r, True)))
    for i in range(n_rand // 3):
        cases.append(("random-malformed", gen_entity_map(r, False)))
    reqs = []
    for kind, j in cases:
        jn = normalise_types(j)
        reqs.append("rt " + to_tokens(table_for(jn)) + " " + to_tokens(jn))
    answers = drv.batch(reqs)
    stats = dict(fixtures=n_fix, wf=0, roundtrip_checked=0, impl_ok=0, impl_crash=0, impl_err=0, unmodelled=0,
                 description_rederived=0)
    seen = set()
    for (kind, j), ans in zip(cases, answers):
        model = parse_answer(ans)
        impl = impl_from_list(j)
        wf = wf_map(j)
        stats["wf"] += wf
        case_id = canon(j)
        chars = sum(len(sv.get("characteristics") or []) for a in j if isinstance(a, dict)
                    for sv in (a.get("services") or []) if isinstance(sv, dict))
        cov.case("emap|" + case_id, chars > 0,
                 sample=dict(stream="emap", kind=kind, accessories=len(j), characteristics=chars, impl=impl[0], wf=wf)
                 if cov.evaluations % 211 == 0 else None,
                 emap_kind=kind, emap_impl=impl[0], emap_wf=wf, emap_chars=min(chars, 20) // 5 * 5)
        if model[0][0] == "unmodelled":
            stats["unmodelled"] += 1
            continue
        if impl[0] != "ok":
            stats["impl_" + impl[0]] = stats.get("impl_" + impl[0], 0) + 1
            if wf:
                key = "entity_roundtrip:well-formed-map-rejected"
                if key not in seen:
                    seen.add(key)
                    viols.append(violation(key, f"Accessories.from_list fails ({impl[0]}) on a well-formed entity map", True,
                                           kind=kind, entity_map=j, impl=impl[0]))
            elif model[0][0] != impl[0]:
                viols.append(violation("emap:model-mismatch:class", f"from_list: implementation {impl[0]}, model {model[0][0]}",
                                       False, kind=kind, entity_map=j, broken="correspondence Model/PersistRec.v <-> model/__init__.py"))
            continue
        stats["impl_ok"] += 1
        a1 = impl[1]
        d1 = dump_accessories(a1)
        s1 = a1.serialize()
        text = hkjson.dumps(s1)
        j2 = hkjson.loads(text)
        impl2 = impl_from_list(j2)
        d2 = dump_accessories(impl2[1]) if impl2[0] == "ok" else None
        # ---- oracle (independent of the model): the listed fields survive serialize -> JSON -> from_list
        if wf:
            stats["roundtrip_checked"] += 1
            bad = None
            if impl2[0] != "ok":
                bad = f"reload fails: {impl2[0]}"
            elif listed_view(d1) != listed_view(d2):
                l1, l2 = listed_view(d1), listed_view(d2)
                bad = "listed fields differ after reload"
                for x, y in zip(l1, l2):
                    for sx, sy in zip(x["services"], y["services"]):
                        if {k: v for k, v in sx.items() if k != "characteristics"} != {k: v for k, v in sy.items() if k != "characteristics"}:
                            bad = f"service {sx['iid']}: {[k for k in sx if k != 'characteristics' and sx[k] != sy[k]]} changed"
                        for cx, cy in zip(sx["characteristics"], sy["characteristics"]):
                            if cx != cy:
                                ks = [k for k in cx if cx[k] != cy[k]]
                                bad = f"characteristic {x['aid']}.{cx['iid']}: fields {ks} changed: " \
                                      f"{ {k: cx[k] for k in ks} } -> { {k: cy[k] for k in ks} }"
            if bad:
                if "fields " in bad:
                    fields = bad.split("fields ")[1].split(" changed")[0]
                elif "service " in bad:
                    fields = bad.split(": ")[1].split(" changed")[0]
                else:
                    fields = "reload-fails"
                key = "entity_roundtrip:" + fields.replace(" ", "").replace("'", "")
                if key not in seen:
                    seen.add(key)
                    viols.append(violation(key, "entity map round trip (from_list -> serialize -> JSON -> from_list): " + bad,
                                           True, kind=kind, entity_map=j, serialized=s1))
                continue
            if d1 != d2:
                stats["description_rederived"] += 1
        # ---- correspondence with the record model
        if model[0][0] != "ok" or len(model) < 3:
            viols.append(violation("emap:model-mismatch:class", f"from_list: implementation ok, model {model[0][0]}", False,
                                   kind=kind, entity_map=j, broken="correspondence Model/PersistRec.v <-> model/__init__.py"))
            continue
        md1, mser, md2 = model[0][1], model[1][1], model[2]
        applicable = len(model) > 3 and model[3] == ("ok", True)
        stats["theorem_applicable"] = stats.get("theorem_applicable", 0) + applicable
        if kind.startswith("fixture:"):
            stats["fixtures_theorem_applicable"] = stats.get("fixtures_theorem_applicable", 0) + applicable
        if wf and not applicable:
            stats["oracle_domain_outside_theorem_domain"] = stats.get("oracle_domain_outside_theorem_domain", 0) + 1
            stats.setdefault("outside_examples", [])
            if len(stats["outside_examples"]) < 3:
                stats["outside_examples"].append(j)
        if applicable and not wf:
            stats["theorem_domain_outside_oracle_domain"] = stats.get("theorem_domain_outside_oracle_domain", 0) + 1
            # the theorem applies to the objects although the JSON is outside wf_map: the listed fields must survive
            if impl2[0] != "ok" or listed_view(d1) != listed_view(d2):
                key = "entity_roundtrip:theorem-domain"
                if key not in seen:
                    seen.add(key)
                    viols.append(violation(key, "objects satisfy the hypotheses of entity_roundtrip but the listed fields "
                                           "change across serialize -> from_list", True, kind=kind, entity_map=j))
                continue
        if canon(md1) != canon(d1):
            viols.append(violation("emap:model-mismatch:from_list", "objects built by from_list differ from the model's", False,
                                   kind=kind, entity_map=j, impl=d1, model=md1,
                                   broken="correspondence Model/PersistRec.v <-> Accessory.create_from_dict"))
        elif canon(mser) != canon(s1):
            viols.append(violation("emap:model-mismatch:serialize", "serialize() differs from the model's", False,
                                   kind=kind, entity_map=j, impl=s1, model=mser,
                                   broken="correspondence Model/PersistRec.v <-> to_accessory_and_service_list"))
        elif (md2[0], canon(md2[1]) if md2[0] == "ok" else None) != (impl2[0], canon(d2) if d2 is not None else None):
            viols.append(violation("emap:model-mismatch:reload", "reloaded objects differ from the model's", False,
                                   kind=kind, entity_map=j, impl=d2, model=md2,
                                   broken="correspondence Model/PersistRec.v <-> Accessory.create_from_dict"))
    cov.extra["emap_stream"] = stats


# ---------------------------------------------------------------- stream: cache entry <-> AccessoriesState, restart
def stream_entry(ctx, drv, cov, viols, root, r):
    import pathlib

    from aiohomekit.characteristic_cache import CharacteristicCacheFile
    tier = ctx["tier"]
    n = 60 if tier == "quick" else 800
    stats = dict(entries=0, restarts_ok=0)
    seen = set()
    path = os.path.join(root, "cache.json")
    cases = []
    for i in range(n):
        emap = gen_entity_map(r, True, small=(i % 3 != 0))
        while not wf_map(emap):
            emap = gen_entity_map(r, True, small=(i % 3 != 0))
        hkid = ":".join(f"{r.getrandbits(8):02X}" for _ in range(6))
        if i % 4 == 1:
            hkid = hkid.lower()
        entry = {"accessories": emap}
        if i % 5 != 4:
            entry["config_num"] = r.choice([0, 1, 2, 65535, r.randrange(1, 1000)])
        if i % 3 != 2:
            entry["broadcast_key"] = r.choice([None, hexs(r, 32), hexs(r, 32).upper()])     # BLE keys are 256 bit
        if i % 4 != 3:
            entry["state_num"] = r.choice([None, 1, 2, 65535, r.randrange(1, 65536)])
        pd = gen_pairing(r, "BLE")
        pd["AccessoryPairingID"] = hkid
        jn = normalise_types(emap)
        cases.append((i, emap, hkid, entry, pd, "entry " + to_tokens(table_for(jn)) + " " + to_tokens(dict(entry, accessories=jn))))
    answers = drv.batch([c[5] for c in cases])
    for (i, emap, hkid, entry, pd, _), raw in zip(cases, answers):
        reset_dir(root, {})
        ans = parse_answer(raw)
        with open(path, "w", encoding="utf-8") as f:
            json.dump({"pairings": {hkid: entry}}, f, ensure_ascii=False)

        def state_of(pairing):
            st = pairing.accessories_state
            if st is None:
                return None
            return {"config_num": st.config_num, "broadcast_key": st.broadcast_key.hex() if st.broadcast_key is not None else None,
                    "state_num": st.state_num, "accessories": dump_accessories(st.accessories)}
        try:
            c1 = make_controller(CharacteristicCacheFile(pathlib.Path(path)))
            p1 = c1.load_pairing("a", dict(pd))
            st1 = state_of(p1)
            p1._update_accessories_state_cache()
            saved = json.load(open(path, encoding="utf-8"))["pairings"][hkid]
            c2 = make_controller(CharacteristicCacheFile(pathlib.Path(path)))
            p2 = c2.load_pairing("a", dict(pd))
            st2 = state_of(p2)
            impl = "ok"
        except Exception as e:  # noqa
            impl, st1, st2, saved = "exc:" + type(e).__name__, None, None, None
        stats["entries"] += 1
        cov.case("entry|" + canon(entry) + hkid, True,
                 sample=dict(stream="entry", id=hkid, keys=sorted(entry), impl=impl) if i % 29 == 0 else None,
                 entry_impl=impl, entry_has_key=bool(entry.get("broadcast_key")), entry_has_state=entry.get("state_num") is not None)
        # oracle: restart preserves configuration number, state number, broadcast key and the listed fields
        want = {"config_num": entry.get("config_num", 0), "state_num": entry.get("state_num"),
                "broadcast_key": entry["broadcast_key"].lower() if entry.get("broadcast_key") else None}
        bad = None
        if impl != "ok":
            bad = f"cache entry fails to load / save: {impl}"
        elif st1 is None or st2 is None:
            bad = "cache entry was not restored at pairing construction"
        else:
            for k, v in want.items():
                if st1[k] != v:
                    bad = f"{k}: cache holds {v!r}, restored state has {st1[k]!r}"
                elif st2[k] != v:
                    bad = f"{k}: {v!r} before the restart, {st2[k]!r} after"
            if not bad and listed_view(st1["accessories"]) != listed_view(st2["accessories"]):
                bad = "accessory database differs after the restart"
        if bad:
            key = "cache_restart:" + bad.split(":")[0].replace(" ", "-")[:40]
            if key not in seen:
                seen.add(key)
                viols.append(violation(key, "accessory cache restart: " + bad, True, entry=entry, id=hkid))
            continue
        stats["restarts_ok"] += 1
        if ans[0][0] != "ok":
            viols.append(violation("entry:model-mismatch:class", f"cache entry: implementation ok, model {ans[0][0]}", False,
                                   entry=entry, broken="correspondence Model/PersistRec.v entry_load"))
            continue
        mstate, msaved = ans[0][1], ans[1][1]
        if canon(mstate) != canon(st1):
            viols.append(violation("entry:model-mismatch:load", "restored AccessoriesState differs from the model's", False,
                                   entry=entry, impl=st1, model=mstate, broken="correspondence Model/PersistRec.v entry_load"))
        elif canon(msaved) != canon(saved):
            viols.append(violation("entry:model-mismatch:save", "cache entry written back differs from the model's", False,
                                   entry=entry, impl=saved, model=msaved, broken="correspondence Model/PersistRec.v entry_save"))
    cov.extra["entry_stream"] = stats


# ---------------------------------------------------------------- stream: pairing records
def stream_pairs(ctx, drv, cov, viols, root, r):
    tier = ctx["tier"]
    n = 150 if tier == "quick" else 3000
    path = os.path.join(root, "pairs.json")
    stats = dict(files=0, wf=0, transports={})
    seen = set()
    files = []
    files.append(gen_pairing_set(r, 3, ["IP", "BLE", "CoAP"]))
    for i in range(n):
        ps = gen_pairing_set(r)
        if i % 3 == 2:                                   # malformed / legacy variants
            a = next(iter(ps))
            m = r.random()
            if m < 0.25:
                if ps[a]["Connection"] == "IP":
                    ps[a].pop("Connection")             # legacy file without Connection
            elif m < 0.45:
                ps[a].pop(r.choice(sorted(ps[a])))
            elif m < 0.6:
                ps[a]["Connection"] = r.choice(["Fake", "ip", "", "Thread"])
            elif m < 0.75:
                ps[a]["AccessoryPairingID"] = r.choice(["", None])
            elif m < 0.9:
                ps[a]["AccessoryIPs"] = ["10.1.1.1"]
                ps[a].pop("AccessoryIP", None)
        files.append(ps)
    answers = drv.batch(["pairs " + to_tokens(ps) for ps in files])
    for ps, ans in zip(files, answers):
        reset_dir(root, {"pairs.json": dumps_file(ps)})
        loaded = load_pairings(path)
        model = parse_answer(ans)[0]

        def wfp(d):
            t = d.get("Connection")
            if not isinstance(d.get("AccessoryPairingID"), str) or not d["AccessoryPairingID"]:
                return False
            if t in ("IP", "CoAP"):
                return "AccessoryIP" in d and "AccessoryPort" in d
            return t == "BLE" and "AccessoryAddress" in d
        wf = all(wfp(d) for d in ps.values())
        stats["files"] += 1
        stats["wf"] += wf
        for d in ps.values():
            t = str(d.get("Connection", "(none)"))
            stats["transports"][t] = stats["transports"].get(t, 0) + 1
        impl_cls = loaded[0] if loaded[0] != "other" else ("crash" if loaded[1] in ("KeyError", "TypeError", "AttributeError") else "other:" + loaded[1])
        cov.case("pairs|" + canon(ps), True,
                 sample=dict(stream="pairs", aliases=list(ps), wf=wf, impl=impl_cls) if stats["files"] % 37 == 0 else None,
                 pairs_wf=wf, pairs_impl=impl_cls, pairs_n=len(ps))
        if wf:
            bad = None
            if loaded[0] != "ok":
                bad = f"load_data fails ({impl_cls}) on a well-formed pairing file"
            elif loaded[1] != ps:
                ks = [a for a in ps if loaded[1].get(a) != ps[a]]
                bad = f"pairing data of alias(es) {ks} not read back unchanged"
            if bad:
                key = "pairing_roundtrip:" + ("load-fails" if loaded[0] != "ok" else "fields-changed")
                if key not in seen:
                    seen.add(key)
                    viols.append(violation(key, bad, True, pairings=ps, loaded=loaded[1] if loaded[0] == "ok" else impl_cls))
                continue
        mcls = model[0]
        if mcls != impl_cls and not (mcls == "ok" and impl_cls == "ok"):
            viols.append(violation("pairs:model-mismatch:class", f"load_data: implementation {impl_cls}, model {mcls}", False,
                                   pairings=ps, broken="correspondence Model/PersistRec.v load_pairing <-> Controller.load_pairing"))
        elif mcls == "ok" and canon(model[1]) != canon(loaded[1]):
            viols.append(violation("pairs:model-mismatch:data", "loaded pairing data differ from the model's", False,
                                   pairings=ps, impl=loaded[1], model=model[1],
                                   broken="correspondence Model/PersistRec.v load_pairing <-> Controller.load_pairing"))
    # ---- files mixing available and unavailable transports in every order (independent oracle, no model involved):
    # every well-formed pairing whose transport is registered must be loaded unchanged wherever it stands in the file,
    # a pairing of an unavailable / unknown transport is skipped without ending the load, and after the controller
    # saved again and restarted all of the loaded pairings are still there.
    import itertools
    mstats = dict(files=0, orders_exhaustive_up_to=3 if tier == "quick" else 4, registered_subsets=0,
                  pairings_expected=0, unavailable_entries=0)
    KINDS = ["IP", "BLE", "CoAP", "Thread"]                      # "Thread": no such transport in aiohomekit
    subsets = [("IP", "CoAP", "BLE"), ("IP",), ("IP", "CoAP"), ("BLE",), ("CoAP", "BLE")]
    mixed = []
    for n in range(1, mstats["orders_exhaustive_up_to"] + 1):
        for order in itertools.product(KINDS, repeat=n):
            mixed.append(order)
    for oi, order in enumerate(mixed):
        for reg in (subsets if len(order) <= 2 or tier != "quick" else [subsets[0], subsets[1 + oi % 4]]):
            ps = {}
            for k, t in enumerate(order):
                d = gen_pairing(r, t if t != "Thread" else "IP")
                if t == "Thread":
                    d["Connection"] = r.choice(["Thread", "Fake", "Matter"])
                ps[ALIASES[k]] = d
            want = {a: d for a, d in ps.items() if d["Connection"] in reg}
            mstats["files"] += 1
            mstats["pairings_expected"] += len(want)
            mstats["unavailable_entries"] += len(ps) - len(want)
            reset_dir(root, {"pairs.json": dumps_file(ps)})
            loaded = load_pairings(path, reg)
            cov.case("mixed|" + canon([order, reg]) , True,
                     sample=dict(stream="pairs-mixed-transports", order=list(order), registered=list(reg),
                                 loaded=sorted(loaded[1]) if loaded[0] == "ok" else loaded[0]) if mstats["files"] % 61 == 0 else None,
                     mixed_len=len(order), mixed_registered=len(reg), mixed_result=loaded[0])
            bad = None
            if loaded[0] != "ok":
                bad = ("load-fails", f"load_data fails ({loaded[0]}) on a file whose pairings are all well-formed")
            elif loaded[1] != want:
                missing = [a for a in want if a not in loaded[1]]
                extra = [a for a in loaded[1] if a not in want]
                changed = [a for a in want if a in loaded[1] and loaded[1][a] != want[a]]
                bad = ("available-pairing-not-loaded" if missing else "unavailable-loaded" if extra else "fields-changed",
                       f"file order {list(order)}, registered transports {list(reg)}: pairings {missing or extra or changed} "
                       f"{'are not loaded' if missing else 'are loaded although their transport is unavailable' if extra else 'changed'} "
                       f"(loaded {sorted(loaded[1])}, expected {sorted(want)})")
            else:
                # restart #2 after the controller saved what it holds
                c2 = make_controller(None, reg)
                c2.load_data(path)
                c2.save_data(path)
                again = load_pairings(path, reg)
                if again[0] != "ok" or again[1] != want:
                    bad = ("lost-after-resave", f"file order {list(order)}: after load + save_data + restart the controller holds "
                           f"{sorted(again[1]) if again[0] == 'ok' else again[0]}, expected {sorted(want)}")
            if bad:
                key = "pairing_roundtrip:mixed-transports:" + bad[0]
                if key not in seen:
                    seen.add(key)
                    viols.append(violation(key, bad[1], True, file_order=list(order), registered=list(reg), pairings=ps,
                                           expected_aliases=sorted(want)))
    stats["mixed_transports"] = mstats
    # broadcast key hex codec
    keys = [bytes(r.getrandbits(8) for _ in range(r.choice([0, 1, 16, 32]))) for _ in range(40)] + [bytes(range(256))]
    for k, a in zip(keys, drv.batch(["hexrt " + hx(k) for k in keys])):
        from aiohomekit.utils import deserialize_broadcast_key, serialize_broadcast_key
        if a != "ok " + hx(k) or deserialize_broadcast_key(serialize_broadcast_key(k)) != k:
            viols.append(violation("bkey:hex-roundtrip", "broadcast key hex round trip differs", deserialize_broadcast_key(serialize_broadcast_key(k)) != k,
                                   key=k.hex(), model=a))
    cov.extra["pairs_stream"] = stats


# ---------------------------------------------------------------- stream: file-system layouts of the pairing path
def stream_layout(ctx, drv, cov, viols, root, r):
    """save_data crash points where the pairing path is not a plain file in a plain directory: a symlink to a file in
    the same / another directory, a dangling symlink, a file reached through a symlinked directory (and the plain file
    as the control).  Judged only on 'the saved pairings survive an interrupted save': a fresh Controller loading the
    SAME path sees the old or the new data at every crash point, and the new data once the save completed (whether the
    link itself is replaced by a regular file is not the property's business)."""
    tier = ctx["tier"]
    stats = dict(saves=0, crash_points=0, shapes={}, results={}, layouts={})
    first = {}
    layouts = ["plain", "symlink-same-dir", "symlink-other-dir", "dir-symlink", "dangling-symlink"]
    for li, layout in enumerate(layouts * (1 if tier == "quick" else 6)):
        old = gen_pairing_set(r, r.choice([1, 2]))
        new = gen_pairing_set(r, r.choice([1, 2]))
        ob = dumps_file(old)
        if layout == "plain":
            init, target_rel, load_rel = {"pairing.json": ob}, "pairing.json", "pairing.json"
        elif layout == "symlink-same-dir":
            init, target_rel, load_rel = {"real.json": ob, "pairing.json": ("link", "real.json")}, "pairing.json", "pairing.json"
        elif layout == "symlink-other-dir":
            init = {"store/real.json": ob, "pairing.json": ("link", "store/real.json")}
            target_rel, load_rel = "pairing.json", "pairing.json"
        elif layout == "dir-symlink":
            init = {"realdir/pairing.json": ob, "cfg": ("dirlink", "realdir")}
            target_rel, load_rel = "realdir/pairing.json", "cfg/pairing.json"
        else:
            init, target_rel, load_rel = {"pairing.json": ("link", "missing.json")}, "pairing.json", "pairing.json"
            old = None
        ctl = controller_with(new)
        path = os.path.join(root, load_rel)
        case = CrashCase(root, drv, target_rel, init, lambda: (lambda: ctl.save_data(path)), load_pairings,
                         classify_pairings(old, new), 4 if tier == "quick" else 10, load_rel=load_rel)
        res = case.run()
        res["old_equals_new"] = (old == new)
        res["shape"] = res["shape"] + "@" + layout
        stats["saves"] += 1
        stats["layouts"][layout] = stats["layouts"].get(layout, 0) + 1
        stats["shapes"][res["shape"]] = stats["shapes"].get(res["shape"], 0) + 1
        judge_crash_case("save_data", res, old is not None, cov, viols, first, stats,
                         dict(layout=layout, initial_files={k: (v if isinstance(v, tuple) else f"{len(v)} bytes") for k, v in init.items()},
                              path=load_rel, old=old, new=new),
                         MODEL_TO_LOAD, {"old", "new"}, {"empty", "new"})
    stats.pop("results", None)
    cov.extra["layout_stream"] = stats


# ---------------------------------------------------------------- stream: save sequences (add / remove / save / restart)
SEQ_OPS = ["addIP", "addBLE", "addCoAP", "remove", "save", "restart"]


async def stream_seq(ctx, drv, cov, viols, root, r):
    """Histories of {add a pairing (each transport), remove a pairing (the real Controller.remove_pairing with the
    accessory side mocked), save_data, restart + load_data} over 0..3 pairings.  Oracle: after every restart the
    loaded set equals the set at the last save (the initial file before any save) - also for the empty set.
    Every save runs under the shim; the model replays its operation list (save_complete: the file then holds the
    printed new data)."""
    import itertools
    from unittest.mock import AsyncMock
    tier = ctx["tier"]
    path = os.path.join(root, "pairing.json")
    stats = dict(histories=0, saves=0, saves_of_empty_set=0, saves_of_empty_set_over_nonempty_file=0, restarts=0,
                 restarts_expecting_empty=0, removes=0, adds=0, max_pairings=0, exhaustive_up_to_length=0,
                 directed_walks=0, random_histories=0, crash_cases_to_empty=0)
    seen = set()
    sim_reqs = []          # (request, expected listing, replay) - model check of every save, batched

    histories = []
    top = 4 if tier == "quick" else 5
    stats["exhaustive_up_to_length"] = top
    for start in (0, 1):
        for n in range(1, top + 1):
            for h in itertools.product(SEQ_OPS, repeat=n):
                histories.append(("exhaustive", start, list(h) + ["save", "restart"]))
    # directed walks N -> N-1 -> ... -> 0 -> 1, a restart after every save
    for n in (1, 2, 3):
        for ts in itertools.product(["IP", "BLE", "CoAP"], repeat=n):
            h = []
            for _ in range(n):
                h += ["remove", "save", "restart"]
            h += ["add" + ts[0], "save", "restart"]
            histories.append(("walk", list(ts), h))
            stats["directed_walks"] += 1
    for _ in range(150 if tier == "quick" else 2500):
        h = [r.choice(SEQ_OPS + ["remove", "save", "restart"]) for _ in range(r.randrange(4, 14))] + ["save", "restart"]
        histories.append(("random", r.choice([0, 1, 2, 3]), h))
        stats["random_histories"] += 1

    alias_pool = ALIASES[:8]
    for kind, start, h in histories:
        # initial disk: `start` pairings written by an independent writer (stdlib json), or no file
        if isinstance(start, list):
            init = {alias_pool[k]: gen_pairing(r, t) for k, t in enumerate(start)}
        else:
            init = {alias_pool[k]: gen_pairing(r) for k in range(start)}
        reset_dir(root, {"pairing.json": dumps_file(init)} if init else {})
        expected = dict(init)                       # what a restart must see
        ctl = make_controller()
        ctl.load_data(path)
        live = {a: dict(p.pairing_data) for a, p in ctl.aliases.items()}
        if live != init:
            viols.append(violation("save_sequence:initial-load", "initial pairing file not loaded unchanged", True,
                                   init=init, loaded=live))
            continue
        stats["histories"] += 1
        trace = []
        bad = None
        for step, op in enumerate(h):
            if op.startswith("add"):
                if len(ctl.aliases) >= 3:
                    continue
                alias = next(a for a in alias_pool if a not in ctl.aliases)
                pd = gen_pairing(r, op[3:])
                ctl.load_pairing(alias, json.loads(json.dumps(pd)))
                trace.append(["add", op[3:], alias])
                stats["adds"] += 1
            elif op == "remove":
                if not ctl.aliases:
                    continue
                alias = r.choice(sorted(ctl.aliases))
                pairing = ctl.aliases[alias]
                pairing.remove_pairing = AsyncMock()
                pairing.shutdown = AsyncMock()
                await ctl.remove_pairing(alias)
                trace.append(["remove", alias])
                stats["removes"] += 1
            elif op == "save":
                snapshot = {a: json.loads(json.dumps(p.pairing_data)) for a, p in ctl.aliases.items()}
                before = open(path, "rb").read() if os.path.exists(path) else None
                sim, completed, exc = run_with_crash(root, lambda: ctl.save_data(path), None, "a", 1, {"pairing.json": 0})
                trace.append(["save", sorted(snapshot)])
                stats["saves"] += 1
                if not snapshot:
                    stats["saves_of_empty_set"] += 1
                    if expected:
                        stats["saves_of_empty_set_over_nonempty_file"] += 1
                if exc is not None or not completed:
                    bad = ("save-raises", f"save_data raised {type(exc).__name__ if exc else 'nothing but did not complete'}")
                    break
                expected = snapshot
                after = listing(root, sim.names)
                if len(sim_reqs) < (400 if tier == "quick" else 4000):
                    inits = f"0:{hx(before)}" if before is not None else "."
                    new_bytes = open(path, "rb").read() if os.path.exists(path) else b""
                    sim_reqs.append(("sim 0 %s %s %d %s %s" % ("!" if before is None else hx(before), hx(new_bytes),
                                                              max(len(sim.names), 1), inits, " ".join(op_tok(o) for o in sim.ops)),
                                     len(sim.ops), after, dict(history=list(trace), saved=sorted(snapshot))))
            elif op == "restart":
                loaded = load_pairings(path)
                stats["restarts"] += 1
                stats["restarts_expecting_empty"] += (not expected)
                trace.append(["restart"])
                if loaded[0] != "ok":
                    bad = ("load-fails", f"load_data fails ({loaded[0]}) after the restart")
                    break
                if loaded[1] != expected:
                    what = "after-saving-the-empty-set" if not expected else "after-saving-a-nonempty-set"
                    bad = ("restart-differs:" + what,
                           f"after the restart the controller holds {sorted(loaded[1])} but the last save wrote {sorted(expected)}")
                    break
                ctl = make_controller()
                ctl.load_data(path)
            stats["max_pairings"] = max(stats["max_pairings"], len(ctl.aliases))
        cov.case("seq|" + canon([kind, trace, sorted(init)]), any(t[0] == "save" for t in trace),
                 sample=dict(stream="save-sequence", kind=kind, initial=sorted(init), history=trace[:12], ok=bad is None)
                 if stats["histories"] % 173 == 0 else None,
                 seq_kind=kind, seq_len=min(len(trace), 12), seq_initial=len(init), seq_result=bad[0] if bad else "ok")
        if bad:
            key = "save_sequence:" + bad[0]
            if key not in seen:
                seen.add(key)
                viols.append(violation(key, "save sequence: " + bad[1], True, initial_file=init, history=trace,
                                       expected_after_restart=expected,
                                       file_after=hx(open(path, "rb").read())[:400] if os.path.exists(path) else "missing"))
    # model check of the saves: after the complete operation list the file holds the new bytes (save_complete)
    answers = drv.batch([q[0] for q in sim_reqs])
    for (req, nops, after, rep), ans in zip(sim_reqs, answers):
        last = [e for e in ans.split("|") if e.startswith(f"{nops};a;")][0]
        _, _, cls, lst = last.split(";")
        mlist = {int(kv.split("=")[0]): kv.split("=")[1] for kv in filter(None, lst.split(","))}
        if mlist != after:
            viols.append(violation("save_sequence:model-mismatch:disk", "directory after a completed save differs from the "
                                   "model's replay of its operation list", False, model=mlist, real=after,
                                   broken="correspondence Model/Persist.v <-> save_data", **rep))
    stats["saves_replayed_by_model"] = len(sim_reqs)
    # crash injection on the transition to the empty set: old or new, and new once the save completed
    first = {}
    cstats = dict(saves=0, crash_points=0, shapes={}, results={})
    combos = [["IP"], ["BLE"], ["CoAP"], ["IP", "BLE", "CoAP"]]
    if tier != "quick":
        combos += [list(c) for n in (2, 3) for c in itertools.product(["IP", "BLE", "CoAP"], repeat=n)][:26]
    for ts in combos:
        old = {alias_pool[k]: gen_pairing(r, t) for k, t in enumerate(ts)}
        ctl = controller_with({})
        case = CrashCase(root, drv, "pairing.json", {"pairing.json": dumps_file(old)},
                         lambda: (lambda: ctl.save_data(path)), load_pairings, classify_pairings(old, {}), 4)
        res = case.run()
        res["old_equals_new"] = False
        cstats["saves"] += 1
        cstats["shapes"][res["shape"]] = cstats["shapes"].get(res["shape"], 0) + 1
        judge_crash_case("save_data", res, True, cov, viols, first, cstats, dict(old=old, new={}, stale=[]),
                         MODEL_TO_LOAD, {"old", "new"}, {"empty", "new"})
        stats["crash_cases_to_empty"] += 1
    stats["crash_to_empty"] = cstats
    cov.extra["save_sequence_stream"] = stats


# ---------------------------------------------------------------- stream: cache histories (update / delete / restart)
def stream_cachehist(ctx, drv, cov, viols, root, r):
    """Histories of {update_map(id, config_num, accessories, broadcast_key in {None,k1,k2}, state_num in
    {None,0,7,65535}), delete_map(id), restart} over 1..2 pairing ids, written through CharacteristicCacheFile either
    directly or through AbstractPairing.restore_accessories_state.  Oracle: after every restart get_map(id) equals the
    LAST entry written for the id field by field (None stays None, deleted stays absent), and a freshly loaded pairing
    (_load_accessories_from_cache) sees the same config_num / state_num / broadcast_key.  The model
    (map_run, theorem cache_map_last_write_wins) replays the direct histories and predicts the whole map."""
    import itertools
    import pathlib

    from aiohomekit.characteristic_cache import CharacteristicCacheFile
    from aiohomekit.model import Accessories
    tier = ctx["tier"]
    path = os.path.join(root, "charmap.json")
    K = {None: None, "k1": bytes(range(32)), "k2": bytes(range(100, 132))}
    STATES = [None, 0, 7, 65535]
    ids = ["AA:BB:CC:DD:EE:01", "aa:bb:cc:dd:ee:02"]
    accs = []
    while len(accs) < 2:
        m = gen_entity_map(r, True, small=True)
        if wf_map(m) and impl_from_list(m)[0] == "ok":
            accs.append(m)
    acc_views = [listed_view(dump_accessories(Accessories.from_list(json.loads(json.dumps(a))))) for a in accs]
    pds = []
    for i, hkid in enumerate(ids):
        pd = gen_pairing(r, "BLE")
        pd["AccessoryPairingID"] = hkid
        pds.append(pd)

    full = [("u", i, k, st) for i in (0, 1) for k in K for st in STATES] + [("d", 0), ("d", 1), ("r",)]
    small = [("u", 0, k, st) for k in (None, "k1") for st in (None, 7)] + [("d", 0), ("r",)]
    hists = []
    for n in (1, 2):
        hists += [("exhaustive", list(h)) for h in itertools.product(full, repeat=n)]
    top = 3 if tier == "quick" else 4
    hists += [("exhaustive-small", list(h)) for h in itertools.product(small, repeat=top)]
    if tier != "quick":
        hists += [("exhaustive", list(h)) for h in itertools.product(full, repeat=3)][:: 2]
    # a value, then another value or None for the same id, restart in between or not
    for k1, s1, k2, s2 in itertools.product(K, STATES, K, STATES):
        hists.append(("overwrite", [("u", 0, k1, s1), ("u", 0, k2, s2)]))
        if tier != "quick" or (k2 is None or s2 is None):
            hists.append(("overwrite", [("u", 1, k1, s1), ("r",), ("u", 1, k2, s2)]))
    # unpair and re-pair the same accessory with an unchanged database on ONE long-lived cache object:
    # write X, delete X (only entry), write X again identically; two-entry variant A, B, -B, -A, A; with other
    # operations (an unrelated write, a restart) interleaved at every position
    for k, st in itertools.product(K, STATES):
        x, y = ("u", 0, k, st), ("u", 1, "k2", 7)
        base = [[x, ("d", 0), x], [x, y, ("d", 1), ("d", 0), x], [y, x, ("d", 0), ("d", 1), x], [x, x], [x, ("d", 0), x, ("d", 0), x]]
        for b in base:
            hists.append(("recreate", list(b)))
        if tier != "quick" or st in (None, 7):
            for pos in range(4):
                hists.append(("recreate", ([x, ("d", 0), x])[:pos] + [("r",)] + ([x, ("d", 0), x])[pos:]))
                hists.append(("recreate", ([x, ("d", 0), x])[:pos] + [y] + ([x, ("d", 0), x])[pos:]))
    for _ in range(100 if tier == "quick" else 3000):
        h = [r.choice(full) for _ in range(r.randrange(3, 11))]
        if r.random() < 0.5:                      # bias: repeat an earlier operation verbatim, often after a delete
            j = r.randrange(len(h))
            if h[j][0] == "u":
                h += [("d", h[j][1])] * r.choice([0, 1]) + [h[j]]
        hists.append(("random", h))
    stats = dict(identical_rewrites=0, identical_recreates_after_delete=0, histories=0, updates=0, updates_with_none_over_value=0, deletes=0, restarts=0, via={"direct": 0, "pairing": 0},
                 exhaustive_full_alphabet_up_to=2 if tier == "quick" else 3, exhaustive_small_alphabet_length=top,
                 model_replays=0)
    seen = set()
    model_reqs = []

    def check_restart(expected, trace, via):
        """Fresh CharacteristicCacheFile + fresh controller/pairings; returns (cache, controller, pairings, problem)."""
        c = CharacteristicCacheFile(pathlib.Path(path))
        problem = None
        for i, hkid in enumerate(ids):
            got, want = c.get_map(hkid), expected.get(hkid)
            if (got is None) != (want is None):
                problem = ("presence", f"id {hkid}: entry {'absent' if got is None else 'present'} after the restart, "
                           f"last operation {'deleted it / never wrote it' if want is None else 'wrote it'}")
                break
            if want is None:
                continue
            for fld in ("config_num", "broadcast_key", "state_num"):
                if got.get(fld) != want[fld] or (fld in got and type(got[fld]) is not type(want[fld])):
                    problem = (fld, f"id {hkid}: {fld} written last = {want[fld]!r}, after the restart get_map has {got.get(fld)!r}")
                    break
            if problem:
                break
            v = listed_view(dump_accessories(Accessories.from_list(json.loads(json.dumps(got["accessories"])))))
            if v != acc_views[want["acc"]]:
                problem = ("accessories", f"id {hkid}: accessory database differs from the one written last")
                break
        ctl = make_controller(c)
        ps = []
        for i, hkid in enumerate(ids):
            pr_ = ctl.load_pairing(f"p{i}", dict(pds[i]))
            ps.append(pr_)
            if problem:
                continue
            st, want = pr_.accessories_state, expected.get(hkid)
            if (st is None) != (want is None):
                problem = ("pairing-restore-presence", f"id {hkid}: freshly loaded pairing has "
                           f"{'no' if st is None else 'a'} restored state")
            elif want is not None:
                seen_ = dict(config_num=st.config_num, state_num=st.state_num,
                             broadcast_key=st.broadcast_key.hex() if st.broadcast_key is not None else None)
                for fld, val in seen_.items():
                    if val != want[fld]:
                        problem = ("pairing-restore-" + fld, f"id {hkid}: freshly loaded pairing sees {fld} = {val!r}, "
                                   f"written last = {want[fld]!r}")
                        break
        return c, ctl, ps, problem

    for kind, h, via in [(k_, h_, v_) for k_, h_ in hists for v_ in ("direct", "pairing")]:
        reset_dir(root, {})
        c = CharacteristicCacheFile(pathlib.Path(path))
        ctl = make_controller(c)
        ps = [ctl.load_pairing(f"p{i}", dict(pds[i])) for i in range(2)]
        expected, trace, mops = {}, [], []
        problem = None
        prev_entry = {}        # last payload written per id on the CURRENT cache object (cleared by a restart)
        try:
            for op in h + [("r",)]:
                if op[0] == "u":
                    _, i, kname, st = op
                    # the payload is a function of the operation alone (not of its position in the history), so
                    # that "write X, delete X, write X again" re-creates a byte-identical entry (unpair / re-pair
                    # with an unchanged database); distinct (key, state) pairs still carry distinct config numbers
                    kidx, sidx = list(K).index(kname), STATES.index(st)
                    cfg = 1 + kidx + 3 * sidx
                    ai = (kidx + sidx + i) % 2
                    if prev_entry.get(ids[i]) == (cfg, ai, kname, st):
                        stats["identical_rewrites"] += 1
                        if ids[i] not in expected:
                            stats["identical_recreates_after_delete"] += 1
                    prev_entry[ids[i]] = (cfg, ai, kname, st)
                    key = K[kname]
                    prev = expected.get(ids[i])
                    if prev and ((key is None and prev["broadcast_key"] is not None) or (st is None and prev["state_num"] is not None)):
                        stats["updates_with_none_over_value"] += 1
                    if via == "direct":
                        c.async_create_or_update_map(ids[i], cfg, json.loads(json.dumps(accs[ai])), key.hex() if key else None, st)
                    else:
                        ps[i].restore_accessories_state(json.loads(json.dumps(accs[ai])), cfg, key, st)
                    expected[ids[i]] = dict(config_num=cfg, broadcast_key=key.hex() if key else None, state_num=st, acc=ai)
                    mops.append(["u", ids[i], dict(config_num=cfg, accessories=accs[ai], broadcast_key=key.hex() if key else None,
                                                   state_num=st)])
                    trace.append(["update", ids[i], dict(config_num=cfg, broadcast_key=kname, state_num=st)])
                    stats["updates"] += 1
                elif op[0] == "d":
                    (c if via == "direct" else ctl._char_cache).async_delete_map(ids[op[1]])
                    expected.pop(ids[op[1]], None)
                    mops.append(["d", ids[op[1]]])
                    trace.append(["delete", ids[op[1]]])
                    stats["deletes"] += 1
                else:
                    trace.append(["restart"])
                    stats["restarts"] += 1
                    c, ctl, ps, problem = check_restart(expected, trace, via)
                    prev_entry = {}
                    if problem:
                        break
                    if via == "direct" and len(model_reqs) < (300 if tier == "quick" else 3000) and mops:
                        model_reqs.append(("cmap " + to_tokens({}) + " " + to_tokens(mops),
                                           json.load(open(path, encoding="utf-8"))["pairings"] if os.path.exists(path) else {},
                                           list(trace)))
        except Exception as e:  # noqa
            problem = ("exception", f"{type(e).__name__} during the history")
        stats["histories"] += 1
        stats["via"][via] += 1
        cov.case("cachehist|" + via + canon(trace), any(t[0] == "update" for t in trace),
                 sample=dict(stream="cache-history", kind=kind, via=via, history=trace[:8], ok=problem is None)
                 if stats["histories"] % 211 == 0 else None,
                 cachehist_kind=kind, cachehist_via=via, cachehist_len=min(len(trace), 10),
                 cachehist_result=problem[0] if problem else "ok")
        if problem:
            key = "cache_history:restart-differs:" + problem[0]
            if key not in seen:
                seen.add(key)
                viols.append(violation(key, f"cache history (via {via}): " + problem[1], True, via=via, history=trace,
                                       last_written={k: {f: v for f, v in e.items() if f != "acc"} for k, e in expected.items()}))
    for (req, real_map, trace), ans in zip(model_reqs, drv.batch([q[0] for q in model_reqs])):
        m = parse_answer(ans)[0]
        stats["model_replays"] += 1
        if m[0] != "ok" or list(m[1].items()) != list(real_map.items()):
            viols.append(violation("cache_history:model-mismatch:map", "cache file content after the history differs from the "
                                   "model's map (map_run)", False, history=trace, real_ids=list(real_map),
                                   model_ids=list(m[1]) if m[0] == "ok" else m[0],
                                   broken="correspondence Model/PersistRec.v map_run <-> CharacteristicCacheMemory"))
    cov.extra["cache_history_stream"] = stats


# ---------------------------------------------------------------- stream: the concrete JSON codec (Model/PersistJson.v)
def tree_tokens(t, out=None):
    top = out is None
    out = [] if top else out
    if t is None:
        out.append("n")
    elif t is True:
        out.append("t")
    elif t is False:
        out.append("f")
    elif t[0] == "N":
        out.append("N" + hx(t[1]))
    elif t[0] == "S":
        out.append("S" + hx(t[1]))
    elif t[0] == "A":
        out.append(f"A{len(t[1])}")
        for x in t[1]:
            tree_tokens(x, out)
    else:
        out.append(f"O{len(t[1])}")
        for k, x in t[1]:
            out.append("S" + hx(k))
            tree_tokens(x, out)
    return " ".join(out) if top else None


def structural_cuts(b: bytes, r, budget):
    """Prefix lengths that end at structurally interesting places: right after every bracket, comma, colon, quote,
    backslash, inside \\u escapes and multi-byte characters, inside literals and numbers; sampled down to budget."""
    cuts = set(range(0, min(len(b), 24))) | set(range(max(0, len(b) - 24), len(b)))
    for i, c in enumerate(b):
        if c in b'{}[],:"\\' or c >= 0x80 or c in b"-.eE" or (i and b[i - 1] in b'{}[],:"\\'):
            cuts.add(i)
            cuts.add(i + 1)
    cuts = sorted(k for k in cuts if 0 <= k < len(b))
    if len(cuts) > budget:
        keep = set(cuts[:40]) | set(cuts[-40:]) | set(r.sample(cuts, budget - 80))
        cuts = sorted(keep)
    return cuts


def stream_jcodec(ctx, drv, cov, viols, root, r):
    """The printer / parser of Model/PersistJson.v against the real writers and readers:
    (a) the bytes written by the real save_data (indented) and the real CharacteristicCacheFile (compact) equal
        jprint of their lexical tree (independent lexer harness/ref/c20_jsonlex.py), and jparse gives the tree back;
    (b) every (small documents) / every structurally interesting (large documents) strict prefix: jparse = None, and the
        real loader does what the theorems say - load_data raises ConfigLoadingError and loads NOTHING, the cache is empty;
    (c) corruptions: whenever the model parser accepts, the real parser accepts with the same tree."""
    import pathlib

    from aiohomekit import hkjson
    from aiohomekit.characteristic_cache import CharacteristicCacheFile
    from ref.c20_jsonlex import LexError, lex
    import re
    re_bad_u = re.compile(rb"\\u(?![0-9a-fA-F]{4})")      # \u not followed by four hex digits: outside the lexical model
    tier = ctx["tier"]
    stats = dict(pairing_docs=0, cache_docs=0, printer_equal=0, parser_equal=0, prefixes=0, prefixes_model_none=0,
                 pairing_prefixes_loaded_by_real_loader=0, corruptions=0, model_accepts=0, real_more_lenient=0,
                 bytes_total=0, max_doc=0, not_wf=0)
    seen = set()
    docs = []          # (kind, ind, bytes)
    ppath = os.path.join(root, "pairing.json")
    cpath = os.path.join(root, "charmap.json")
    n_pair = 12 if tier == "quick" else 150
    for i in range(n_pair):
        reset_dir(root, {})
        ps = gen_pairing_set(r, None, ["IP", "BLE", "CoAP"] if i == 0 else None) if i % 6 else {}
        controller_with(ps).save_data(ppath)
        if not os.path.exists(ppath):
            stats["file_missing_after_write"] = stats.get("file_missing_after_write", 0) + 1   # judged by the sequence stream
            continue
        docs.append(("pairing", 1, open(ppath, "rb").read(), ps))
    fixtures = sorted(glob.glob(os.path.join(ctx["repo"], "tests", "fixtures", "*.json")))
    for i in range(10 if tier == "quick" else 120):
        reset_dir(root, {})
        c = CharacteristicCacheFile(pathlib.Path(cpath))
        if i < (3 if tier == "quick" else len(fixtures)):
            c.async_create_or_update_map("aa:bb:cc:dd:ee:ff", 3, json.load(open(fixtures[i % len(fixtures)], encoding="utf-8")),
                                         "00" * 32, 7)
        elif i % 7 == 3:
            c.async_create_or_update_map("x", 1, [], None, None)
            c.async_delete_map("x")
        else:
            for hkid, e in cache_doc(r, r.choice([1, 2]), small=(i % 3 != 0)).items():
                c.async_create_or_update_map(hkid, e["config_num"], e["accessories"], e["broadcast_key"], e["state_num"])
        if not os.path.exists(cpath):
            stats["file_missing_after_write"] = stats.get("file_missing_after_write", 0) + 1   # judged by the history stream
            continue
        docs.append(("cache", 0, open(cpath, "rb").read(), None))
    # (a) printer and parser on the complete documents
    trees = []
    printer_ok = set()
    for kind, ind, b, _ in docs:
        trees.append(lex(b))
    pr = drv.batch([f"jp {ind} " + tree_tokens(t) for (kind, ind, b, _), t in zip(docs, trees)])
    pa = drv.batch(["jq " + hx(b) for kind, ind, b, _ in docs])
    for (kind, ind, b, ps), t, a1, a2 in zip(docs, trees, pr, pa):
        stats[kind + "_docs"] += 1
        stats["bytes_total"] += len(b)
        stats["max_doc"] = max(stats["max_doc"], len(b))
        cov.case("jdoc|" + hx(b)[:6000], True,
                 sample=dict(stream="json-codec", kind=kind, bytes=len(b), head=b[:60].decode("utf-8", "replace"))
                 if stats[kind + "_docs"] % 7 == 1 else None, jcodec_kind=kind, jcodec_size=min(len(b) // 1000, 40))
        if a1.startswith("notwf"):
            stats["not_wf"] += 1
        if a1.split(" ")[1] == hx(b):
            stats["printer_equal"] += 1
            printer_ok.add(id(b))
        else:
            got = unhx_safe(a1.split(" ")[1])
            k = next((i for i in range(min(len(got), len(b))) if got[i] != b[i]), min(len(got), len(b)))
            key = f"jcodec:model-mismatch:printer:{kind}"
            if key not in seen:
                seen.add(key)
                viols.append(violation(key, f"the {kind} file written by the real code is not orjson's canonical "
                                       f"{'indented' if ind else 'compact'} form the model prints (first difference at byte {k}: "
                                       f"real {b[k:k + 12]!r}, model {got[k:k + 12]!r}; real length {len(b)}, model {len(got)})",
                                       False, file_hex=hx(b)[:1200], model_hex=hx(got)[:1200],
                                       broken="theorems *_json speak about jprint; the file on disk is something else"))
        if a2 == "ok " + tree_tokens(t):
            stats["parser_equal"] += 1
        else:
            viols.append(violation(f"jcodec:model-mismatch:parser:{kind}", "jparse of a real file differs from its lexical tree",
                                   False, file_hex=hx(b)[:1200], model=a2[:300]))
    # (b) strict prefixes
    reqs, meta = [], []
    for di, (kind, ind, b, ps) in enumerate(docs):
        if len(b) <= (500 if tier == "quick" else 3000):
            cuts = list(range(len(b)))
        else:
            cuts = structural_cuts(b, r, 160 if tier == "quick" else 900)
        for k in cuts:
            reqs.append("jq " + hx(b[:k]))
            meta.append((di, k))
    answers = drv.batch(reqs)
    for (di, k), a in zip(meta, answers):
        kind, ind, b, ps = docs[di]
        stats["prefixes"] += 1
        stats["prefixes_model_none"] += (a == "none")
        cov.case(f"jprefix|{di}|{k}", True, jprefix_kind=kind, jprefix_model=a.split(" ")[0])
        if a != "none" and id(b) in printer_ok:
            viols.append(violation("jcodec:model-prefix-parses", "the model parser accepts a strict prefix of a printed "
                                   "document (theorem json_prefix_none contradicted?)", False, prefix_hex=hx(b[:k])[-300:]))
        if kind == "pairing":
            reset_dir(root, {"pairing.json": b[:k]})
            loaded = load_pairings(ppath)
            if loaded[0] == "ok" and loaded[1] == ps:
                # the cut only removed trailing white space: complete data, harmless (the printer check reports the format)
                stats["pairing_prefixes_loading_complete_data"] = stats.get("pairing_prefixes_loading_complete_data", 0) + 1
            elif loaded[0] != "broken":
                stats["pairing_prefixes_loaded_by_real_loader"] += 1
                what = (f"loads {sorted(loaded[1])} (the complete file holds {sorted(ps)})" if loaded[0] == "ok"
                        else f"raises {loaded[1]}")
                key = "load_data:truncated-file-not-rejected:" + ("loads" if loaded[0] == "ok" else "other")
                if key not in seen:
                    seen.add(key)
                    viols.append(violation(key, f"load_data on a pairing file truncated to {k} of {len(b)} bytes {what} "
                                           f"instead of raising ConfigLoadingError (model: jparse = None -> Broken)", True,
                                           prefix_len=k, file_len=len(b), pairings=ps, tail_of_prefix=b[max(0, k - 80):k].decode("utf-8", "replace")))
    # (c) corruptions: model accepts => real accepts, same tree
    creqs, cbytes = [], []
    for di, (kind, ind, b, ps) in enumerate(docs):
        if not b:
            continue
        for _ in range(12 if tier == "quick" else 60):
            m = bytearray(b[: r.choice([len(b), min(len(b), 400)])]) if r.random() < 0.5 else bytearray(b)
            for _ in range(r.choice([1, 1, 2])):
                if not m:
                    break
                j = r.randrange(len(m))
                x = r.random()
                if x < 0.3:
                    m[j:j] = r.choice([b" ", b"\n", b"\t ", b"\r\n"])          # white space is harmless where allowed
                elif x < 0.5:
                    m[j] = r.choice(b'{}[],:"\\ 0-e.')
                elif x < 0.7:
                    del m[j:j + r.randrange(1, 4)]
                else:
                    m[j] ^= 1 << r.randrange(8)
            creqs.append("jq " + hx(bytes(m)))
            cbytes.append(bytes(m))
    for m, a in zip(cbytes, drv.batch(creqs)):
        stats["corruptions"] += 1
        try:
            real = hkjson.loads(m.decode("utf-8"))
            real_ok = True
        except (UnicodeDecodeError, ValueError):
            real_ok = False
        cov.case("jcorrupt|" + hx(m)[:4000], True, jcorrupt_model=a.split(" ")[0], jcorrupt_real=real_ok)
        if a != "none":
            stats["model_accepts"] += 1
            try:
                t = lex(m)
                same = (a == "ok " + tree_tokens(t))
            except LexError:
                same = False
            if not same:
                viols.append(violation("jcodec:model-mismatch:parser-corrupt", "model parser and reference lexer disagree",
                                       False, content_hex=hx(m)[:800], model=a[:200]))
            elif not real_ok and re_bad_u.search(m):
                stats["u_escape_not_checked_by_lexical_model"] = stats.get("u_escape_not_checked_by_lexical_model", 0) + 1
            elif not real_ok:
                try:
                    m.decode("utf-8")
                    viols.append(violation("jcodec:model-accepts-real-rejects", "the model parser accepts a text that hkjson "
                                           "rejects", False, content_hex=hx(m)[:800]))
                except UnicodeDecodeError:
                    pass          # byte level vs text level: invalid UTF-8 inside a string token
        elif real_ok:
            stats["real_more_lenient"] += 1
    cov.extra["json_codec_stream"] = stats


def unhx_safe(s):
    try:
        return b"" if s == "-" else bytes.fromhex(s)
    except ValueError:
        return b""


# ---------------------------------------------------------------- stream: BLE write-through decisions on a live BlePairing
BLE_DB = [{"aid": 1, "services": [
    {"iid": 1, "type": "3E", "characteristics": [
        {"type": "23", "iid": 2, "perms": ["pr"], "format": "string", "value": "Sensor ☀"},
        {"type": "14", "iid": 3, "perms": ["pw"], "format": "bool"}]},
    {"iid": 10, "type": "A2", "characteristics": [
        {"type": "37", "iid": 11, "perms": ["pr"], "format": "string", "value": "2.2.0"},
        {"type": "A5", "iid": 12, "perms": ["pr"], "format": "data", "value": ""}]},
    {"iid": 20, "type": "8A", "linked": [10], "characteristics": [
        {"type": "11", "iid": 21, "perms": ["pr", "ev"], "format": "float", "value": 21.5, "minValue": 0, "maxValue": 100,
         "minStep": 0.1, "broadcast_events": True, "disconnected_events": True}]}]}]


async def stream_blewt(ctx, drv, cov, viols, root, r):
    """The methods of BlePairing / AbstractPairing that DECIDE whether and what to write through to the cache, driven
    for real on one live BlePairing over a CharacteristicCacheFile: _async_set_broadcast_encryption_key (GATT request
    mocked, key derivation scripted) with an unchanged config number, restore_accessories_state with a changed config
    number, _update_state_num (connection / notification path) and _async_description_update (advertisement path) with
    the state number going up, down, to 65534, to 1 (roll-over) or staying.  After EVERY step a fresh
    CharacteristicCacheFile + fresh controller + freshly loaded pairing (what a restart at that moment would see) must
    hold the config number, state number and broadcast key the operations established."""
    import itertools
    import pathlib
    from unittest.mock import AsyncMock

    from aiohomekit.characteristic_cache import CharacteristicCacheFile
    from aiohomekit.controller.ble.manufacturer_data import HomeKitAdvertisement
    tier = ctx["tier"]
    path = os.path.join(root, "charmap.json")
    K = {"k1": bytes(range(32)), "k2": bytes(range(64, 96)), "k3": bytes(range(200, 232))}
    hkid = "aa:bb:cc:dd:ee:09"
    pd = gen_pairing(r, "BLE")
    pd["AccessoryPairingID"] = hkid
    ALPHA = ["key1", "key2", "cfgkey", "up_poll", "up_adv", "down_poll", "down_adv", "same_adv", "hi_poll", "one_poll",
             "one_adv", "restart", "val_event", "val_poll"]
    VALS = [21.5, 22.0, 19.25, 0.0, 99.9]
    hists = []
    for n in (1, 2):
        hists += [("exhaustive", list(h)) for h in itertools.product(ALPHA, repeat=n)]
    if tier != "quick":
        hists += [("exhaustive", list(h)) for h in itertools.product(ALPHA, repeat=3)]
    # directed: key set-up / regeneration while the config number is unchanged; counter going down / rolling over
    for pre in ([], ["up_poll"], ["cfgkey"], ["restart"], ["key1"], ["key1", "restart"]):
        for k in ("key1", "key2"):
            hists.append(("key-same-config", pre + [k, "restart"]))
            hists.append(("key-same-config", pre + [k, "restart", "up_adv"]))
    for pre in ([], ["key1"], ["restart"]):
        hists.append(("roll-over", pre + ["hi_poll", "key2", "one_poll", "restart"]))       # what the notification path does
        hists.append(("roll-over", pre + ["hi_poll", "one_adv", "restart", "up_poll"]))
        hists.append(("counter-down", pre + ["up_poll", "up_poll", "down_adv", "restart"]))
        hists.append(("counter-down", pre + ["up_adv", "down_poll", "restart", "up_poll", "restart"]))
    # characteristic values changed in place (event / poll, no re-fetch of the database) between two write-throughs
    for v in ("val_event", "val_poll"):
        for w in ("up_poll", "up_adv", "key1", "down_adv", "one_poll"):
            hists.append(("values-in-place", ["up_poll", v, w, "restart"]))
            hists.append(("values-in-place", [v, w]))
            hists.append(("values-in-place", ["key2", v, v, w, "restart", v, "up_adv"]))
    for _ in range(120 if tier == "quick" else 2500):
        hists.append(("random", [r.choice(ALPHA) for _ in range(r.randrange(3, 10))]))
    stats = dict(value_changes_event=0, value_changes_poll=0, write_throughs_after_value_change=0,
                 histories=0, steps=0, observations=0, key_set_same_config=0, key_set_changed_config=0, state_up=0,
                 state_down=0, state_same=0, state_rollover=0, restarts=0, initial_with_key=0,
                 exhaustive_up_to=2 if tier == "quick" else 3)
    seen = set()

    def fresh():
        c = CharacteristicCacheFile(pathlib.Path(path))
        ctl = make_controller(c)
        return c, ctl, ctl.load_pairing("ble", dict(pd))

    def observe():
        """What a restart right now would see."""
        c, ctl, p = fresh()
        st = p.accessories_state
        if st is None:
            return None
        return dict(config_num=st.config_num, state_num=st.state_num,
                    broadcast_key=st.broadcast_key.hex() if st.broadcast_key is not None else None,
                    db=listed_view(dump_accessories(st.accessories)))

    for hi, (kind, h) in enumerate(hists):
        reset_dir(root, {})
        init_key = K["k3"] if hi % 3 == 1 else None
        stats["initial_with_key"] += init_key is not None
        c, ctl, p = fresh()
        exp = dict(config_num=2, state_num=5, broadcast_key=init_key.hex() if init_key else None)
        p.restore_accessories_state(json.loads(json.dumps(BLE_DB)), 2, init_key, 5)
        c, ctl, p = fresh()                                       # the process starts with this cache
        db_view = listed_view(dump_accessories(p.accessories))
        trace = [["initial", dict(exp)]]
        problem = None

        def view_with(vals):
            v = json.loads(json.dumps(db_view))
            for sv in v[0]["services"]:
                for ch in sv["characteristics"]:
                    if ch["iid"] in vals:
                        ch["value"] = vals[ch["iid"]]
            return v
        cur_vals = {}                        # iid -> value set in place since the database was (re)built
        allowed = [view_with(cur_vals)]      # database states since the last REQUIRED write-through
        dirty = False
        try:
            for op in h:
                before_exp = dict(exp)
                if p.description is None:
                    p._async_description_update(HomeKitAdvertisement.from_cache(pd["AccessoryAddress"], hkid, exp["config_num"], exp["state_num"]))
                if op in ("key1", "key2"):
                    key = K["k" + op[3]]
                    p._derive = lambda *a, _k=key: _k
                    p._async_request_under_lock = AsyncMock()
                    async with p._operation_lock:
                        await p._async_set_broadcast_encryption_key()
                    exp["broadcast_key"] = key.hex()
                    stats["key_set_same_config"] += 1
                    trace.append(["set_broadcast_key (config number unchanged)", op])
                elif op == "cfgkey":
                    exp["config_num"] += 1
                    key = bytes.fromhex(exp["broadcast_key"]) if exp["broadcast_key"] else None
                    p.restore_accessories_state(json.loads(json.dumps(BLE_DB)), exp["config_num"], key, exp["state_num"])
                    stats["key_set_changed_config"] += 1
                    trace.append(["config change", exp["config_num"]])
                elif op in ("val_event", "val_poll"):
                    v = r.choice([x for x in VALS if x != cur_vals.get(21, 21.5)])
                    if op == "val_event":
                        name = r.choice(["Sensor ☀", "Küche", "x"])
                        p.accessories.process_changes({(1, 21): {"value": v}, (1, 2): {"value": name}})
                        cur_vals[2] = name
                        stats["value_changes_event"] += 1
                    else:
                        p._get_all_protocol_params = AsyncMock(return_value=None)
                        p._get_characteristics_while_connected = AsyncMock(return_value={(1, 21): {"value": v}})
                        async with p._operation_lock:
                            await p._populate_char_values(False)
                        stats["value_changes_poll"] += 1
                    cur_vals[21] = v
                    dirty = True
                    trace.append(["values changed in place (" + ("event via process_changes" if op == "val_event" else "poll via _populate_char_values") + ")",
                                  dict(cur_vals)])
                elif op == "restart":
                    c, ctl, p = fresh()
                    stats["restarts"] += 1
                    trace.append(["restart"])
                else:
                    what, via = op.split("_")
                    old = exp["state_num"]
                    new = {"up": old + 1 if old < 65534 else 1, "down": max(1, old - 3) if old > 1 else 65000, "same": old,
                           "hi": 65534, "one": 1}[what]
                    stats["state_up" if new > old else "state_same" if new == old else
                          ("state_rollover" if old >= 65534 else "state_down")] += 1
                    if via == "poll":
                        p._update_state_num(new)                  # connection / notification path
                    else:
                        p._async_description_update(HomeKitAdvertisement.from_cache(
                            pd["AccessoryAddress"], hkid, exp["config_num"], new))
                    exp["state_num"] = new
                    trace.append([f"state number {old} -> {new}", "notification/poll path" if via == "poll" else "advertisement"])
                stats["steps"] += 1
                # bookkeeping: which database states may be on disk now
                must_write = dict(exp) != before_exp       # config number, state number or key changed: write-through required
                if op == "cfgkey":
                    cur_vals = {}                          # the database was rebuilt from BLE_DB
                if must_write:
                    if dirty:
                        stats["write_throughs_after_value_change"] += 1
                    allowed = [view_with(cur_vals)]
                    dirty = False
                else:
                    allowed.append(view_with(cur_vals))
                got = observe()
                stats["observations"] += 1
                if op == "restart" and got is not None:
                    # the running pairing now holds what was on disk
                    for sv in got["db"][0]["services"]:
                        for ch in sv["characteristics"]:
                            if ch["iid"] in (2, 21):
                                cur_vals[ch["iid"]] = ch["value"]
                    allowed = [view_with(cur_vals)]
                    dirty = False
                if got is None:
                    problem = ("presence", "a restart now finds no cached state for the pairing")
                    break
                for fld in ("config_num", "state_num", "broadcast_key"):
                    if got[fld] != exp[fld]:
                        problem = (fld, f"{fld} is {exp[fld]!r} in the running pairing after '{trace[-1][0]}', a restart now "
                                   f"restores {got[fld]!r}")
                        break
                if problem:
                    break
                if got["db"] not in allowed:
                    def vals_of(view):
                        return {ch["iid"]: ch["value"] for sv in view[0]["services"] for ch in sv["characteristics"] if ch["iid"] in (2, 21)}
                    problem = ("accessories", f"after '{trace[-1][0]}' a restart restores characteristic values {vals_of(got['db'])}, "
                               f"the pairing held {vals_of(allowed[-1])} when it last had to write through"
                               if vals_of(got["db"]) != vals_of(allowed[-1]) else "the accessory database restored by a restart differs")
                    break
                live_db = listed_view(dump_accessories(p.accessories))
                if live_db != view_with(cur_vals):
                    problem = ("live-database", "the running pairing's database differs from what the operations established")
                    break
                live = dict(config_num=p.config_num, state_num=p.state_num,
                            broadcast_key=p.broadcast_key.hex() if p.broadcast_key is not None else None)
                if live != exp:
                    problem = ("live-state", f"the running pairing holds {live}, the operations established {exp}")
                    break
        except Exception as e:  # noqa
            import traceback
            problem = ("exception", f"{type(e).__name__}: {traceback.format_exc()[-400:]}")
        stats["histories"] += 1
        cov.case("blewt|" + canon(trace), len(trace) > 1,
                 sample=dict(stream="ble-write-through", kind=kind, history=trace[:8], ok=problem is None)
                 if stats["histories"] % 97 == 0 else None,
                 blewt_kind=kind, blewt_len=min(len(trace), 10), blewt_result=problem[0] if problem else "ok",
                 blewt_initial_key=init_key is not None)
        if problem:
            key = "ble_write_through:restart-differs:" + problem[0]
            if key not in seen:
                seen.add(key)
                viols.append(violation(key, "BLE write-through: " + problem[1], problem[0] != "exception", history=trace,
                                       established=exp))
    for t in asyncio.all_tasks():
        if t is not asyncio.current_task() and "disconnected_events" in repr(t):
            t.cancel()
    cov.extra["ble_write_through_stream"] = stats


# ---------------------------------------------------------------- stream: cache file crash points, prefixes, corruptions
def cache_doc(r, n_pairings=1, small=True):
    out = {}
    for _ in range(n_pairings):
        hkid = ":".join(f"{r.getrandbits(8):02x}" for _ in range(6))
        out[hkid] = {"config_num": r.randrange(1, 100), "accessories": gen_entity_map(r, True, small=small),
                     "broadcast_key": r.choice([None, hexs(r, 32)]), "state_num": r.choice([None, r.randrange(1, 65536)])}
    return out


def classify_cache(old, new):
    def f(loaded):
        if loaded[0] != "ok":
            return "other:" + loaded[1]
        d = loaded[1]
        if old is not None and d == old:
            return "old"
        if d == new:
            return "new"
        if d == {}:
            return "empty"
        return "different"
    return f


CACHE_MODEL_TO_LOAD = {"old": "old", "new": "new", "missing": "empty", "prefix": "empty"}


def stream_cache(ctx, drv, cov, viols, root, r):
    import pathlib

    from aiohomekit import hkjson
    from aiohomekit.characteristic_cache import CharacteristicCacheFile
    tier = ctx["tier"]
    path = os.path.join(root, "cache.json")
    # ---- crash points of the cache's own save
    stats = dict(saves=0, crash_points=0, shapes={}, results={})
    first = {}
    for i in range(6 if tier == "quick" else 60):
        old = cache_doc(r, r.choice([1, 2])) if i % 4 != 3 else None
        hkid = ":".join(f"{r.getrandbits(8):02x}" for _ in range(6))
        add = cache_doc(r, 1)
        (_, ent), = add.items()
        new = dict(old or {})
        new[hkid] = ent
        init = {"cache.json": json.dumps({"pairings": old}, ensure_ascii=False).encode("utf-8")} if old is not None else {}

        def make_action(ent=ent, hkid=hkid):
            def act():
                c = CharacteristicCacheFile(pathlib.Path(path))
                c.async_create_or_update_map(hkid, ent["config_num"], ent["accessories"], ent["broadcast_key"], ent["state_num"])
            return act
        case = CrashCase(root, drv, "cache.json", init, make_action, load_cache, classify_cache(old, new),
                         5 if tier == "quick" else 12)
        res = case.run()
        stats["saves"] += 1
        stats["shapes"][res["shape"]] = stats["shapes"].get(res["shape"], 0) + 1
        judge_crash_case("cache_save", res, True, cov, viols, first, stats, dict(old_ids=sorted(old or {}), new_id=hkid),
                         CACHE_MODEL_TO_LOAD, {"old", "new", "empty"}, {"old", "new", "empty"})
    cov.extra["cache_save_stream"] = stats
    # ---- every strict prefix of valid cache files; unparsable corruptions
    pstats = dict(documents=0, prefixes=0, prefixes_exhaustive_docs=0, corruptions=0, corruptions_unparsable=0,
                  corruptions_still_parsable=0, parsable_without_pairings=0, midchar_prefixes=0)
    docs = []
    for f in sorted(glob.glob(os.path.join(ctx["repo"], "tests", "fixtures", "*.json")))[: (4 if tier == "quick" else 99)]:
        try:
            docs.append({"aa:bb:cc:dd:ee:ff": {"config_num": 3, "accessories": json.load(open(f, encoding="utf-8")),
                                               "broadcast_key": "00" * 32, "state_num": 7}})
        except ValueError:
            pass
    for i in range(6 if tier == "quick" else 60):
        docs.append(cache_doc(r, r.choice([1, 2]), small=True))
    docs.append({})
    seen = set()

    def check_bytes(content, what, doc_id):
        reset_dir(root, {"cache.json": content})
        res = load_cache(path)
        try:
            hkjson.loads(content.decode("utf-8"))
            parsable = True
        except (UnicodeDecodeError, ValueError):
            parsable = False
        return res, parsable

    for di, doc in enumerate(docs):
        reset_dir(root, {})
        c = CharacteristicCacheFile(pathlib.Path(path))
        c.storage_data = json.loads(json.dumps(doc))
        c._do_save()
        valid = open(path, "rb").read()
        pstats["documents"] += 1
        full = load_cache(path)
        if full != ("ok", doc):
            viols.append(violation("cache_roundtrip:valid-file-not-read-back", "a cache file written by CharacteristicCacheFile "
                                   "is not read back unchanged", True, document=doc, loaded=str(full)[:300]))
            continue
        if len(valid) <= (700 if tier == "quick" else 4000):
            lens = list(range(len(valid)))
            pstats["prefixes_exhaustive_docs"] += 1
        else:
            lens = sorted(set(list(range(0, 40)) + list(range(len(valid) - 40, len(valid)))
                              + [r.randrange(len(valid)) for _ in range(60 if tier == "quick" else 400)]
                              + [k for k in range(1, len(valid)) if valid[k] & 0xC0 == 0x80][:40]))
        for k in lens:
            res, parsable = check_bytes(valid[:k], "prefix", di)
            pstats["prefixes"] += 1
            mid = k < len(valid) and valid[k] & 0xC0 == 0x80
            pstats["midchar_prefixes"] += mid
            cov.case(f"prefix|{di}|{k}", True,
                     sample=dict(stream="cache-prefix", doc_bytes=len(valid), prefix=k, loaded=str(res)[:40]) if pstats["prefixes"] % 499 == 0 else None,
                     prefix_result="empty" if res == ("ok", {}) else str(res[0]), prefix_midchar=bool(mid))
            if res != ("ok", {}) or parsable:
                key = "cache_prefix_safe:" + ("prefix-parses" if parsable else "prefix-not-empty-cache")
                if key not in seen:
                    seen.add(key)
                    viols.append(violation(key, f"strict prefix ({k} of {len(valid)} bytes) of a valid cache file loads as "
                                           f"{str(res)[:80]} instead of the empty cache", True,
                                           prefix_hex=hx(valid[:k])[-200:], prefix_len=k, file_len=len(valid)))
        # corruptions
        for _ in range(25 if tier == "quick" else 120):
            b = bytearray(valid)
            m = r.random()
            if not b:
                break
            if m < 0.3:
                j = r.randrange(len(b))
                b[j] ^= 1 << r.randrange(8)
            elif m < 0.5:
                j = r.randrange(len(b))
                del b[j:j + r.randrange(1, 6)]
            elif m < 0.7:
                j = r.randrange(len(b))
                b[j:j] = bytes(r.choice([0x7B, 0x7D, 0x22, 0x2C, 0x5B, 0xFF, 0x00, 0xC3]) for _ in range(r.randrange(1, 4)))
            elif m < 0.85:
                b = b[: r.randrange(len(b))] + bytes(r.getrandbits(8) for _ in range(r.randrange(1, 10)))
            else:
                b = bytearray(r.getrandbits(8) for _ in range(r.randrange(0, 60)))
            res, parsable = check_bytes(bytes(b), "corruption", di)
            pstats["corruptions"] += 1
            cov.case("corrupt|" + hx(bytes(b))[:4000], True,
                     sample=dict(stream="cache-corruption", bytes=len(b), parsable=parsable, loaded=str(res)[:40]) if pstats["corruptions"] % 97 == 0 else None,
                     corrupt_parsable=parsable, corrupt_result="empty" if res == ("ok", {}) else (res[0] if res[0] == "ok" else res[1]))
            if not parsable:
                pstats["corruptions_unparsable"] += 1
                if res != ("ok", {}):
                    key = "cache_prefix_safe:unparsable-not-empty-cache"
                    if key not in seen:
                        seen.add(key)
                        viols.append(violation(key, f"unparsable cache content loads as {str(res)[:80]} instead of the empty cache",
                                               True, content_hex=hx(bytes(b))[:600]))
            else:
                pstats["corruptions_still_parsable"] += 1
                if res[0] != "ok":
                    pstats["parsable_without_pairings"] += 1      # outside the property: parsable but not a cache document
    cov.extra["cache_prefix_stream"] = pstats


# ---------------------------------------------------------------- extraction cross-check (vm_compute inside Coq)
class RecordingDriver(Driver):
    """The extracted driver, remembering a bounded number of small (request, answer) pairs per request kind
    (in stream order) for the vm_compute cross-check.  Requests and answers pass through unchanged."""
    KEEP = 400                   # pairs remembered per kind
    MAX_CHARS = 14000            # request + answer; keeps every Gallina literal and every printed value small

    def __init__(self, exe, workers=12):
        super().__init__(exe, workers)
        self.seen = {}

    def batch(self, lines):
        lines = list(lines)
        answers = super().batch(lines)
        for q, a in zip(lines, answers):
            lst = self.seen.setdefault(q.split(" ", 1)[0], [])
            if len(lst) < self.KEEP and len(q) + len(a) <= self.MAX_CHARS:
                lst.append((q, a))
        return answers


XCHECK_KINDS = (("sim", 4), ("proc", 3), ("rt", 6), ("entry", 3), ("pairs", 4), ("cmap", 3), ("hexrt", 3))


def xcheck_sample(seen):
    """Deterministic sample: per kind, distinct requests ordered by size (stable), evenly spaced over the smaller
    half (so the smallest - usually an error class - and some mid-sized ones)."""
    out = []
    for kind, k in XCHECK_KINDS:
        uniq, have = [], set()
        for q, a in seen.get(kind, []):
            if q in have or "#" in a or a.startswith(("unmodelled", "driver-exception", "bad-request")):
                continue
            have.add(q)
            uniq.append((q, a))
        uniq.sort(key=lambda qa: len(qa[0]) + len(qa[1]))
        n = len(uniq)
        idx = sorted({(j * (n - 1)) // (2 * max(k - 1, 1)) for j in range(k)}) if n else []
        out += [uniq[i] for i in idx]
    return out


CKEY_NAMES = [("type", "K_type"), ("iid", "K_iid"), ("perms", "K_perms"), ("format", "K_format"), ("value", "K_value"),
              ("ev", "K_ev"), ("description", "K_description"), ("unit", "K_unit"), ("minValue", "K_minValue"),
              ("maxValue", "K_maxValue"), ("minStep", "K_minStep"), ("maxLen", "K_maxLen"),
              ("valid-values", "K_valid_values"), ("handle", "K_handle"), ("broadcast_events", "K_broadcast_events"),
              ("disconnected_events", "K_disconnected_events")]


class XUnmodelled(Exception):
    pass


def x_parse(toks, pos=0):
    """Token stream -> tree mirroring the driver's jv: ('n',) ('b',bool) ('i',z) ('d',m,e) ('s',bytes) ('a',[..]) ('o',[(bytes,v)..])."""
    t = toks[pos]
    c, body = t[0], t[1:]
    if c == "n":
        return ("n",), pos + 1
    if c in "tf":
        return ("b", c == "t"), pos + 1
    if c == "i":
        return ("i", int(body)), pos + 1
    if c == "d":
        m, e = body.split(":")
        return ("d", int(m), int(e)), pos + 1
    if c == "s":
        return ("s", b"" if body == "-" else bytes.fromhex(body)), pos + 1
    if c == "a":
        out, pos = [], pos + 1
        for _ in range(int(body)):
            x, pos = x_parse(toks, pos)
            out.append(x)
        return ("a", out), pos
    if c == "o":
        out, pos = [], pos + 1
        for _ in range(int(body)):
            k, pos = x_parse(toks, pos)
            x, pos = x_parse(toks, pos)
            if k[0] != "s":
                raise ValueError("key")
            out.append((k[1], x))
        return ("o", out), pos
    raise ValueError(t)


def g_list(items, ty):
    items = list(items)
    return "[" + "; ".join(items) + "]" if items else f"(@nil {ty})"


def g_bytes(b):
    return "[" + "; ".join(str(x) for x in b) + "]%N" if len(b) else "(@nil N)"


def g_str(s):
    return g_bytes(s.encode("ascii"))


def g_jv(v):
    k = v[0]
    if k == "n":
        return "JNull"
    if k == "b":
        return "(JBool true)" if v[1] else "(JBool false)"
    if k == "i":
        return f"(JInt ({v[1]})%Z)"
    if k == "d":
        return f"(JFlt ({v[1]})%Z {v[2]}%nat)"
    if k == "s":
        return f"(JStr {g_bytes(v[1])})"
    if k == "a":
        return "(JArr " + g_list((g_jv(x) for x in v[1]), "jv") + ")"
    return "(JObj " + g_kv(v[1]) + ")"


def g_kv(kv):
    return g_list((f"({g_bytes(k)}, {g_jv(x)})" for k, x in kv), "(bytes * jv)")


def g_opt(o, f=g_jv):
    return "None" if o is None else f"(Some {f(o)})"


def x_get(name, kv):
    for k, v in kv:
        if k == name.encode():
            return v
    return None


def g_cdict(v):
    if v[0] != "o":
        raise XUnmodelled()
    names = {n.encode(): c for n, c in CKEY_NAMES}
    return g_list((f"({names[k]}, {g_jv(x)})" for k, x in v[1] if k in names), "(ckey * jv)")


def g_sdict(v):
    if v[0] != "o":
        raise XUnmodelled()
    kv = v[1]
    chars, linked = x_get("characteristics", kv), x_get("linked", kv)
    if (chars is not None and chars[0] != "a") or (linked is not None and linked[0] != "a"):
        raise XUnmodelled()
    return "(mksd %s %s %s %s)" % (
        g_opt(x_get("iid", kv)), g_opt(x_get("type", kv)),
        g_opt(chars, lambda c: g_list((g_cdict(x) for x in c[1]), "cdict")),
        g_opt(linked, lambda c: g_list((g_jv(x) for x in c[1]), "jv")))


def g_adict(v):
    if v[0] != "o":
        raise XUnmodelled()
    svcs = x_get("services", v[1])
    if svcs is not None and svcs[0] != "a":
        raise XUnmodelled()
    return "(mkad %s %s)" % (g_opt(x_get("aid", v[1])), g_opt(svcs, lambda c: g_list((g_sdict(x) for x in c[1]), "sdict")))


def g_adicts(v):
    if v[0] != "a":
        raise XUnmodelled()
    return g_list((g_adict(x) for x in v[1]), "adict")


def g_table(t):
    """tab_of: first entry with the type as key; an entry that is not an object gives the empty row."""
    out, closing = "(fun ty : bytes => ", ""
    for k, e in (t[1] if t[0] == "o" else []):
        if e[0] == "o":
            def g(name, kv=e[1]):
                x = x_get(name, kv)
                return "None" if x is None or x == ("n",) else f"(Some {g_jv(x)})"
            row = "(mkctab %s %s %s %s %s %s)" % tuple(g(n) for n in ("format", "description", "unit", "min_value",
                                                                     "max_value", "min_step"))
        else:
            row = "no_tab"
        out += f"if bytes_eqb ty {g_bytes(k)} then {row} else ("
        closing += ")"
    return out + "no_tab" + closing + ")"


def g_ops(toks):
    out = []
    for t in toks:
        p = t.split(".")
        if p[0] in ("T", "A") and len(p) == 3:
            out.append(f"{'OpenTrunc' if p[0] == 'T' else 'OpenAppend'} {int(p[1])}%N {int(p[2])}%N")
        elif p[0] == "W" and len(p) == 3:
            out.append(f"Write {int(p[1])}%N {g_bytes(unhx_(p[2]))}")
        elif p[0] in ("S", "C") and len(p) == 2:
            out.append(f"{'Fsync' if p[0] == 'S' else 'Close'} {int(p[1])}%N")
        elif p[0] == "R" and len(p) == 3:
            out.append(f"Rename {int(p[1])}%N {int(p[2])}%N")
        elif p[0] == "U" and len(p) == 2:
            out.append(f"Unlink {int(p[1])}%N")
        else:
            raise ValueError(t)
    return out


def unhx_(s):
    return b"" if s == "-" else bytes.fromhex(s)


def zs_bytes(b):
    return [4, len(b)] + list(b)


def zs_tokens(toks):
    """The driver's printed jv tokens / class words -> the integer list the generated show_* functions produce."""
    out = []
    for t in toks:
        c, body = t[0], t[1:]
        if t in ("ok", "err", "crash", "fuel"):
            out.append({"ok": 100, "err": 101, "crash": 102, "fuel": 103}[t])
        elif t == ";":
            out.append(-1)
        elif t == "n":
            out.append(0)
        elif t in ("t", "f"):
            out += [1, int(t == "t")]
        elif c == "i":
            out += [2, int(body)]
        elif c == "d":
            m, e = body.split(":")
            out += [3, int(m), int(e)]
        elif c == "s":
            out += zs_bytes(unhx_(body))
        elif c == "a":
            out += [5, int(body)]
        elif c == "o":
            out += [6, int(body)]
        else:
            raise ValueError(t)
    return out


XCHECK_PRELUDE = """From Coq Require Import List NArith ZArith Bool.
From AHK Require Import Lib.Res Lib.ByteStr Model.Persist Model.PersistRec.
Import ListNotations.
Open Scope Z_scope.
(* jv -> list Z, token by token as the driver prints it *)
Definition fb (s : bytes) : list Z := 4 :: Z.of_nat (length s) :: map Z.of_N s.
Fixpoint flat (v : jv) : list Z :=
  match v with
  | JNull => [0]
  | JBool b => [1; if b then 1 else 0]
  | JInt z => [2; z]
  | JFlt m e => [3; m; Z.of_nat e]
  | JStr s => fb s
  | JArr l => 5 :: Z.of_nat (length l) :: flat_map flat l
  | JObj kv => 6 :: Z.of_nat (length kv) :: flat_map (fun p => match p with (k, x) => fb k ++ flat x end) kv
  end.
Definition show_res {A} (f : A -> list Z) (r : res unit A) : list Z :=
  match r with Ok a => 100 :: f a | Err _ => [101] | Crash => [102] | OutOfFuel => [103] end.
Definition norm_x (s : bytes) : option bytes := match s with (33%N :: _) => None | _ => Some s end.
(* the record <-> jv dumps of ocaml/drv_c20.ml, written again in Gallina *)
@key_defs@
Definition jo (o : option jv) : jv := match o with Some v => v | None => JNull end.
Definition dump_chr (c : chr) : jv :=
  JObj [(ks_type, JStr (c_type c)); (ks_iid, c_iid c); (ks_perms, JArr (map JStr (c_perms c)));
        (ks_format, jo (c_format c)); (ks_value, jo (c_value c)); (ks_description, jo (c_desc c));
        (ks_unit, jo (c_unit c)); (ks_minValue, jo (c_min c)); (ks_maxValue, jo (c_max c));
        (ks_minStep, jo (c_step c)); (ks_valid_values, jo (c_valid c)); (ks_handle, jo (c_handle c));
        (ks_broadcast_events, jo (c_bcast c)); (ks_disconnected_events, jo (c_disc c))].
Definition dump_svc (s : svc) : jv :=
  JObj [(ks_iid, s_iid s); (ks_type, JStr (s_type s)); (ks_linked, JArr (s_linked s));
        (ks_characteristics, JArr (map dump_chr (s_chars s)))].
Definition dump_acc (a : acc) : jv := JObj [(ks_aid, a_aid a); (ks_services, JArr (map dump_svc (a_services a)))].
Definition dump_accs (l : list acc) : jv := JArr (map dump_acc l).
Definition ckey_name (k : ckey) : bytes :=
  match k with
@ckey_cases@
  end.
Definition jv_of_cdict (d : cdict) : jv := JObj (map (fun p => (ckey_name (fst p), snd p)) d).
Definition opt (k : bytes) (o : option jv) : list (bytes * jv) := match o with Some v => [(k, v)] | None => [] end.
Definition jv_of_sdict (d : sdict) : jv :=
  JObj (opt ks_iid (sd_iid d) ++ opt ks_type (sd_type d)
        ++ match sd_chars d with Some l => [(ks_characteristics, JArr (map jv_of_cdict l))] | None => [] end
        ++ match sd_linked d with Some l => [(ks_linked, JArr l)] | None => [] end).
Definition jv_of_adict (d : adict) : jv :=
  JObj (opt ks_aid (ad_aid d)
        ++ match ad_services d with Some l => [(ks_services, JArr (map jv_of_sdict l))] | None => [] end).
Definition show_rt (tbl : bytes -> ctab) (ads : list adict) : list Z :=
  match accs_from norm_x tbl ads with
  | Ok accs =>
      let ser := accs_to accs in
      100 :: flat (dump_accs accs) ++ -1 :: flat (JArr (map jv_of_adict ser))
          ++ -1 :: show_res (fun l => flat (dump_accs l)) (accs_from norm_x tbl ser)
          ++ -1 :: [1; if forallb (wf_accb norm_x tbl) accs then 1 else 0]
  | r => show_res (fun _ => []) r
  end.
Definition hexd (n : N) : N := if N.ltb n 10 then (48 + n)%N else (87 + n)%N.
Definition hexs (b : bytes) : bytes := flat_map (fun x => [hexd (x / 16)%N; hexd (x mod 16)%N]) b.
Definition show_entry (tbl : bytes -> ctab) (ce : centry) : list Z :=
  match entry_load norm_x tbl ce with
  | Ok st =>
      let back := entry_save st in
      100 :: flat (JObj [(ks_config_num, st_config st);
                         (ks_broadcast_key, match st_bkey st with Some k => JStr (hexs k) | None => JNull end);
                         (ks_state_num, jo (st_state st)); (ks_accessories, dump_accs (st_accs st))])
          ++ -1 :: flat (JObj [(ks_config_num, jo (e_config back));
                               (ks_accessories, match e_accs back with Some l => JArr (map jv_of_adict l) | None => JNull end);
                               (ks_broadcast_key, jo (e_bkey back)); (ks_state_num, jo (e_state back))])
  | r => show_res (fun _ => []) r
  end.
Definition show_pairs (pf : pfile) : list Z :=
  match load_pairings pf with
  | None => [102]
  | Some l => 100 :: flat (JObj (map (fun p => (fst p, JObj (snd p))) (save_pairings l)))
  end.
Definition show_cmap (m0 : cmap jv) (ops : list (cop jv)) : list Z := 100 :: flat (JObj (map_run _ ops m0)).
Definition show_hexrt (b : bytes) : list Z := match hex_dec (hex_enc b) with Some x => 100 :: fb x | None => [104] end.
(* the crash-point loop of the driver's sim command *)
Definition empty_fs : fs := mkfs (fun _ => None) (fun _ => []) (fun _ => O) (fun _ => None) 0%N.
Definition cls_code (c : fclass) : Z :=
  match c with CMissing => 0 | COld => 1 | CNew => 2 | CPrefixNew => 3 | COther => 4 end.
(* file contents: in full up to 48 bytes, else length, Adler-32 and last byte (printing long lists is what costs time) *)
Definition adler (c : bytes) : N :=
  let ab := fold_left (fun ab x => let a := ((fst ab + x) mod 65521)%N in (a, ((snd ab + a) mod 65521)%N)) c (1%N, 0%N) in
  (snd ab * 65536 + fst ab)%N.
Definition fc (c : bytes) : list Z :=
  if Nat.leb (length c) 48 then fb c else [7; Z.of_nat (length c); Z.of_N (adler c); Z.of_N (last c 0%N)].
Definition show_view (old : option bytes) (nw : bytes) (target : N) (nnames n : nat) (vc : Z) (v : fs) : list Z :=
  let ls := flat_map (fun k => match read v (N.of_nat k) with Some c => [Z.of_nat k :: fc c] | None => [] end)
                     (seq 0 nnames) in
  Z.of_nat n :: vc :: cls_code (classify old nw (read v target)) :: Z.of_nat (length ls) :: concat ls.
Definition show_sim (target : N) (old : option bytes) (nw : bytes) (nnames : nat) (init_ops ops : list op) : list Z :=
  let st0 := run init_ops empty_fs in
  flat_map (fun n => let st := crash_after n ops st0 in
                     show_view old nw target nnames n 0 (view_all st) ++ show_view old nw target nnames n 1 (view_lossy st))
           (seq 0 (S (length ops))).
Definition op_flat (o : op) : list Z :=
  match o with
  | OpenTrunc h f => [0; Z.of_N h; Z.of_N f]
  | OpenAppend h f => [1; Z.of_N h; Z.of_N f]
  | Write h b => 2 :: Z.of_N h :: fb b
  | Fsync h => [3; Z.of_N h]
  | Close h => [4; Z.of_N h]
  | Rename a b => [5; Z.of_N a; Z.of_N b]
  | Unlink a => [6; Z.of_N a]
  end.
"""

CLS_CODE = {"missing": 0, "old": 1, "new": 2, "prefix": 3, "other": 4}
OP_CODE = {"T": 0, "A": 1, "W": 2, "S": 3, "C": 4, "R": 5, "U": 6}


def zs_ops(toks):
    out = []
    for t in toks:
        p = t.split(".")
        out.append(OP_CODE[p[0]])
        if p[0] == "W":
            out += [int(p[1])] + zs_bytes(unhx_(p[2]))
        else:
            out += [int(x) for x in p[1:]]
    return out


def xcheck_term(req):
    """One driver request -> the Gallina term that evaluates the same model function(s)."""
    toks = req.split()
    kind = toks[0]
    if kind == "sim":
        target, old, nw, nnames, inits = toks[1:6]
        init_ops = []
        if inits != ".":
            for t in inits.split(";"):
                nm, h = t.split(":")
                init_ops += [f"OpenTrunc 1000%N {int(nm)}%N", f"Write 1000%N {g_bytes(unhx_(h))}", "Fsync 1000%N", "Close 1000%N"]
        return "show_sim %d%%N %s %s %d%%nat %s %s" % (
            int(target), "None" if old == "!" else f"(Some {g_bytes(unhx_(old))})", g_bytes(unhx_(nw)), int(nnames),
            g_list(init_ops, "op"), g_list(g_ops(toks[6:]), "op"))
    if kind == "proc":
        k, h, t, f = toks[1], int(toks[2]), int(toks[3]), int(toks[4])
        chunks = g_list((g_bytes(unhx_(c)) for c in toks[5:]), "bytes")
        call = {"inplace": f"save_inplace {h}%N {f}%N", "atomic": f"save_atomic {h}%N {t}%N {f}%N",
                "nofsync": f"save_atomic_nofsync {h}%N {t}%N {f}%N"}[k]
        return f"flat_map op_flat ({call} {chunks})"
    if kind == "rt":
        t, pos = x_parse(toks, 1)
        a, _ = x_parse(toks, pos)
        return f"show_rt {g_table(t)} {g_adicts(a)}"
    if kind == "entry":
        t, pos = x_parse(toks, 1)
        e, _ = x_parse(toks, pos)
        if e[0] != "o":
            raise XUnmodelled()
        kv = e[1]

        def nonnull(name):
            x = x_get(name, kv)
            return None if x is None or x == ("n",) else x
        return "show_entry %s (mkce %s %s %s %s)" % (g_table(t), g_opt(x_get("config_num", kv)),
                                                     g_opt(x_get("accessories", kv), g_adicts),
                                                     g_opt(nonnull("broadcast_key")), g_opt(nonnull("state_num")))
    if kind == "pairs":
        f, _ = x_parse(toks, 1)
        if f[0] != "o" or any(d[0] != "o" for _, d in f[1]):
            raise XUnmodelled()
        return "show_pairs " + g_list((f"({g_bytes(a)}, {g_kv(d[1])})" for a, d in f[1]), "(bytes * pdata)")
    if kind == "cmap":
        m0, pos = x_parse(toks, 1)
        ops, _ = x_parse(toks, pos)
        if m0[0] != "o" or ops[0] != "a":
            raise XUnmodelled()
        gops = []
        for o in ops[1]:
            if o[0] == "a" and len(o[1]) == 3 and o[1][0] == ("s", b"u") and o[1][1][0] == "s":
                gops.append(f"CUpdate {g_bytes(o[1][1][1])} {g_jv(o[1][2])}")
            elif o[0] == "a" and len(o[1]) == 2 and o[1][0] == ("s", b"d") and o[1][1][0] == "s":
                gops.append(f"CDelete {g_bytes(o[1][1][1])}")
            else:
                raise XUnmodelled()
        return f"show_cmap {g_kv(m0[1])} {g_list(gops, '(cop jv)')}"
    if kind == "hexrt":
        return f"show_hexrt {g_bytes(unhx_(toks[1]))}"
    raise XUnmodelled()


def xcheck_expected(req, ans):
    """The driver's answer line -> the integer list the Gallina term must evaluate to."""
    kind = req.split(" ", 1)[0]
    if kind == "sim":
        out = []
        for ent in ans.split("|"):
            n, v, cls, lst = ent.split(";")
            files = [kv.split("=") for kv in filter(None, lst.split(","))]
            out += [int(n), {"a": 0, "l": 1}[v], CLS_CODE[cls], len(files)]
            for k, c in files:
                b = unhx_(c)
                out += [int(k)] + (zs_bytes(b) if len(b) <= 48 else [7, len(b), zlib.adler32(b) & 0xFFFFFFFF, b[-1]])
        return out
    if kind == "proc":
        return zs_ops(ans.split())
    if kind == "hexrt":
        t = ans.split()
        return [104] if t == ["none"] else [100] + zs_bytes(unhx_(t[1]))
    return zs_tokens(ans.split())


def vm_crosscheck(ctx, sample):
    """Evaluate a sample of the run's real driver requests with vm_compute inside Coq (the same model functions, the
    driver's OCaml glue written again in Gallina in the generated file) and compare the complete answers with what
    the extracted OCaml driver printed: takes extraction + ocaml/drv*.ml out of the single-point-of-trust position.
    Returns (requests evaluated, [(request, driver answer as integers, vm_compute value)] that disagree)."""
    import re

    from common import coq_eval
    keys = sorted(set(re.findall(r"\bks_(\w+)", XCHECK_PRELUDE)) | {n for n, _ in CKEY_NAMES if "-" not in n})
    defs = [f"Definition ks_{k} : bytes := {g_str(k)}." for k in keys]
    defs.append(f"Definition ks_valid_minus_values : bytes := {g_str('valid-values')}.")   # cdict key; the dump has valid_values
    prelude = XCHECK_PRELUDE.replace("@key_defs@", "\n".join(defs)).replace(
        "@ckey_cases@", "\n".join(f"  | {c} => ks_{n.replace('-', '_minus_')}" for n, c in CKEY_NAMES))
    body, pairs = [prelude], []
    for q, a in sample:
        try:
            term = xcheck_term(q)
        except XUnmodelled:
            continue
        body.append(f"Eval vm_compute in ({term}).")
        pairs.append((q, a))
    if not pairs:
        return 0, []
    out = coq_eval(ctx["verif"], ctx.get("pid", "C20"), "crosscheck", "\n".join(body) + "\n", timeout=300)
    blocks = re.split(r"(?m)^\s*= ", out)[1:]
    bad = []
    if len(blocks) != len(pairs):
        return len(blocks), [("(all)", f"{len(pairs)} terms", f"{len(blocks)} values printed")]
    for (q, a), blk in zip(pairs, blocks):
        got = [int(x) for x in re.findall(r"-?\d+", blk.rsplit(":", 1)[0])]
        try:
            want = xcheck_expected(q, a)
        except (ValueError, KeyError, IndexError):
            want = None
        if got != want:
            bad.append((q, want, got))
    return len(pairs), bad


# ---------------------------------------------------------------- stream: host environment (locale encoding)
HOST_C_ENV = dict(LC_ALL="C", LANG="C", PYTHONUTF8="0", PYTHONCOERCECLOCALE="0")
HOSTS = [  # (name, environment overrides, simulated codec of open() without an explicit encoding)
    ("utf-8", dict(PYTHONUTF8="1"), None),
    ("ascii", HOST_C_ENV, None),                       # the real interpreter under the POSIX C locale
    ("cp1252", HOST_C_ENV, "cp1252"),                  # legacy Windows code page (simulated, see ref/c20_hostenv.py)
    ("latin-1", HOST_C_ENV, "latin-1"),                # LANG=xx.ISO-8859-1 (simulated): decodes ANY byte string
]


class HostChildren:
    """One child interpreter per host environment (harness/ref/c20_hostenv.py), kept for the write and the read phase."""

    def __init__(self, ctx, hosts):
        import subprocess
        import sys
        script = os.path.join(ctx["verif"], "harness", "ref", "c20_hostenv.py")
        self.procs = []
        for name, envo, sim in hosts:
            env = {k: v for k, v in os.environ.items() if k not in ("PYTHONIOENCODING", "LC_CTYPE", "LC_ALL", "LANG", "PYTHONUTF8")}
            env.update(envo)
            env.update(PYTHONHASHSEED="0", PYTHONDONTWRITEBYTECODE="1")
            self.procs.append((sim, subprocess.Popen([sys.executable, "-B", script, ctx["repo"]], env=env, stdin=subprocess.PIPE,
                                                     stdout=subprocess.PIPE, stderr=subprocess.PIPE)))

    def round(self, jobs):
        """jobs: one per host -> answers (dict | ('harness', text)) in the same order; the children work concurrently."""
        for (sim, p), job in zip(self.procs, jobs):
            try:
                p.stdin.write(json.dumps(dict(job, sim=sim), ensure_ascii=True).encode("ascii") + b"\n")
                p.stdin.flush()
            except (OSError, ValueError):          # the child died in an earlier round; reported there
                pass
        outs = []
        for sim, p in self.procs:
            ans = None
            while True:
                ln = p.stdout.readline()
                if not ln:
                    break
                if ln.startswith(b"C20HOSTENV "):
                    ans = json.loads(ln[11:].decode("ascii"))
                    break
            if ans is None:
                try:
                    se = p.communicate(timeout=30)[1]
                except Exception:  # noqa
                    p.kill()
                    se = b"no answer"
                ans = ("harness", se.decode("utf-8", "replace")[-800:])
            outs.append(ans)
        return outs

    def close(self):
        for _, p in self.procs:
            try:
                p.stdin.close()
                p.wait(timeout=60)
            except Exception:  # noqa
                p.kill()


HOSTENV_PRELUDE = """From Coq Require Import List NArith.
From AHK Require Import Model.PersistText.
Import ListNotations.
Open Scope N_scope.
"""


def stream_hostenv(ctx, drv, cov, viols, root, r):
    """The HOST dimension of 'read back unchanged after a restart': every file is written by the real save_data /
    CharacteristicCacheFile in a child interpreter under each host environment and read back by fresh children under
    EVERY host environment (same host = plain restart; other host = the CLI in a shell, then the service).  Oracle,
    independent of the model: every writer succeeds, every reader loads exactly the data written, and the bytes on
    disk are the same on every host.  Model tie (Model/PersistText.v): the file is utf8_enc of the text's code points,
    utf8_dec of the file gives them back, and dec_ascii / dec_latin1 of the file are what the model says a reader
    WITHOUT an explicit encoding would see (None / mojibake) - evaluated with vm_compute."""
    tier = ctx["tier"]
    hosts = HOSTS[:3] if tier == "quick" else HOSTS
    stats = dict(hosts=[h[0] for h in hosts], files=0, writer_runs=0, reader_runs=0, restarts_same_host=0,
                 restarts_other_host=0, non_ascii_files=0, host_reports={}, model_strings=0)
    reset_dir(root, {})
    # ---- documents
    pair_sets = {"ascii.json": {"alias": gen_pairing(r, "IP"), "a b": gen_pairing(r, "BLE")},
                 "all_aliases.json": {a: gen_pairing(r, ["IP", "BLE", "CoAP"][i % 3]) for i, a in enumerate(ALIASES)},
                 "empty.json": {}}
    fld = gen_pairing(r, "CoAP")
    fld["name"] = "Wohnzimmer – Küche ☕"                     # non-ASCII only inside an (unknown) field value
    pair_sets["field_only.json"] = {"plain": fld}
    for a in ("é́", "日本語のエイリアス", "🏠 home", "ключ", "Ünï/cödé:1"):     # one per UTF-8 sequence length / script
        pair_sets["one_%04x.json" % ord(a[0])] = {a: gen_pairing(r)}
    for i in range(2 if tier == "quick" else 40):
        pair_sets[f"rnd{i}.json"] = gen_pairing_set(r)
    names = ["Küche", "客厅 ☕", "plain", "Fenêtre \U0001f3e0", "ÿĀ߿ࠀ￿\U00010000\U0010ffff"]

    def emap_named(nm, i):
        return [{"aid": 1 + i, "services": [{"iid": 1, "type": "0000003E-0000-1000-8000-0026BB765291", "characteristics": [
            {"type": "00000023-0000-1000-8000-0026BB765291", "iid": 2, "perms": ["pr"], "format": "string", "value": nm}]}]}]
    cache_sets = {"cache_ascii.json": [["00:00:00:00:00:01", 3, emap_named("plain", 0), None, None]],
                  "cache_names.json": [["00:00:00:00:00:%02x" % (i + 2), 1 + i, emap_named(nm, i), hexs(r, 32) if i % 2 else None,
                                        (7 + i) if i % 3 else None] for i, nm in enumerate(names)]}
    for i in range(1 if tier == "quick" else 20):
        em = gen_entity_map(r, True, small=True)
        while not wf_map(em):
            em = gen_entity_map(r, True, small=True)
        cache_sets[f"cache_rnd{i}.json"] = [["AA:BB:CC:00:00:%02X" % i, 5, em, hexs(r, 32), 65535]]
    # a file that was NOT written by this code base's writer in this run: stdlib json, same layout (previous version / other tool)
    foreign = {"foreign_all.json": pair_sets["all_aliases.json"]}
    for fn, ps in foreign.items():
        os.makedirs(os.path.join(root, "foreign"), exist_ok=True)
        with open(os.path.join(root, "foreign", fn), "wb") as f:
            f.write(dumps_file(ps))
    seen = set()

    def report(key, what, **payload):
        if key not in seen:
            seen.add(key)
            viols.append(violation(key, what, True, **payload))
    # ---- writers (one child per host, each in its own directory)
    for h in hosts:
        os.makedirs(os.path.join(root, "w_" + h[0]), exist_ok=True)
    children = HostChildren(ctx, hosts)
    wres = children.round([dict(mode="write", dir=os.path.join(root, "w_" + h[0]), pairs=pair_sets, caches=cache_sets) for h in hosts])
    content = {}
    for h, res in zip(hosts, wres):
        stats["writer_runs"] += 1
        if isinstance(res, tuple):
            viols.append(violation("harness-exception:host_environment", f"writer child for host {h[0]} failed: {res[1]}", False))
            continue
        stats["host_reports"][h[0]] = res["host"]
        for kind, sets in (("pairs", pair_sets), ("caches", cache_sets)):
            for fn, data in sets.items():
                w = res[kind].get(fn, ["missing"])
                site = "save_data" if kind == "pairs" else "cache_save"
                if w[0] != "ok":
                    report(f"host_encoding:{site}-fails:{h[0]}", f"{site} on a host whose preferred encoding is {h[0]} fails "
                           f"with {w[1:]} for a document the utf-8 host saves", host=h[0], file=fn, data=data, impl=w)
                    continue
                b = open(os.path.join(root, "w_" + h[0], fn), "rb").read()
                content[(h[0], fn)] = b
                ref = content.get((hosts[0][0], fn))
                if ref is not None and b != ref:
                    report(f"host_encoding:{site}-bytes-depend-on-host:{h[0]}", f"{site} writes other bytes on a {h[0]} host than "
                           "on a utf-8 host: the file cannot be read back by the other one", host=h[0], file=fn, data=data,
                           bytes_here=show_content(b), bytes_utf8_host=show_content(ref))
    # ---- readers: every host reads every writer's files (and the foreign file)
    jobs = []
    for h in hosts:
        sets = [dict(tag=w[0], dir=os.path.join(root, "w_" + w[0]), pairs=[fn for fn in pair_sets if (w[0], fn) in content],
                     caches=[fn for fn in cache_sets if (w[0], fn) in content]) for w in hosts]
        sets.append(dict(tag="foreign", dir=os.path.join(root, "foreign"), pairs=list(foreign), caches=[]))
        jobs.append((h, dict(mode="read", sets=sets)))
    rres = children.round([j for _, j in jobs])
    children.close()
    flat = []
    for (h, job), res in zip(jobs, rres):
        stats["reader_runs"] += 1
        if isinstance(res, tuple):
            viols.append(violation("harness-exception:host_environment", f"reader child for host {h[0]} failed: {res[1]}", False))
            continue
        for st in job["sets"]:
            flat.append((h, st["tag"], st, res["sets"][st["tag"]]))
    for h, wname, job, res in flat:
        same = wname == h[0]
        rel = "same-host" if same else ("foreign-file" if wname == "foreign" else "other-host")
        for fn in job["pairs"]:
            want = (foreign if wname == "foreign" else pair_sets)[fn]
            got = res["pairs"].get(fn, ["missing"])
            nonascii = not json.dumps(want, ensure_ascii=False).isascii()
            stats["restarts_same_host" if same else "restarts_other_host"] += 1
            cov.case(f"hostenv|p|{wname}|{h[0]}|{fn}", True,
                     sample=dict(stream="host_environment", writer=wname, reader=h[0], file=fn, result=got[0]) if fn.startswith("all") and not same else None,
                     hostenv_writer=wname, hostenv_reader=h[0], hostenv_non_ascii=nonascii, hostenv_result=got[0])
            if got[0] != "ok" or got[1] != want:
                how = got[0] if got[0] != "ok" else "differs"
                diff = None
                if got[0] == "ok":
                    diff = dict(missing=sorted(set(want) - set(got[1])), unexpected=sorted(set(got[1]) - set(want)),
                                changed=sorted(a for a in want if a in got[1] and got[1][a] != want[a]))
                report(f"host_encoding:load_data:{rel}:{how}:{h[0]}", f"pairing file written on a {wname} host ({len(want)} pairings, "
                       f"{'non-ASCII' if nonascii else 'ASCII only'}) is not read back unchanged after a restart on a host whose "
                       f"preferred encoding is {h[0]}: {got[0]} {got[1] if got[0] != 'ok' else diff}", writer=wname, reader=h[0],
                       file=fn, saved=want, impl=got if got[0] != "ok" else diff,
                       file_bytes=show_content(content.get((wname, fn), b"")) if wname != "foreign" else None)
        for fn in job["caches"]:
            ents = cache_sets[fn]
            want = {e[0]: dict(config_num=e[1], accessories=e[2], broadcast_key=e[3], state_num=e[4]) for e in ents}
            got = res["caches"].get(fn, ["missing"])
            nonascii = not json.dumps(want, ensure_ascii=False).isascii()
            stats["restarts_same_host" if same else "restarts_other_host"] += 1
            cov.case(f"hostenv|c|{wname}|{h[0]}|{fn}", True, hostenv_writer=wname, hostenv_reader=h[0], hostenv_non_ascii=nonascii,
                     hostenv_result=got[0])
            if got[0] != "ok" or got[1] != want:
                how = got[0] if got[0] != "ok" else ("empty" if not got[1] else "differs")
                report(f"host_encoding:cache_load:{rel}:{how}:{h[0]}", f"accessory cache written on a {wname} host is not read back "
                       f"unchanged after a restart on a host whose preferred encoding is {h[0]}: {got[0]} "
                       f"{got[1] if got[0] != 'ok' else sorted(got[1])}", writer=wname, reader=h[0], file=fn, saved=want,
                       impl=got if got[0] != "ok" else sorted(got[1]))
    stats["files"] = len(content)
    stats["non_ascii_files"] = sum(1 for b in content.values() if not b.isascii())
    # ---- model tie: utf8_enc / utf8_dec / dec_ascii / dec_latin1 of Model/PersistText.v against CPython's codecs
    if not ctx.get("replay"):
        from common import coq_eval
        import re
        strs = sorted(set(ALIASES) | set(names) | {"", "\x7f\x80", "퟿", "a\u0080b"})
        files = sorted((k for k in content if k[0] == hosts[0][0] and len(content[k]) < 2500), key=lambda k: len(content[k]))[:6]
        rawb = [b"\xc3", b"\xe5\xae", b"\xc0\xaf", b"\xed\xa0\x80", b"\xf4\x90\x80\x80", b"\xf0\x8f\xbf\xbf", b"\xe0\x9f\xbf", b"a\x80",
                b"\xf8\x88\x80\x80\x80", b"K\xc3\xbcche", b"\xff"] + [content[k][:c] for k in files[-2:] for c in
                                                                          r.sample(range(len(content[k])), min(12, len(content[k])))]
        def gl(xs):
            return "[" + "; ".join(str(x) for x in xs) + "]"
        body = [HOSTENV_PRELUDE]
        checks = []
        for s in strs:
            body.append(f"Eval vm_compute in (utf8_enc {gl(ord(c) for c in s)}).")
            checks.append(("enc", s, list(s.encode("utf-8", "surrogatepass"))))
        for b in [content[k] for k in files] + rawb:
            for fnm, codec in (("utf8_dec", "utf-8"), ("dec_ascii", "ascii"), ("dec_latin1", "latin-1")):
                body.append(f"Eval vm_compute in (match {fnm} {gl(b)} with Some l => 1 :: l | None => [] end).")
                try:
                    want = [1] + [ord(c) for c in b.decode(codec)]
                except UnicodeDecodeError:
                    want = []
                checks.append((fnm, b, want))
        out = coq_eval(ctx["verif"], ctx.get("pid", "C20"), "hostenv", "\n".join(body) + "\n", timeout=300)
        blocks = re.split(r"(?m)^\s*= ", out)[1:]
        if len(blocks) != len(checks):
            viols.append(violation("hostenv:model-mismatch:vm_compute", f"{len(checks)} terms, {len(blocks)} values printed", False))
        else:
            for (kind, inp, want), blk in zip(checks, blocks):
                got = [int(x) for x in re.findall(r"\d+", blk.rsplit(":", 1)[0])]
                stats["model_strings"] += 1
                if got != want:
                    viols.append(violation(f"hostenv:model-mismatch:{kind}", f"Model/PersistText.v {kind} differs from CPython's codec on "
                                           f"{inp!r}: model {got[:40]}, CPython {want[:40]}", False, input=repr(inp),
                                           broken="correspondence Model/PersistText.v"))
                    break
    cov.extra["host_environment_stream"] = stats


# ---------------------------------------------------------------- run
async def run_async(ctx):
    tier, seed = ctx["tier"], ctx["seed"]
    drv = RecordingDriver(ctx["driver"])
    cov = Coverage("distinct (stream, case, crash point, view) for the crash streams; distinct document for the "
                   "round-trip streams; distinct byte string for the prefix/corruption stream")
    viols = []
    root = tempfile.mkdtemp(prefix="verif_c20_", dir=SANDBOX_PARENT)
    try:
        import time
        timings = {}
        t0 = time.time()
        await stream_seq(ctx, drv, cov, viols, root, rng(seed, "c20seq"))
        timings["sequence"] = round(time.time() - t0, 1)
        t0 = time.time()
        try:
            await stream_blewt(ctx, drv, cov, viols, root, rng(seed, "c20blewt"))
        except Exception:  # noqa
            import traceback
            viols.append(violation("harness-exception:ble_write_through", "stream ble_write_through failed: "
                                   + traceback.format_exc()[-1200:], False, stream="ble_write_through"))
        timings["ble_write_through"] = round(time.time() - t0, 1)
        for name, fn in (("save", lambda: stream_save(ctx, drv, cov, viols, root, rng(seed, "c20save"))),
                         ("cache", lambda: stream_cache(ctx, drv, cov, viols, root, rng(seed, "c20cache"))),
                         ("cache_history", lambda: stream_cachehist(ctx, drv, cov, viols, root, rng(seed, "c20cachehist"))),
                         ("layout", lambda: stream_layout(ctx, drv, cov, viols, root, rng(seed, "c20layout"))),
                         ("host_environment", lambda: stream_hostenv(ctx, drv, cov, viols, root, rng(seed, "c20hostenv"))),
                         ("json_codec", lambda: stream_jcodec(ctx, drv, cov, viols, root, rng(seed, "c20jcodec"))),
                         ("pairs", lambda: stream_pairs(ctx, drv, cov, viols, root, rng(seed, "c20pairs"))),
                         ("entry", lambda: stream_entry(ctx, drv, cov, viols, root, rng(seed, "c20entry"))),
                         ("emap", lambda: stream_emap(ctx, drv, cov, viols, rng(seed, "c20emap")))):
            t0 = time.time()
            try:
                fn()
            except Exception:  # noqa - one stream failing must not hide what the others found
                import traceback
                viols.append(violation(f"harness-exception:{name}", f"stream {name} failed: " + traceback.format_exc()[-1200:],
                                       False, stream=name))
            timings[name] = round(time.time() - t0, 1)
        if not ctx.get("replay"):
            t0 = time.time()
            n_x, bad_x = vm_crosscheck(ctx, xcheck_sample(drv.seen))
            timings["vm_crosscheck"] = round(time.time() - t0, 1)
            cov.extra["vm_compute_crosscheck"] = {"requests": n_x, "disagreements": len(bad_x)}
            if bad_x:
                q, want, got = bad_x[0]
                viols.append(violation("extraction-vs-vm_compute", "extracted driver and vm_compute disagree on "
                                       f"{len(bad_x)} of {n_x} sampled requests; first: {str(q)[:200]}", False,
                                       request=str(q)[:2000], driver=str(want)[:600], vm_compute=str(got)[:600],
                                       broken="extraction / ocaml/drv_c20.ml glue"))
        cov.extra["stream_seconds"] = timings
    finally:
        shutil.rmtree(root, ignore_errors=True)
        for t in asyncio.all_tasks():
            if t is not asyncio.current_task():
                t.cancel()
    cov.extra["exhaustive"] = True
    cov.extra["exhaustive_part"] = ("every primitive operation of every generated save is a crash point (in both crash "
                                    "views); for the first saves every byte boundary of the written text is a crash point")
    cov.extra["sandbox"] = "fresh directory under /tmp per run, removed afterwards; no file under /repo or /verif is written"
    return dict(coverage=cov.to_dict(), violations=viols)


def run(ctx):
    import logging
    lg = logging.getLogger("asyncio")          # Controller logs skipped pairings through asyncio's logger
    lvl = lg.level
    lg.setLevel(logging.CRITICAL)
    try:
        return asyncio.run(run_async(ctx))
    finally:
        lg.setLevel(lvl)
