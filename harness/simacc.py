"""Simulated HomeKit IP accessory for the asyncio-state-machine properties (C08, C10, C11, C12).

The pair-verify *cryptography* is not exercised here (that is C01's business): the seam
`aiohomekit.controller.ip.connection.get_session_keys` is replaced by a generator that performs
one real HTTP POST /pair-verify round trip over the in-memory transport and then acts on an outcome
code the simulated accessory put into its reply (so the decision travels over the wire, through
the real post_tlv / HTTP parser / TLV decoder).  After an "ok" outcome both sides use fixed session
keys and the real SecureHomeKitProtocol talks to a reference ChaCha20-Poly1305 (cryptography pkg).
"""
from __future__ import annotations

import struct

from cryptography.hazmat.primitives.ciphers.aead import ChaCha20Poly1305

C2A_KEY = bytes(range(32))
A2C_KEY = bytes(range(32, 64))

# verify outcomes -> code byte carried in TLV type 1 of the M2 reply
VERIFY_CODES = {"ok": 0, "wrongid": 1, "badtag": 2, "badsig": 3, "auth": 4, "invalid": 5, "garbage": 6,
                # answered like "ok"; what the accessory does to the session afterwards is up to the endpoint's handler
                "okfin": 0, "okrst": 0, "okbad": 0}


def install_fake_verify():
    """Patch get_session_keys as seen by controller.ip.connection; returns undo()."""
    import aiohomekit.controller.ip.connection as conn
    from aiohomekit import exceptions as ex

    def fake_get_session_keys(pairing_data):
        resp = yield ([(6, b"\x01"), (3, b"\x11" * 32)], [6, 1, 7])
        d = dict(resp)
        code = bytes(d.get(1, b"\xff"))[:1]
        code = code[0] if code else 0xFF
        if code == 1:
            raise ex.IncorrectPairingIdError("step 3")
        if code == 2:
            raise ex.InvalidAuthTagError("step 3")
        if code == 3:
            raise ex.InvalidSignatureError("step 3")
        if code == 4:
            raise ex.AuthenticationError("step 3")
        if code == 5:
            raise ex.InvalidError("M2: scripted")
        if code == 6:
            raise ZeroDivisionError("scripted non-HomeKit exception")
        if code != 0:
            raise ex.InvalidError("M2: no outcome")

        def derive(salt, info):
            return C2A_KEY if info == b"Control-Write-Encryption-Key" else A2C_KEY
        return None, derive

    orig = conn.get_session_keys
    conn.get_session_keys = fake_get_session_keys

    def undo():
        conn.get_session_keys = orig
    return undo


def http_response(code: int, body: bytes = b"", ctype: str = "application/hap+json", proto: str = "HTTP/1.1",
                  reason: str = "OK") -> bytes:
    head = f"{proto} {code} {reason}\r\n"
    if body or code != 204:
        head += f"Content-Type: {ctype}\r\nContent-Length: {len(body)}\r\n"
    return head.encode() + b"\r\n" + body


def event_message(body: bytes) -> bytes:
    return (b"EVENT/1.0 200 OK\r\nContent-Type: application/hap+json\r\nContent-Length: "
            + str(len(body)).encode() + b"\r\n\r\n" + body)


class SimEndpoint:
    """Accessory side of ONE connection.

    verify: one of VERIF_CODES keys ("okfin"/"okrst" answer like "ok"; the handler drops the session later), or "peerclose" (FIN when the POST arrives), "peerreset",
            "http4xx" (HTTP 470 reply), "silent" (never answers).
    vdelay: (optional attribute, default 0 = answer in the callback that delivered the request) number of
            virtual ticks the accessory takes before its decisive pair-verify reaction (reply, FIN or RST);
            a reaction scheduled after the controller closed the connection is lost, like on a real socket.
    handler(endpoint, method, target, body) -> None | bytes | list[(delay_ticks, bytes)]
            called for every decrypted request in the secure phase; returned HTTP bytes are
            sent (encrypted) after the delay (default 0 = in the same callback).
    """

    def __init__(self, net, transport, verify="ok", handler=None, frame_size=1024):
        self.net, self.tr = net, transport
        self.verify = verify
        self.handler = handler
        self.secure = False
        self.buf = b""
        self.enc_buf = b""
        self.recv_ctr = 0
        self.send_ctr = 0
        self.frame_size = frame_size
        self.vdelay = 0
        self.requests = []        # (ticks, method, target, body) seen in the secure phase
        self.plain_requests = []

    # ---- bytes from the controller
    def on_client_data(self, tr, data):
        if self.secure:
            self.enc_buf += data
            while len(self.enc_buf) >= 2:
                n = struct.unpack("<H", self.enc_buf[:2])[0]
                if len(self.enc_buf) < 2 + n + 16:
                    break
                frame, self.enc_buf = self.enc_buf[2:2 + n + 16], self.enc_buf[2 + n + 16:]
                nonce = b"\x00" * 4 + struct.pack("<Q", self.recv_ctr)
                try:
                    pt = ChaCha20Poly1305(C2A_KEY).decrypt(nonce, frame, struct.pack("<H", n))
                except Exception:
                    self.net.log("acc-decrypt-failed", tr.cid)
                    tr.peer_reset()
                    return
                self.recv_ctr += 1
                self.buf += pt
        else:
            self.buf += data
        self._drain()

    def _drain(self):
        while True:
            i = self.buf.find(b"\r\n\r\n")
            if i < 0:
                return
            head = self.buf[:i].decode("latin-1").split("\r\n")
            clen = 0
            for h in head[1:]:
                k, _, v = h.partition(":")
                if k.strip().lower() == "content-length":
                    clen = int(v.strip())
            if len(self.buf) < i + 4 + clen:
                return
            body = self.buf[i + 4:i + 4 + clen]
            self.buf = self.buf[i + 4 + clen:]
            method, target = head[0].split(" ")[:2]
            self._request(method, target, body)

    def _request(self, method, target, body):
        if not self.secure:
            self.plain_requests.append((self.net.loop.ticks, method, target, body))
            if target == "/pair-verify":
                v = self.verify
                self.net.log("verify", self.tr.cid, v)
                if self.vdelay > 0:
                    self.net.loop.call_later(self.vdelay / 4096, self._verify_react, v)
                else:
                    self._verify_react(v)
            return
        self.requests.append((self.net.loop.ticks, method, target, body))
        self.net.log("request", self.tr.cid, method, target)
        out = self.handler(self, method, target, body) if self.handler else None
        if out is None:
            return
        if isinstance(out, (bytes, bytearray)):
            out = [(0, bytes(out))]
        for delay, data in out:
            if delay <= 0:
                self.send_secure(data)
            else:
                self.net.loop.call_later(delay / 4096, self.send_secure, data)

    def _verify_react(self, v):
        """The accessory's decisive reaction to the pair-verify request."""
        if v == "peerclose":
            self.tr.peer_fin()
        elif v == "peerreset":
            self.tr.peer_reset()
        elif v == "silent":
            pass
        elif v == "http4xx":
            self.tr.peer_send(http_response(470, b"\x06\x01\x02\x07\x01\x02", "application/pairing+tlv8",
                                            reason="Connection Authorization Required"))
        else:
            tlv = b"\x06\x01\x02\x01\x01" + bytes([VERIFY_CODES[v]])
            if VERIFY_CODES[v] == 0:
                self.secure = True
            self.tr.peer_send(http_response(200, tlv, "application/pairing+tlv8"))

    # ---- bytes to the controller
    def seal(self, data: bytes) -> bytes:
        out = b""
        fs = self.frame_size
        for i in range(0, len(data), fs):
            chunk = data[i:i + fs]
            ln = struct.pack("<H", len(chunk))
            nonce = b"\x00" * 4 + struct.pack("<Q", self.send_ctr)
            out += ln + ChaCha20Poly1305(A2C_KEY).encrypt(nonce, chunk, ln)
            self.send_ctr += 1
        return out

    def send_secure(self, data: bytes, pieces=None):
        """Encrypt and deliver; `pieces` = cut positions of the ciphertext stream (separate reads)."""
        ct = self.seal(data)
        cuts = [0] + sorted(pieces or []) + [len(ct)]
        for a, b in zip(cuts, cuts[1:]):
            if b > a:
                self.tr.peer_send(ct[a:b])

    def send_event(self, body: bytes, pieces=None):
        self.send_secure(event_message(body), pieces)
