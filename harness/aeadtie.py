"""Correspondence for the shared bit-exact ChaCha20-Poly1305 model (coq/theories/Model/ChaChaPoly.v).

The model's executable definitions are evaluated INSIDE Coq (`vm_compute`, no extraction) on generated
(key, nonce, aad, plaintext) cases and compared with what the classes of aiohomekit/crypto/chacha20poly1305.py
answer on the same inputs:

  cp_seal          vs  ChaCha20Poly1305Encryptor(key).encrypt(aad, nonce, pt)
  cp_open          vs  ChaCha20Poly1305Decryptor(key).decrypt(aad, nonce, box)   (InvalidTag = None)
  cp_open_partial  vs  ChaCha20Poly1305PartialTag(key).open(nonce, box, aad)     (None / ValueError / plaintext)

The implementation's answers are written into the generated file and the comparison happens in Gallina, so the
only thing parsed back is one small code per case.  An independent oracle (RFC 8439 vectors, and OpenSSL through
`cryptography`'s own ChaCha20Poly1305 called directly, not through aiohomekit) decides whether a disagreement is
the implementation's fault.  Used by C05, C06 and C18 (`run(ctx)` returns an info dict and a list of violations).
"""
import re
from common import coq_eval, rng, violation, hx

SIZES = [0, 1, 15, 16, 17, 31, 32, 33, 63, 64, 65, 127, 128, 129, 255, 256, 257]
AADS = [0, 2, 6, 16, 17]


def _cb(b) -> str:
    return "[" + ";".join(str(x) for x in bytes(b)) + "]"


def _gen_cases(ctx, scale):
    r = rng(ctx["seed"], "aeadtie")
    thorough = ctx["tier"] == "thorough" and scale == "full"
    cases = []
    # RFC 8439 2.8.2
    key = bytes(range(0x80, 0xA0))
    nonce = bytes.fromhex("070000004041424344454647")
    aad = bytes.fromhex("50515253c0c1c2c3c4c5c6c7")
    pt = (b"Ladies and Gentlemen of the class of '99: If I could offer you only one tip for the future, "
          b"sunscreen would be it.")
    cases.append(dict(kind="rfc8439-2.8.2", key=key, nonce=nonce, aad=aad, pt=pt))
    if scale == "mini":
        sizes = [0, 1, 16, 63, 64, 65]
    else:
        sizes = list(SIZES) + ([511, 512, 1023, 1024, 1025] if thorough else [1024])
    for n in sizes:
        reps = 2 if thorough else 1
        for _ in range(reps):
            cases.append(dict(kind="random", key=r.randbytes(32), nonce=b"\0\0\0\0" + r.randbytes(8),
                              aad=r.randbytes(r.choice(AADS)), pt=r.randbytes(n)))
    # structured keys / nonces (all-zero, all-0xff: carries in add32 and in the Poly1305 accumulator)
    for k in (b"\0" * 32, b"\xff" * 32):
        for nn in (b"\0" * 12, b"\xff" * 12):
            cases.append(dict(kind="extreme", key=k, nonce=nn, aad=b"\xff" * 16, pt=b"\xff" * 33))
    extra = 40 if thorough else (8 if scale == "full" else 2)
    for _ in range(extra):
        cases.append(dict(kind="random", key=r.randbytes(32), nonce=r.randbytes(12),
                          aad=r.randbytes(r.randrange(0, 40)), pt=r.randbytes(r.randrange(0, 200))))
    return cases, r


def _impl(case, r):
    """Run the real classes; returns the probes (list of dicts with the implementation's answers)."""
    from aiohomekit.crypto.chacha20poly1305 import (ChaCha20Poly1305Encryptor, ChaCha20Poly1305Decryptor,
                                                      ChaCha20Poly1305PartialTag, DecryptionError)
    key, nonce, aad, pt = case["key"], case["nonce"], case["aad"], case["pt"]
    box = ChaCha20Poly1305Encryptor(key).encrypt(aad, nonce, pt)
    probes = [dict(op="seal", out=bytes(box))]

    def full(b, a=aad, n=nonce):
        try:
            return ("some", bytes(ChaCha20Poly1305Decryptor(key).decrypt(a, n, bytes(b))))
        except DecryptionError:
            return ("none", b"")

    def part(b, a=aad, n=nonce):
        try:
            res = ChaCha20Poly1305PartialTag(key).open(n, bytes(b), a)
        except ValueError:
            return ("badnonce", b"")
        if res is None:
            return ("none", b"")
        return ("some", bytes(res))

    boxes = [("true", box)]
    if len(box) > 0:
        i = r.randrange(len(box))
        flipped = bytearray(box); flipped[i] ^= 1 << r.randrange(8)
        boxes.append(("flip", bytes(flipped)))
        lasttag = bytearray(box); lasttag[-1] ^= 0x80
        boxes.append(("fliptag", bytes(lasttag)))
    boxes.append(("trunc", box[:r.randrange(0, 16)]))
    boxes.append(("shorter", box[:-1]))
    for name, b in boxes:
        kind, out = full(b)
        probes.append(dict(op="open", name=name, box=bytes(b), aad=aad, nonce=nonce, res=kind, out=out))
    kind, out = full(box, a=aad + b"\0")
    probes.append(dict(op="open", name="aad+0", box=bytes(box), aad=aad + b"\0", nonce=nonce, res=kind, out=out))
    # partial tag: ciphertext ++ first 4 tag bytes
    pbox = box[:-12]
    pboxes = [("true", pbox), ("fulltag", box), ("empty", b""), ("short1", box[-16:-15]), ("short3", box[-16:-13]),
              ("rand2", r.randbytes(2))]
    if len(pt) == 0:
        pboxes.append(("tagprefix2", box[:2]))      # box == tag of the empty ciphertext: a 2-byte prefix of it
    if len(pbox) > 0:
        f = bytearray(pbox); f[r.randrange(len(pbox))] ^= 1 << r.randrange(8)
        pboxes.append(("flip", bytes(f)))
    for name, b in pboxes:
        kind, out = part(b)
        probes.append(dict(op="popen", name=name, box=bytes(b), aad=aad, nonce=nonce, res=kind, out=out))
    for n2 in (nonce[:11], nonce + b"\0"):
        kind, out = part(pbox, n=n2)
        probes.append(dict(op="popen", name="nonce%d" % len(n2), box=bytes(pbox), aad=aad, nonce=n2, res=kind, out=out))
    return probes


def _oracle(case, probe):
    """Independent recomputation with `cryptography` called directly; returns the expected (res, out)."""
    from cryptography.hazmat.primitives.ciphers.aead import ChaCha20Poly1305
    from cryptography.exceptions import InvalidTag
    c = ChaCha20Poly1305(case["key"])
    if probe["op"] == "seal":
        return ("some", c.encrypt(case["nonce"], case["pt"], case["aad"]))
    if probe["op"] == "open":
        try:
            return ("some", c.decrypt(probe["nonce"], probe["box"], probe["aad"]))
        except InvalidTag:
            return ("none", b"")
    # partial: RFC semantics of the real code = tag(ct).startswith(box[-4:]) with ct = box[:-4]
    if len(probe["nonce"]) != 12:
        return ("badnonce", b"")
    b = probe["box"]
    ct, exp = b[:-4], b[-4:]
    full = c.encrypt(probe["nonce"], b"\0" * len(ct), probe["aad"])       # keystream for ct
    ks = full[:len(ct)]
    pt = bytes(x ^ y for x, y in zip(ct, ks))
    tag = c.encrypt(probe["nonce"], pt, probe["aad"])[-16:]
    return ("some", pt) if tag.startswith(exp) else ("none", b"")


def run(ctx, scale="full"):
    """Returns (info, violations).  scale: "full" (C05) or "mini" (a short stream for the other users of the cipher)."""
    cases, r = _gen_cases(ctx, scale)
    head = ["From Coq Require Import List NArith Bool.", "From AHK Require Import Lib.ByteStr Model.ChaChaPoly.",
            "Import ListNotations.", "Local Open Scope N_scope.",
            "Definition eqb_b := beq_bytes.",
            "Definition chk_seal k n a p (out : bytes) : N := if eqb_b (cp_seal k n a p) out then 1 else 0.",
            "Definition chk_open k n a box (some : bool) (out : bytes) : N := match cp_open k n a box with "
            "| Some p => if some && eqb_b p out then 1 else 0 | None => if some then 0 else 1 end.",
            "Definition chk_popen k n a box (code : N) (out : bytes) : N := match cp_open_partial k n a box with "
            "| PBadNonce => if N.eqb code 2 then 1 else 0 | PReject => if N.eqb code 0 then 1 else 0 "
            "| PPlain p => if N.eqb code 1 && eqb_b p out then 1 else 0 end."]
    flat = []
    hist = {}
    body = []
    for ci, case in enumerate(cases):
        probes = _impl(case, r)
        k = _cb(case["key"])
        for p in probes:
            flat.append((ci, p))
            hist[p["op"] + ":" + p.get("name", "") + ":" + p.get("res", "")] = hist.get(p["op"] + ":" + p.get("name", "") + ":" + p.get("res", ""), 0) + 1
            if p["op"] == "seal":
                body.append(f"Eval vm_compute in chk_seal {k} {_cb(case['nonce'])} {_cb(case['aad'])} {_cb(case['pt'])} {_cb(p['out'])}.")
            elif p["op"] == "open":
                body.append(f"Eval vm_compute in chk_open {k} {_cb(p['nonce'])} {_cb(p['aad'])} {_cb(p['box'])} "
                            f"{'true' if p['res'] == 'some' else 'false'} {_cb(p['out'])}.")
            else:
                code = {"none": 0, "some": 1, "badnonce": 2}[p["res"]]
                body.append(f"Eval vm_compute in chk_popen {k} {_cb(p['nonce'])} {_cb(p['aad'])} {_cb(p['box'])} {code} {_cb(p['out'])}.")
    # evaluate in parallel shards (one generated file each)
    import concurrent.futures
    nsh = 6 if len(body) > 120 else 1
    per = (len(body) + nsh - 1) // nsh
    shards = [body[i:i + per] for i in range(0, len(body), per)]

    def ev(i):
        return coq_eval(ctx["verif"], ctx["pid"], f"aeadtie{i}", "\n".join(head + shards[i]) + "\n", timeout=600)
    with concurrent.futures.ThreadPoolExecutor(len(shards)) as ex:
        outs = list(ex.map(ev, range(len(shards))))
    codes = [int(x) for o in outs for x in re.findall(r"=\s*(\d+)\s*:\s*N", o)]
    viols = []
    if len(codes) != len(flat):
        viols.append(violation("aead:model-eval-failed", f"vm_compute returned {len(codes)} answers for {len(flat)} probes",
                               False, broken="correspondence Model/ChaChaPoly.v vs aiohomekit/crypto/chacha20poly1305.py"))
        return dict(probes=len(flat), cases=len(cases), disagreements=None), viols
    bad = [(ci, p) for (ci, p), c in zip(flat, codes) if c != 1]
    concrete = 0
    for ci, p in bad[:6]:
        case = cases[ci]
        exp = _oracle(case, p)
        got = (p.get("res", "some"), p["out"])
        payload = dict(op=p["op"], name=p.get("name"), cipher_key=hx(case["key"]), nonce=hx(p.get("nonce", case["nonce"])),
                       aad=hx(p.get("aad", case["aad"])), pt=hx(case["pt"]), box=hx(p.get("box", b"")),
                       impl=[got[0], hx(got[1])], reference=[exp[0], hx(exp[1])])
        if exp != got:
            concrete += 1
            viols.append(violation(f"aead:{p['op']}:{p.get('name', 'seal')}:differs-from-rfc8439",
                                   "aiohomekit.crypto.chacha20poly1305 disagrees with RFC 8439 ChaCha20-Poly1305 "
                                   "(model and an independent OpenSSL computation agree with each other)", True, **payload))
        else:
            viols.append(violation(f"aead:{p['op']}:{p.get('name', 'seal')}:model-mismatch",
                                   "Model/ChaChaPoly.v disagrees with the implementation and the reference", False,
                                   broken="correspondence Model/ChaChaPoly.v (cp_seal/cp_open/cp_open_partial)", **payload))
    info = dict(scale=scale, cases=len(cases), probes=len(flat), disagreements=len(bad), probe_kinds=hist,
                sizes=sorted({len(c["pt"]) for c in cases}),
                note="model evaluated by vm_compute inside Coq; compared in Gallina with the implementation's answers")
    return info, viols
