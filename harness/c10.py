"""C10 correspondence: real IpPairing/SecureHomeKitConnection on the virtual loop vs Model/Reconnect.v."""
from common import rng
import c10core as core


def gens(tier, seed):
    r = rng(seed, "c10")
    depth = 2 if tier == "quick" else 3
    scs = core.gen_exhaustive(depth, [1, 2] if tier == "quick" else [1, 2, 3])
    scs += core.gen_postverify()
    scs += core.gen_shutdown_overlap()
    scs += core.gen_same_tick_pairs()
    scs += core.gen_inflight(full=(tier != "quick"))
    scs += core.gen_scripted_loss()
    scs += core.gen_badreply()
    scs += core.gen_listeners()
    scs += core.gen_rstlate()
    scs += core.gen_pollers()
    scs += core.gen_random(r, 1500 if tier == "quick" else 30000)
    scs += core.gen_long(r, 30 if tier == "quick" else 400)
    scs += core.gen_stale_loss(r, 100 if tier == "quick" else 1000)
    return scs


def run(ctx):
    return core.run_core(ctx, "C10", core.oracle_c10, gens, "correspondence Model/Reconnect.v <-> controller/ip/connection.py (attempt trace)")
