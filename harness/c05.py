"""C05 correspondence: the real SecureHomeKitProtocol (aiohomekit/controller/ip/connection.py)
on an in-memory transport with real ChaCha20-Poly1305 keys  vs  Model/Frame.v (extracted).

Streams
  send   sessions of requests through the real `send_bytes`.  The model emits symbolic frames
         (prefix, nonce, counter, aad, chunk); the harness seals them with the reference cipher
         (harness/ref/hapframe.py, `cryptography` called directly) and the bytes must equal what
         the implementation wrote to the transport.  Oracle: the reference accessory (rejects
         frames > 1024) must decrypt the written bytes to exactly the payload.  Each request is
         answered by the reference accessory with a sealed HTTP response cut into frames and
         reads at random; the HttpResponse the request future resolves to must carry the body
         (end-to-end observation at the request future).
  pipe   k = 2..4 `send_bytes` calls in flight on one protocol (started back-to-back as tasks, responses withheld
         and then delivered in order; also with a response between the 2nd and 3rd send, and random schedules).
         Expected wire bytes = the model's `send` applied sequentially with the counter threaded through; oracle:
         the strict reference accessory decrypts the concatenation of everything written to the concatenated
         requests (a frame sealed under an already used counter is reported as `send:pipelined-nonce-reuse`).
  sess   ONE live protocol object, everything interleaved: EVENT messages and responses spread over several
         frames and reads, requests issued at arbitrary read boundaries (in particular while a message is only
         partly received; exhaustively: an event split at every byte with a request between its two reads),
         cancellation of an in-flight request, pause_writing()/resume_writing() from the transport around
         requests.  Model: Frame.v `sess_step` (theorems session_inbound_independent /
         session_outbound_sequential); oracle: the strict reference accessory must decrypt everything written,
         every live un-cancelled request must have been emitted, events / responses must be exactly those sent.
  recv   the reference accessory seals plaintext frames; optional single-bit flip in a length
         prefix / ciphertext / tag (or truncation, replay, reordering); the stream is cut into
         reads (every single and double cut of small streams, random multi-cut of large ones).
         The model's `open` is the finite table of exactly the sealed (nonce, aad, ciphertext)
         -> plaintext entries.  Compared per read: plaintext handed to the HTTP layer, and
         whether the session has ended.  Oracle: the reference receiver on the unsegmented stream.
  event  EVENT messages with binary bodies through the real HTTP layer, observed at
         connection.event_received.

"Ends the session": asyncio's selector transport calls `_fatal_error` -> `_force_close` when
`protocol.data_received` raises (checked against CPython 3.12 selector_events.py): the reader
is removed (no further data_received) and connection_lost(exc) is delivered.  `Link` below
emulates exactly that contract.
"""
from __future__ import annotations

import asyncio
import logging
import struct

from common import Coverage, Driver, hx, rng, unhx, violation
from ref import hapframe as ref

CTR_MAX = 1 << 64


# ---------------------------------------------------------------- in-memory transport
class Link:
    """Transport handed to the protocol + the reading side of asyncio's _SelectorSocketTransport."""

    def __init__(self):
        self.proto = None
        self.writes = []          # one entry per write()/writelines() call: joined bytes
        self.closing = False
        self.conn_lost = 0
        self.eof_written = False
        self.fatal = None         # class name of the exception that left data_received
        self.lost_args = []       # what connection_lost was called with (exception class name / None)
        self.reading = True
        self.stalled = False      # (Wire only: the accessory is not reading) - kept for a uniform interface
        self.max_buffered = 0

    # transport API used by the protocol
    def is_closing(self):
        return self.closing

    def writelines(self, lines):
        if self.eof_written:
            raise RuntimeError("Cannot call writelines() after write_eof()")
        self.writes.append(b"".join(bytes(x) for x in lines))

    def write(self, data):
        if self.eof_written:
            raise RuntimeError("Cannot call write() after write_eof()")
        self.writes.append(bytes(data))

    def write_eof(self):
        self.eof_written = True

    def can_write_eof(self):
        return True

    def get_extra_info(self, name, default=None):
        return default

    # the rest of asyncio.Transport, so that code which uses it behaves as on a real transport instead of dying
    # with an AttributeError (which, inside data_received, would look like the fatal-error teardown)
    UNKNOWN = set()

    def __getattr__(self, item):
        if not (item.startswith("__") and item.endswith("__")):
            Link.UNKNOWN.add(item)
        raise AttributeError(item)

    def pause_reading(self):
        self.reading = False

    def resume_reading(self):
        self.reading = True

    def is_reading(self):
        return self.reading and not self.closing

    def get_write_buffer_size(self):
        return 0

    def get_write_buffer_limits(self):
        return (16384, 65536)

    def set_write_buffer_limits(self, high=None, low=None):
        pass

    def set_protocol(self, protocol):
        self.proto = protocol

    def get_protocol(self):
        return self.proto

    # backend interface shared with Wire (the real asyncio transport)
    def written(self):
        return b"".join(self.writes)

    async def settle(self):
        await asyncio.sleep(0)

    async def drain_all(self):
        pass

    def peer_close(self):
        """the accessory closes the connection: eof_received(); a falsy result closes the transport"""
        if self.conn_lost or self.closing:
            return
        keep = self.proto.eof_received()
        if not keep:
            self.close()

    def shutdown(self):
        pass

    peer_saw_close = None

    def close(self):
        if self.closing:
            return
        self.closing = True
        self._lost(None)

    def abort(self):
        self._force_close(None)

    # reading side
    def _lost(self, exc):
        self.conn_lost += 1
        self.lost_args.append(type(exc).__name__ if exc is not None else None)
        try:
            self.proto.connection_lost(exc)
        except Exception:  # noqa  - connection_lost errors are logged by the loop, not re-raised
            pass

    def _force_close(self, exc):
        if self.conn_lost:
            return
        self.closing = True
        self._lost(exc)

    def deliver(self, data: bytes):
        """_read_ready__data_received: returns False when the read is not delivered any more."""
        if self.conn_lost or self.closing or not self.reading:
            return False
        try:
            self.proto.data_received(data)
        except (SystemExit, KeyboardInterrupt):
            raise
        except BaseException as exc:  # noqa
            self.fatal = type(exc).__name__
            self._force_close(exc)
        return True

    @property
    def ended(self):
        """the session is over: transport closing/closed AND connection_lost delivered to the protocol"""
        return bool(self.closing and self.conn_lost)

    @property
    def end_mode(self):
        if not self.ended:
            return "open"
        return ("fatal:" + self.fatal) if self.fatal else "closed-by-protocol"


class FakeConnection:
    """Stands in for HomeKitConnection.  It offers the attributes the real class has, so that code in the
    protocol that merely *uses* the connection (e.g. logs `self.connection.name`) behaves as in production;
    any attribute it does not know is recorded in UNKNOWN and reported by run() - otherwise the resulting
    AttributeError would leave data_received and be mistaken for the fatal-error teardown."""

    UNKNOWN = set()
    name = "c05-accessory"
    owner = None
    hosts = ["127.0.0.1"]
    port = 51826
    is_secure = True
    is_connected = True
    closing = False
    closed = False
    connected_host = "127.0.0.1"
    host_header = "Host: 127.0.0.1"

    def __init__(self):
        self.lost = []
        self.events = []
        self.transport = None
        self.protocol = None

    def __getattr__(self, item):
        if not (item.startswith("__") and item.endswith("__")):
            FakeConnection.UNKNOWN.add(item)
        raise AttributeError(item)

    def _connection_lost(self, exc=None, *args, **kwargs):
        self.lost.append(type(exc).__name__ if exc is not None else None)

    def event_received(self, resp, *args, **kwargs):
        self.events.append(resp)


class Recorder:
    """Stands in for the HttpResponse under construction: records what the secure layer hands over."""

    def __init__(self):
        self.parts = []

    def parse(self, data):
        self.parts.append(bytes(data))
        return b""

    def is_read_completely(self):
        return False


class Wire:
    """The REAL asyncio transport (_SelectorSocketTransport of the running loop) over a socketpair; the accessory is
    the raw socket at the other end.  Nothing of asyncio's contract is emulated here: fatal-error teardown, close(),
    write buffering, pause_writing()/resume_writing() and eof_received() are the event loop's own."""

    def __init__(self, transport, asock, conn):
        self.transport, self.asock, self.conn = transport, asock, conn
        self.rx = b""
        self.out = b""                # accessory bytes not yet accepted by its (non-blocking) socket
        self.stalled = False          # the accessory is not reading
        self.peer_saw_close = False
        self.max_buffered = 0

    def written(self):
        if not self.stalled and self.asock is not None:
            while True:
                try:
                    d = self.asock.recv(1 << 20)
                except (BlockingIOError, InterruptedError):
                    break
                except OSError:
                    self.peer_saw_close = True
                    break
                if not d:
                    self.peer_saw_close = True
                    break
                self.rx += d
        return self.rx

    def _flush(self):
        while self.out:
            try:
                n = self.asock.send(self.out)
            except (BlockingIOError, InterruptedError):
                return
            except OSError:
                self.out = b""
                return
            self.out = self.out[n:]

    def deliver(self, data):
        self.out += data
        self._flush()
        return True

    async def settle(self):
        for _ in range(4):
            await asyncio.sleep(0)
        for _ in range(400):                 # a read larger than the socket buffer goes out in pieces
            if not self.out:
                break
            self._flush()
            await asyncio.sleep(0)
        try:
            self.max_buffered = max(self.max_buffered, self.transport.get_write_buffer_size())
        except Exception:  # noqa
            pass

    async def drain_all(self):
        """the accessory reads until the controller's transport has nothing buffered any more"""
        for _ in range(2000):
            n = len(self.rx)
            self.written()
            await self.settle()
            try:
                pending = self.transport.get_write_buffer_size()
            except Exception:  # noqa
                pending = 0
            if len(self.rx) == n and (pending == 0 or self.transport.is_closing()):
                break

    def peer_close(self):
        try:
            self.asock.shutdown(2)
        except OSError:
            pass

    @property
    def ended(self):
        return bool(self.transport.is_closing() and self.conn.lost)

    @property
    def end_mode(self):
        if not self.ended:
            return "open"
        return ("fatal:" + self.conn.lost[-1]) if self.conn.lost[-1] else "closed-by-protocol"

    def shutdown(self):
        try:
            self.transport.abort()
        except Exception:  # noqa
            pass
        try:
            self.asock.close()
        except OSError:
            pass


async def make_wire(a2c_key, c2a_key, a2c_ctr=0, c2a_ctr=0, sndbuf=None):
    """the production construction path: create_connection(InsecureHomeKitProtocol, sock=...), then the switch to
    SecureHomeKitProtocol via transport.set_protocol + connection_made (HomeKitConnection._connect_once)"""
    import socket
    from aiohomekit.controller.ip.connection import InsecureHomeKitProtocol, SecureHomeKitProtocol
    loop = asyncio.get_running_loop()
    csock, asock = socket.socketpair()
    csock.setblocking(False)
    asock.setblocking(False)
    if sndbuf:
        csock.setsockopt(socket.SOL_SOCKET, socket.SO_SNDBUF, sndbuf)
    conn = FakeConnection()
    transport, _ = await loop.create_connection(lambda: InsecureHomeKitProtocol(conn), sock=csock)
    proto = SecureHomeKitProtocol(conn, a2c_key, c2a_key)
    transport.set_protocol(proto)
    proto.connection_made(transport)
    conn.transport, conn.protocol = transport, proto
    proto.a2c_counter = a2c_ctr
    proto.c2a_counter = c2a_ctr
    return proto, Wire(transport, asock, conn), conn


def make_proto(a2c_key, c2a_key, a2c_ctr=0, c2a_ctr=0, record=False):
    from aiohomekit.controller.ip.connection import SecureHomeKitProtocol
    conn = FakeConnection()
    proto = SecureHomeKitProtocol(conn, a2c_key, c2a_key)
    link = Link()
    link.proto = proto
    conn.transport, conn.protocol = link, proto
    proto.connection_made(link)
    proto.a2c_counter = a2c_ctr
    proto.c2a_counter = c2a_ctr
    rec = None
    if record:
        rec = Recorder()
        proto.current_response = rec
    return proto, link, conn, rec


# ---------------------------------------------------------------- helpers
def cut(stream: bytes, cuts):
    pts = [0] + sorted(cuts) + [len(stream)]
    return [stream[a:b] for a, b in zip(pts, pts[1:])]


def rbytes(r, n):
    return r.getrandbits(8 * n).to_bytes(n, "little") if n else b""


def key_of(r):
    return rbytes(r, 32)


def _spell(name: bytes, sp: int) -> bytes:
    """field names are case-insensitive (RFC 7230): 0 = Title-Case, 1 = lower, 2 = UPPER"""
    return name if sp == 0 else (name.lower() if sp == 1 else name.upper())


def http_response(body: bytes, code=200, sp=0):
    if not body:
        return b"HTTP/1.1 204 No Content\r\n\r\n"
    return (b"HTTP/1.1 %d OK\r\n%s: application/hap+json\r\n%s: %d\r\n\r\n"
            % (code, _spell(b"Content-Type", sp), _spell(b"Content-Length", sp), len(body))) + body


def http_event(body: bytes, sp=0):
    return (b"EVENT/1.0 200 OK\r\n%s: application/hap+json\r\n%s: %d\r\n\r\n"
            % (_spell(b"Content-Type", sp), _spell(b"Content-Length", sp), len(body))) + body


def random_cuts(r, n, style=None):
    if n <= 1:
        return []
    style = style or r.choice(["none", "one", "few", "many", "bytes"])
    if style == "none":
        return []
    if style == "one":
        return [r.randrange(1, n)]
    if style == "few":
        return sorted({r.randrange(1, n) for _ in range(r.randrange(2, 6))})
    if style == "many":
        return sorted({r.randrange(1, n) for _ in range(r.randrange(6, 40))})
    if n <= 400:
        return list(range(1, n))
    return sorted({r.randrange(1, n) for _ in range(60)})


# ---------------------------------------------------------------- send stream
SEND_LENS = [0, 1, 2, 1023, 1024, 1025, 2047, 2048, 2049, 3071, 3072, 3073, 4096, 5000]


def gen_send(tier, r):
    cases = []
    for n in SEND_LENS:
        cases.append(dict(ctr=0, payloads=[bytes((i * 7 + n) & 0xFF for i in range(n))]))
    for n in (1, 1024, 1025, 2049):                       # counters with every nonce byte in use / near 2^64
        cases.append(dict(ctr=0x0102030405060708, payloads=[rbytes(r, n)]))
        cases.append(dict(ctr=(1 << 32) - 1, payloads=[rbytes(r, n), rbytes(r, n)]))
    for start in (CTR_MAX - 1, CTR_MAX - 2, CTR_MAX - 3, CTR_MAX):
        for ns in ([1], [1024, 1], [1025], [2049], [0, 1, 1, 1], [1024, 1025], [3072, 1]):
            cases.append(dict(ctr=start, payloads=[rbytes(r, n) for n in ns]))
    n_rand = 250 if tier == "quick" else 3000
    for _ in range(n_rand):
        k = r.choice([1, 1, 2, 3, 5])
        pl = []
        for _ in range(k):
            m = r.random()
            if m < 0.5:
                n = r.choice(SEND_LENS)
            elif m < 0.8:
                n = r.randrange(0, 6000)
            else:
                n = max(0, 1024 * r.randrange(0, 6) + r.randrange(-2, 3))
            pl.append(rbytes(r, n))
        cases.append(dict(ctr=r.choice([0, 0, 0, 1, 255, 256, 65535, r.randrange(1 << 40)]), payloads=pl))
    for c in cases:
        c["a2c_key"], c["c2a_key"] = key_of(r), key_of(r)
        c["resp_bodies"] = [rbytes(r, r.choice([0, 1, 10, 1000, 1024, 1500, 2500])) for _ in c["payloads"]]
        c["seed"] = r.getrandbits(32)
    return cases


async def impl_send_session(case):
    """Returns per payload: ('ok', written bytes, n write calls, e2e verdict) or ('crash', ExcClass)."""
    import random
    rr = random.Random(case["seed"])
    proto, link, conn, _ = make_proto(case["a2c_key"], case["c2a_key"], 0, case["ctr"])
    actr = 0
    out = []
    for payload, body in zip(case["payloads"], case["resp_bodies"]):
        before = len(link.writes)
        task = asyncio.ensure_future(proto.send_bytes(payload))
        await asyncio.sleep(0)
        if task.done():
            exc = task.exception()
            out.append(("crash", type(exc).__name__ if exc else "returned-without-response"))
            break
        calls = link.writes[before:]
        written = b"".join(calls)
        # the accessory answers; its frames are cut at random and the byte stream is read at random
        plain = http_response(body, sp=(case["seed"] + len(out)) % 3)
        frames = []
        while plain:
            n = rr.choice([1, 7, 500, 1024, 1024, 1024, rr.randrange(1, 1025)])
            frames.append(plain[:n])
            plain = plain[n:]
        stream = ref.seal_stream(case["a2c_key"], actr, frames)
        actr += len(frames)
        for seg in cut(stream, random_cuts(rr, len(stream))):
            link.deliver(seg)
        for _ in range(3):
            if task.done():
                break
            await asyncio.sleep(0)
        if not task.done():
            task.cancel()
            try:
                await task
            except BaseException:  # noqa
                pass
            out.append(("ok", written, len(calls), "no-response"))
            break
        try:
            resp = task.result()
            e2e = "ok" if (bytes(resp.body) == body and resp.code == (200 if body else 204)) else "wrong-response"
        except BaseException as e:  # noqa
            e2e = "exc:" + type(e).__name__
        out.append(("ok", written, len(calls), e2e))
        if link.ended:
            break
    return out


def model_send_bytes(ans, key):
    """model answer for one payload -> ('ok', bytes, ctr', frames) / ('crash',)"""
    t = ans.split(" ")
    if t[0] != "ok":
        return (t[0],)
    frames = []
    data = b""
    for tok in t[2:]:
        prefix, nonce, ctr, aad, chunk = tok.split(":")
        prefix, nonce, aad, chunk = unhx(prefix), unhx(nonce), unhx(aad), unhx(chunk)
        frames.append((prefix, nonce, int(ctr), aad, chunk))
        data += prefix + ref.seal(key, nonce, aad, chunk)
    return ("ok", data, int(t[1]), frames)


def oracle_send(case, idx, ctr_before, written):
    """Does a conformant accessory decrypt `written` to exactly the payload?  None = yes."""
    payload = case["payloads"][idx]
    rx = ref.RefReceiver(case["c2a_key"], ctr_before, max_frame=1024)
    rx.feed(written)
    got = b"".join(rx.delivered)
    if rx.dead and rx.why == "frame-too-big":
        return ("frame-over-1024", "a frame carries more than 1024 plaintext bytes")
    if rx.dead:
        return ("not-authentic", f"reference accessory fails to authenticate frame {len(rx.delivered)} (counter {rx.ctr})")
    if rx.buf:
        return ("trailing-bytes", f"{len(rx.buf)} bytes after the last complete frame")
    if got != payload:
        return ("wrong-plaintext", f"reference accessory decrypts {len(got)} bytes != the {len(payload)}-byte request")
    want = (len(payload) + 1023) // 1024
    if len(rx.delivered) != want:
        return ("frame-count", f"{len(rx.delivered)} frames, expected ceil(len/1024) = {want}")
    return None


# ---------------------------------------------------------------- pipelined send stream
PIPE_LENS = [1, 2, 1023, 1024, 1025, 2047, 2048, 2049, 3072, 3073]


def pipe_schedules(k, r, extra):
    """'S' = start the next send_bytes (as a task), 'R' = the accessory answers the oldest unanswered request.
    Always: all requests first, then the responses in order; for k >= 3 a response between the 2nd and 3rd send."""
    out = ["S" * k + "R" * k]
    if k >= 3:
        out.append("SSR" + "S" * (k - 2) + "R" * (k - 1))
    for _ in range(extra):
        sch, s_, r_ = "", 0, 0
        while r_ < k:
            if s_ < k and (r_ == s_ or r.random() < 0.6):
                sch += "S"
                s_ += 1
            else:
                sch += "R"
                r_ += 1
        if sch not in out and "SS" in sch:
            out.append(sch)
    return out


def gen_pipe(tier, r):
    cases = []
    quick = tier == "quick"
    for a in PIPE_LENS if not quick else [1, 1023, 1024, 1025, 2049]:
        for b in PIPE_LENS if not quick else [1, 1024, 1025, 2048]:
            cases.append(dict(ctr=0, lens=[a, b], schedule="SSRR"))
    for k in (2, 3, 4):
        for _ in range(40 if quick else 600):
            lens = [r.choice(PIPE_LENS + [r.randrange(1, 5000)]) for _ in range(k)]
            ctr = r.choice([0, 0, 0, 1, 255, 65535, (1 << 32) - 1, r.randrange(1 << 40), 0x0102030405060708])
            for sch in pipe_schedules(k, r, 1):
                cases.append(dict(ctr=ctr, lens=lens, schedule=sch))
    for c in cases:
        c["payloads"] = [rbytes(r, n) for n in c["lens"]]
        c["resp_bodies"] = [bytes([i + 1]) * (i + 1) + rbytes(r, r.choice([0, 5, 1000, 1500])) for i in range(len(c["lens"]))]
        c["a2c_key"], c["c2a_key"] = key_of(r), key_of(r)
        c["seed"] = r.getrandbits(32)
    return cases


async def impl_pipe(case):
    """-> dict(writes=[bytes per request or None], status=[...], e2e=[...], ended=bool)"""
    import random
    rr = random.Random(case["seed"])
    proto, link, conn, _ = make_proto(case["a2c_key"], case["c2a_key"], 0, case["ctr"])
    k = len(case["payloads"])
    tasks, writes, e2e = [], [], [None] * k
    actr, answered = 0, 0
    for op in case["schedule"]:
        if op == "S":
            i = len(tasks)
            before = len(link.writes)
            try:
                t = asyncio.ensure_future(proto.send_bytes(case["payloads"][i]))
                await asyncio.sleep(0)
            except BaseException as e:  # noqa
                writes.append(None)
                tasks.append(None)
                continue
            tasks.append(t)
            if t.done() and not t.cancelled() and t.exception() is not None:
                writes.append(None)
                e2e[i] = "raised:" + type(t.exception()).__name__
            else:
                writes.append(b"".join(link.writes[before:]))
        else:
            i = answered
            answered += 1
            plain = http_response(case["resp_bodies"][i], sp=(case["seed"] + i) % 3)
            frames = []
            while plain:
                n = rr.choice([1, 500, 1024, 1024, rr.randrange(1, 1025)])
                frames.append(plain[:n])
                plain = plain[n:]
            stream = ref.seal_stream(case["a2c_key"], actr, frames)
            actr += len(frames)
            for seg in cut(stream, random_cuts(rr, len(stream))):
                link.deliver(seg)
            t = tasks[i] if i < len(tasks) else None
            if t is None or e2e[i] is not None:
                continue
            for _ in range(3):
                if t.done():
                    break
                await asyncio.sleep(0)
            if not t.done():
                e2e[i] = "no-response"
            else:
                try:
                    resp = t.result()
                    e2e[i] = "ok" if bytes(resp.body) == case["resp_bodies"][i] else "wrong-response"
                except BaseException as e:  # noqa
                    e2e[i] = "exc:" + type(e).__name__
    for t in tasks:
        if t is not None and not t.done():
            t.cancel()
            try:
                await t
            except BaseException:  # noqa
                pass
    return dict(writes=writes, e2e=e2e, ended=link.ended)


def oracle_pipe(case, writes):
    """strict reference accessory on everything written, in write order, from the session's start counter"""
    if any(w is None for w in writes):
        return ("pipelined-raises", "send_bytes raised although all counters are far below 2^64")
    rx = ref.RefReceiver(case["c2a_key"], case["ctr"], max_frame=1024)
    stream = b"".join(writes)
    rx.feed(stream)
    want = b"".join(case["payloads"])
    if rx.dead and rx.why == "auth":
        # is the rejected frame sealed under a counter this session has already used?
        hdr, body = rx.bad_frame
        for old in range(case["ctr"], rx.ctr):
            if ref.open_(case["c2a_key"], ref.nonce(old), hdr, body) is not None:
                done = len(b"".join(rx.delivered))
                return ("pipelined-nonce-reuse",
                        f"requests {case['lens']} in flight together (schedule {case['schedule']}, start counter {case['ctr']}): frame "
                        f"{len(rx.delivered)} is sealed with counter {old}, already used on this session, instead of {rx.ctr}; the "
                        f"accessory rejects it after {done} of {len(want)} request bytes")
        return ("pipelined-not-authentic", f"reference accessory fails to authenticate frame {len(rx.delivered)} (counter {rx.ctr})")
    if rx.dead:
        return ("pipelined-" + rx.why, "reference accessory rejects the stream")
    if rx.buf or b"".join(rx.delivered) != want:
        return ("pipelined-wrong-plaintext", f"reference accessory decrypts {len(b''.join(rx.delivered))} bytes, requests total {len(want)}")
    return None


# ---------------------------------------------------------------- recv stream
def build_recv(key, ctr, frames, mutation=None):
    """-> (stream bytes, table entries, description)"""
    # an accessory whose counter wrapped would seal with ctr mod 2^64; the controller can never accept those
    sealed = [ref.seal_frame(key, (ctr + i) % CTR_MAX, p) for i, p in enumerate(frames)]
    table = []
    for i, (p, f) in enumerate(zip(frames, sealed)):
        if ctr + i < CTR_MAX:
            table.append((ref.nonce(ctr + i), f[:2], f[2:], p))
    stream = b"".join(sealed)
    return stream, table


def mutate(r, stream, frames, kind):
    """single-bit flips addressed by region of a chosen frame; plus truncation / replay / swap"""
    offs = []
    o = 0
    for p in frames:
        offs.append(o)
        o += 2 + len(p) + 16
    if kind in ("prefix", "ct", "tag"):
        cands = [i for i, p in enumerate(frames) if kind != "ct" or len(p) > 0]
        if not cands:
            kind = "tag"
            cands = list(range(len(frames)))
        i = r.choice(cands)
        n = len(frames[i])
        if kind == "prefix":
            pos = offs[i] + r.randrange(2)
        elif kind == "ct":
            pos = offs[i] + 2 + r.randrange(n)
        else:
            pos = offs[i] + 2 + n + r.randrange(16)
        b = bytearray(stream)
        b[pos] ^= 1 << r.randrange(8)
        return bytes(b), f"{kind}-flip@{pos}"
    if kind == "truncate":
        return stream[: r.randrange(len(stream))], "truncate"
    i = r.randrange(len(frames))
    a, b = offs[i], offs[i] + 2 + len(frames[i]) + 16
    if kind == "replay":
        return stream[:b] + stream[a:b] + stream[b:], "replay"
    if kind == "drop":
        return stream[:a] + stream[b:], "drop"
    return stream, "none"


SMALL_SETS = [[1, 2, 3], [0, 5, 1, 30], [84], [1, 1, 1, 1, 1, 1], [40, 0, 26], [2, 0], [100]]
FRAME_SIZES = [1, 1, 2, 15, 16, 17, 255, 256, 1023, 1024, 1024]


def gen_recv(tier, r):
    cases = []

    def add(frames, cuts, mutation=None, ctr=0, key=None, style="x"):
        cases.append(dict(frames=frames, cuts=cuts, mutation=mutation, ctr=ctr, key=key, style=style))

    # exhaustive: every single and double cut of small streams (<= 120 bytes)
    sets = SMALL_SETS[:4] if tier == "quick" else SMALL_SETS
    for sizes in sets:
        key = key_of(r)
        frames = [rbytes(r, n) for n in sizes]
        total = sum(2 + n + 16 for n in sizes)
        assert total <= 120
        add(frames, [], key=key, style="cut0")
        for i in range(0, total + 1):
            add(frames, [i], key=key, style="cut1")
        for i in range(0, total + 1):
            for j in range(i, total + 1):
                add(frames, [i, j], key=key, style="cut2")
    # every single-bit flip of a small stream, unsegmented and under random cuts
    for sizes in ([3, 0, 2], [1, 4]) if tier == "quick" else ([3, 0, 2], [1, 4], [30, 1], [0, 0, 1]):
        key = key_of(r)
        frames = [rbytes(r, n) for n in sizes]
        total = sum(2 + n + 16 for n in sizes)
        for pos in range(total):
            for bit in range(8):
                add(frames, [], mutation=("flip", pos, bit), key=key, style="flip-all")
                add(frames, sorted({r.randrange(1, total) for _ in range(r.choice([1, 2, 3]))}),
                    mutation=("flip", pos, bit), key=key, style="flip-all")
    # every frame size 1..1024 once (thorough) / a sample (quick), cut around the frame edges
    sizes_once = range(1, 1025) if tier != "quick" else list(range(1, 40)) + list(range(1000, 1025))
    for n in sizes_once:
        frames = [rbytes(r, n), rbytes(r, 1)]
        e = 2 + n + 16
        add(frames, sorted({1, 2, 3, e - 17, e - 16, e - 15, e - 1, e, e + 1, e + 2}), style="edge")
    # ONE network read carrying far more than a maximal frame (asyncio reads up to 256 KiB per recv: a large /accessories
    # answer, a burst that piled up): 64 KiB .. 256 KiB of valid frames in a single read, or next to a small one
    for total, shape in ([(70000, "one"), (131072, "small+big"), (262144, "one")] if tier == "quick" else
                         [(65553, "one"), (65554, "one"), (70000, "one"), (70000, "big+small"), (100000, "small+big"),
                          (131072, "one"), (200000, "halves"), (262144, "one"), (262144, "small+big")]):
        frames, got = [], 0
        while got < total:
            n = min(r.choice([1024, 1024, 1024, 1000, 517]), total - got - 18) if total - got > 18 + 1 else 1
            n = max(n, 1)
            frames.append(rbytes(r, n))
            got += 2 + n + 16
        size = sum(2 + len(f) + 16 for f in frames)
        cuts = {"one": [], "small+big": [r.randrange(1, 2000)], "big+small": [size - r.randrange(1, 2000)], "halves": [size // 2]}[shape]
        add(frames, cuts, style="big-read")
    # counter exhaustion on the receive side
    for start in (CTR_MAX - 2, CTR_MAX - 1, CTR_MAX):
        add([b"a", b"bc", b"def"], [5], ctr=start, style="ctr-limit")
    # random large streams
    n_rand = 1500 if tier == "quick" else 12000
    for _ in range(n_rand):
        k = r.choice([1, 2, 3, 4, 6, 10])
        frames = []
        for _ in range(k):
            m = r.random()
            if m < 0.6:
                n = r.choice(FRAME_SIZES)
            elif m < 0.9:
                n = r.randrange(1, 1025)
            elif m < 0.95:
                n = 0
            else:
                n = r.choice([1025, 2000, 4096, 65535] if tier != "quick" else [1025, 2000, 4096])
            frames.append(rbytes(r, n))
        m = r.random()
        mut = None
        if m < 0.40:
            mut = (r.choice(["prefix", "ct", "tag", "prefix", "ct", "tag", "truncate", "replay", "drop"]),)
        total = sum(2 + len(p) + 16 for p in frames)
        ctr = r.choice([0, 0, 0, 1, 255, (1 << 32) - 1, r.randrange(1 << 48), 0x0102030405060708])
        cases.append(dict(frames=frames, cuts=None, mutation=mut, ctr=ctr, key=None, style="random", seed=r.getrandbits(32)))
    # materialise
    out = []
    for c in cases:
        key = c["key"] or key_of(r)
        stream, table = build_recv(key, c["ctr"], c["frames"])
        mut = "none"
        if c["mutation"]:
            if c["mutation"][0] == "flip":
                _, pos, bit = c["mutation"]
                b = bytearray(stream)
                b[pos] ^= 1 << bit
                stream = bytes(b)
                o, region = 0, "?"
                for p in c["frames"]:
                    if pos < o + 2:
                        region = "prefix"
                        break
                    if pos < o + 2 + len(p):
                        region = "ct"
                        break
                    if pos < o + 2 + len(p) + 16:
                        region = "tag"
                        break
                    o += 2 + len(p) + 16
                mut = f"{region}-flip"
            else:
                stream, mut = mutate(r, stream, c["frames"], c["mutation"][0])
                mut = mut.split("@")[0]
        cuts = c["cuts"]
        if cuts is None:
            cuts = random_cuts(r, len(stream))
        cuts = [x for x in cuts if 0 <= x <= len(stream)]
        out.append(dict(key=key, ctr=c["ctr"], frames=c["frames"], stream=stream, table=table, mut=mut,
                        segs=cut(stream, cuts), style=c["style"]))
    return out


def recv_line(c):
    ents = [f"{hx(n)}:{hx(a)}:{hx(ct)}:{hx(pt)}" for n, a, ct, pt in c["table"]]
    return "feed %d - %d %s %s" % (c["ctr"], len(ents), " ".join(ents), " ".join(hx(s) for s in c["segs"]))


async def impl_recv(c):
    proto, link, conn, rec = make_proto(c["key"], b"\x00" * 32, c["ctr"], 0, record=True)
    toks = []
    for seg in c["segs"]:
        n0 = len(rec.parts)
        link.deliver(seg)
        got = b"".join(rec.parts[n0:])
        toks.append(("D" if link.ended else "L") + "/" + hx(got))
    return toks, dict(end=link.end_mode, connection_lost=list(link.lost_args), forwarded=list(conn.lost))


def model_recv_canon(ans):
    t = ans.split(" ")
    toks = []
    for tok in t[:-1]:
        st, o = tok.split("/")
        data = b"" if o == "." else b"".join(unhx(x) for x in o.split(","))
        toks.append(st + "/" + hx(data))
    return toks, t[-1]


def oracle_recv(c, toks, info):
    """reference receiver on the unsegmented stream vs what the implementation delivered in total, and the
    explicit observable "session ended": after a frame that fails to open the transport must be
    closing/closed and connection_lost delivered to the protocol by the end of the very read that completes
    that frame (reference receiver under the same reads tells which); without a failure the session must
    stay alive."""
    rx = ref.RefReceiver(c["key"], c["ctr"])
    rx.feed(c["stream"])
    want = b"".join(rx.delivered)
    got = b"".join(unhx(t.split("/")[1]) for t in toks)
    ended = bool(toks) and toks[-1].startswith("D")
    clean = c["mut"] == "none" and c["ctr"] + len(c["frames"]) <= CTR_MAX
    if got != want:
        if clean:
            return ("clean-stream-misdecoded",
                    f"uncorrupted stream of frames {[len(p) for p in c['frames']]} read as {[len(s) for s in c['segs']][:12]}: "
                    f"delivered {len(got)} bytes, sent {len(want)}")
        if len(got) > len(want) or got != want[:len(got)]:
            return ("unauthentic-data-delivered", f"{c['mut']}: delivered bytes that the reference receiver rejects")
        return ("authentic-data-lost", f"{c['mut']}: delivered {len(got)} of the {len(want)} authentic bytes preceding the bad frame")
    if rx.dead:
        rs = ref.RefReceiver(c["key"], c["ctr"])
        dead_at = None
        for i, seg in enumerate(c["segs"]):
            rs.feed(seg)
            if rs.dead:
                dead_at = i
                break
        if not ended or info["end"] == "open":
            return ("auth-failure-session-not-ended",
                    f"{c['mut']}: frame {len(rx.delivered)} failed authentication ({rx.why}) but the session goes on: transport "
                    f"not closing, connection_lost not delivered (end state: {info['end']})")
        if dead_at is not None and not toks[dead_at].startswith("D"):
            return ("auth-failure-session-not-ended",
                    f"{c['mut']}: frame {len(rx.delivered)} failed authentication in read {dead_at} but the session was still open "
                    f"after that read")
        if not info["connection_lost"]:
            return ("auth-failure-session-not-ended", f"{c['mut']}: transport closing but connection_lost never delivered")
    else:
        if ended or info["end"] != "open" or info["connection_lost"] or info["forwarded"]:
            return ("session-ended-without-cause",
                    f"{c['mut']}: every complete frame was authentic, yet the session ended ({info['end']}, "
                    f"connection_lost={info['connection_lost']})")
    return None


# ---------------------------------------------------------------- event stream (through the HTTP layer)
def gen_event(tier, r):
    cases = []
    for _ in range(150 if tier == "quick" else 3000):
        bodies = [rbytes(r, r.choice([1, 2, 100, 1000, 1024, 1025, 3000])) for _ in range(r.choice([1, 2, 4]))]
        cases.append(dict(key=key_of(r), bodies=bodies, seed=r.getrandbits(32),
                          flip=(r.random() < 0.3)))
    return cases


async def impl_event(c):
    import random
    rr = random.Random(c["seed"])
    proto, link, conn, _ = make_proto(c["key"], b"\x00" * 32)
    plain = b"".join(http_event(b, sp=(c["seed"] + j) % 3) for j, b in enumerate(c["bodies"]))
    frames = []
    while plain:
        n = rr.choice([1, 3, 64, 1024, 1024, rr.randrange(1, 1025)])
        frames.append(plain[:n])
        plain = plain[n:]
    stream = ref.seal_stream(c["key"], 0, frames)
    nbad = None
    if c["flip"]:
        pos = rr.randrange(len(stream))
        b = bytearray(stream)
        b[pos] ^= 1 << rr.randrange(8)
        stream = bytes(b)
    rx = ref.RefReceiver(c["key"], 0)
    rx.feed(stream)
    for seg in cut(stream, random_cuts(rr, len(stream))):
        link.deliver(seg)
    got = [bytes(e.body) for e in conn.events]
    # expected: events completely contained in the authentic prefix
    auth = b"".join(rx.delivered)
    want, o = [], 0
    for j, b in enumerate(c["bodies"]):
        o += len(http_event(b, sp=(c["seed"] + j) % 3))
        if o <= len(auth):
            want.append(b)
    return got, want, link.ended, rx.dead, len(frames)


# ---------------------------------------------------------------- session stream (one live protocol, everything interleaved)
# Script ops:  ("S", i)  start request i as a task      ("R", bytes)  one network read
#              ("C", i)  cancel request i (caller side timeout / cancellation) while it is in flight
#              ("P",)    transport.pause_writing() reached the protocol        ("U",)  resume_writing()
# The accessory's plaintext stream = EVENT messages and the responses to the *answered* requests, in order,
# cut into frames of arbitrary sizes, sealed, cut into reads.  A response is never read before its request was
# sent; apart from that requests are issued at arbitrary read boundaries - in particular while an event or a
# response is only partly received.  Requests that get cancelled are never answered.
SESS_FRAME = [1, 2, 5, 17, 40, 100, 300, 1024, 1024]


def build_session(r, msgs, reqs, frame_sizes, cuts, rx0=0, tx0=0, flip=None, send_at=None):
    """msgs: [("E", body) | ("A", req index, body)]; reqs: payload per answered request.
    -> case dict with ops = reads and sends merged (flow-control / cancel ops are added by the caller)"""
    a2c, c2a = key_of(r), key_of(r)
    plain, spans = b"", []
    for m in msgs:
        data = http_event(m[1]) if m[0] == "E" else http_response(m[2])
        spans.append((m[0], m[1] if m[0] == "A" else None, len(plain), len(plain) + len(data)))
        plain += data
    frames, o, k = [], 0, 0
    while o < len(plain):
        n = frame_sizes[k] if k < len(frame_sizes) else r.choice(SESS_FRAME + [r.randrange(1, 1025)])
        frames.append(plain[o:o + n])
        o += n
        k += 1
    stream, table = build_recv(a2c, rx0, frames)
    fstart, po, so = [], 0, 0                       # (plain offset, stream offset) of every frame start
    for f in frames:
        fstart.append((po, so))
        po += len(f)
        so += 2 + len(f) + 16
    if flip is not None:
        b = bytearray(stream)
        b[flip[0] % len(b)] ^= 1 << flip[1]
        stream = bytes(b)
    cuts = sorted({c for c in cuts if 0 < c < len(stream)})
    reads = cut(stream, cuts)
    bounds = [0] + cuts                              # stream offset at which read j starts
    # request i must be on the wire before the read that brings the first byte of the frame carrying the start of its response
    latest = {}
    for kind, ri, a, b in spans:
        if kind == "A":
            fs = max(x for x in fstart if x[0] <= a)[1]
            latest[ri] = max(j for j, st in enumerate(bounds) if st <= fs)
    pos, lo = {}, 0
    for i in range(len(reqs)):
        hi = latest[i]
        lo = min(lo, hi)
        pos[i] = send_at[i] if send_at else r.randrange(lo, hi + 1)
        lo = pos[i]
    ops = []
    for j, rd in enumerate(reads):
        for i in range(len(reqs)):
            if pos[i] == j:
                ops.append(("S", i))
        ops.append(("R", rd))
    return dict(a2c_key=a2c, c2a_key=c2a, rx0=rx0, tx0=tx0, msgs=msgs, spans=spans, plain=plain, frames=frames,
                stream=stream, table=table, reqs=list(reqs), ops=ops, answered=len(reqs), corrupted=flip is not None,
                resp_read=latest)


def add_extra_request(r, c, payload, cancel, pause, resume_later):
    """inserts [P] S(x) [C(x)] [U] at a random place; x is never answered by the accessory"""
    x = len(c["reqs"])
    c["reqs"].append(payload)
    at = r.randrange(len(c["ops"]) + 1)
    blk = ([("P",)] if pause else []) + [("S", x)] + ([("C", x)] if cancel else [])
    if pause and not resume_later:
        blk.append(("U",))
    c["ops"][at:at] = blk
    if pause and resume_later:
        c["ops"].insert(r.randrange(at + len(blk), len(c["ops"]) + 1), ("U",))


def gen_session(tier, r):
    quick = tier == "quick"
    cases = []
    # exhaustive: an event spread over two frames at EVERY split point, one read per frame, a request sent between the
    # two reads (and, as control, before / after both), answered afterwards
    ev = http_event(b'{"characteristics":[{"aid":1,"iid":10,"value":true}]}')
    for n in range(1, len(ev)):
        for where in ((0, 1, 2) if (not quick or n % 3 == 0) else (1,)):
            msgs = [("E", ev.split(b"\r\n\r\n", 1)[1]), ("A", 0, rbytes(r, 20))]
            total = len(ev) + len(http_response(msgs[1][2]))
            c = build_session(r, msgs, [rbytes(r, r.choice([1, 60, 1025]))], [n, len(ev) - n, 1024],
                              [2 + n + 16, 2 + n + 16 + 2 + (len(ev) - n) + 16], send_at=[where])
            c["style"] = "event-split/send@%d" % where
            cases.append(c)
    # the 2^64 boundary on a live session: a request that needs a counter >= 2^64 raises, nothing is written, the session
    # stays open for reading, the counter sticks at 2^64 (every later non-empty request raises too)
    for start in (CTR_MAX - 1, CTR_MAX - 2, CTR_MAX - 3, CTR_MAX):
        for lens in ([1, 1, 1], [1025, 1, 1], [1, 2049, 1], [2048, 1, 1025], [3000, 1]):
            msgs = [("E", rbytes(r, 30)), ("E", rbytes(r, 60))]
            c = build_session(r, msgs, [], [], [r.randrange(1, 250) for _ in range(3)], tx0=start, rx0=r.choice([0, 5]))
            for n in lens:
                c["reqs"].append(rbytes(r, n))
                c["ops"].insert(r.randrange(len(c["ops"]) + 1), ("S", len(c["reqs"]) - 1))
            c["ops"].sort(key=lambda op: 0)          # (stable: keeps order; requests stay in issue order below)
            order = [op for op in c["ops"] if op[0] == "S"]
            k = 0
            for j, op in enumerate(c["ops"]):        # requests must be issued in index order
                if op[0] == "S":
                    c["ops"][j] = ("S", k)
                    k += 1
            c["style"] = "ctr-limit"
            cases.append(c)
    # a burst that piled up: ~70 .. 200 KB of events (and one answer) delivered in ONE read, a request before it
    for nev in ([30, 60] if quick else [28, 30, 45, 60, 80]):
        msgs = [("E", rbytes(r, 2500)) for _ in range(nev)]
        msgs.insert(nev // 2, ("A", 0, rbytes(r, 1500)))
        c = build_session(r, msgs, [rbytes(r, 100)], [1024] * 400, [], send_at=[0])
        c["style"] = "big-read"
        cases.append(c)
    # random duplex sessions
    for _ in range(500 if quick else 8000):
        nreq = r.choice([0, 1, 1, 2, 3])
        msgs, k = [], 0
        for _ in range(r.choice([1, 2, 3]) + nreq):
            if k < nreq and r.random() < 0.5:
                msgs.append(("A", k, rbytes(r, r.choice([0, 1, 30, 1000, 1500]))))
                k += 1
            else:
                msgs.append(("E", rbytes(r, r.choice([1, 30, 200, 1100, 2500]))))
        while k < nreq:
            msgs.append(("A", k, rbytes(r, r.choice([0, 1, 30, 1000]))))
            k += 1
        reqs = [rbytes(r, r.choice([1, 2, 100, 1023, 1024, 1025, 2049])) for _ in range(nreq)]
        approx = sum(len(m[-1]) + 90 for m in msgs)
        ncut = r.choice([1, 2, 4, 8, 16])
        flip = (r.randrange(1 << 30), r.randrange(8)) if r.random() < 0.15 else None
        c = build_session(r, msgs, reqs, [], [r.randrange(1, approx * 2) for _ in range(ncut)] , flip=flip,
                          rx0=r.choice([0, 0, 7, (1 << 32) - 1]), tx0=r.choice([0, 0, 3, (1 << 32) - 1]))
        # add reads boundaries exactly between frames now and then (re-cut at frame ends)
        c["style"] = "duplex"
        m = r.random()
        if m < 0.30:
            # flow control + caller side timeout: the transport pauses writing, a request is issued and cancelled
            # (never answered), writing resumes at once or later
            add_extra_request(r, c, rbytes(r, r.choice([1, 100, 1024, 1025])), cancel=True, pause=r.random() < 0.8,
                              resume_later=r.random() < 0.5)
            c["style"] = "flow+cancel"
        elif m < 0.45 and nreq:
            # flow control around an answered request: P just before it, U right after it or later
            i = r.randrange(nreq)
            at = c["ops"].index(("S", i))
            c["ops"].insert(at, ("P",))
            # writing resumes before the read that brings the answer (the accessory cannot answer what it has not received)
            nr, lim = 0, len(c["ops"])
            for k, op in enumerate(c["ops"]):
                if op[0] == "R":
                    if nr == c["resp_read"][i]:
                        lim = k
                        break
                    nr += 1
            c["ops"].insert(at + 2 if r.random() < 0.5 else r.randrange(at + 2, max(at + 2, lim) + 1), ("U",))
            c["style"] = "flow"
        elif m < 0.55:
            at = r.randrange(len(c["ops"]) + 1)
            c["ops"][at:at] = [("P",)]
            c["ops"].insert(r.randrange(at + 1, len(c["ops"]) + 1), ("U",))
            c["style"] = "duplex+pause"
        if r.random() < 0.5:               # one more request at the very end of the script (its answer is not part of the script)
            c["reqs"].append(rbytes(r, r.choice([1, 100, 1025])))
            c["ops"].append(("S", len(c["reqs"]) - 1))
        cases.append(c)
    return cases


def sess_line(c):
    ents = [f"{hx(n)}:{hx(a)}:{hx(ct)}:{hx(pt)}" for n, a, ct, pt in c["table"]]
    toks = []
    for op in c["ops"]:
        if op[0] == "S":
            toks.append("S:" + hx(c["reqs"][op[1]]))
        elif op[0] == "R":
            toks.append("R:" + hx(op[1]))
        else:
            toks.append({"X": "C", "Z": "P", "D": "U"}.get(op[0], op[0]))
    return "sess %d %d %d %s %s" % (c["rx0"], c["tx0"], len(ents), " ".join(ents), " ".join(toks))


async def spin(n=3):
    for _ in range(n):
        await asyncio.sleep(0)


async def impl_session(c, backend="link"):
    """ops additionally understood: ("Z",) the accessory stops reading, ("D",) it reads again, ("X",) it closes the
    connection.  backend "link" = the emulated transport, "wire" = the real asyncio transport over a socketpair."""
    from aiohomekit.exceptions import AccessoryDisconnectedError
    if backend == "wire":
        proto, link, conn = await make_wire(c["a2c_key"], c["c2a_key"], c["rx0"], c["tx0"], sndbuf=c.get("sndbuf"))
    else:
        proto, link, conn, _ = make_proto(c["a2c_key"], c["c2a_key"], c["rx0"], c["tx0"])
    tasks, trace, paused = {}, [], False
    try:
        for op in c["ops"]:
            tok = op[0]
            if op[0] == "S":
                t = asyncio.ensure_future(proto.send_bytes(c["reqs"][op[1]]))
                tasks[op[1]] = t
                await spin(2)
                if t.done() and not t.cancelled() and t.exception() is not None:
                    e = t.exception()
                    tok = "r" if isinstance(e, AccessoryDisconnectedError) else ("x" if isinstance(e, struct.error) else "o:" + type(e).__name__)
                else:
                    tok = "w"
                await link.settle()
            elif op[0] == "R":
                link.deliver(op[1])
                await link.settle()
                tok = "d"
            elif op[0] == "C":
                t = tasks.get(op[1])
                if t is not None and not t.done():
                    t.cancel()
                await spin(3)
                await link.settle()
                tok = "c"
            elif op[0] == "X":
                link.peer_close()
                await link.settle()
                await spin(2)
                tok = "c"
            elif op[0] == "P":
                paused = True
                proto.pause_writing()
            elif op[0] == "U":
                paused = False
                proto.resume_writing()
                await spin(4)
            elif op[0] == "Z":
                link.stalled = True
            elif op[0] == "D":
                link.stalled = False
                await link.drain_all()
                await spin(3)
            done = sorted(i for i, t in tasks.items() if t.done() and not t.cancelled() and t.exception() is None)
            trace.append(dict(tok=tok, paused=paused or getattr(link, "stalled", False), written=link.written(), ended=link.ended,
                              events=len(conn.events), responses=len([i for i in done if i < c["answered"]])))
        await spin(4)
        await link.settle()
        link.stalled = False
        await link.drain_all()
        final = dict(written=link.written(), ended=link.ended, end=link.end_mode,
                     events=[bytes(e.body) for e in conn.events], responses={}, status={},
                     peer_saw_close=link.peer_saw_close, max_buffered=getattr(link, "max_buffered", 0))
        for i, t in tasks.items():
            if not t.done():
                final["status"][i] = "pending"
                t.cancel()
                try:
                    await t
                except BaseException:  # noqa
                    pass
            elif t.cancelled():
                final["status"][i] = "cancelled"
            elif t.exception() is not None:
                final["status"][i] = "exc:" + type(t.exception()).__name__
            else:
                final["status"][i] = "ok"
                final["responses"][i] = bytes(t.result().body)
        return trace, final
    finally:
        link.shutdown()


def model_session(c, ans):
    """driver answer -> per op expectation in the implementation's terms"""
    out, written, plain, dead = [], b"", 0, False
    for tokm in ans.split(" "):
        kind = tokm[0]
        if kind == "w":
            body = tokm[2:]
            if body != ".":
                for f in body.split(","):
                    prefix, nonce, ctr, aad, chunk = f.split(":")
                    written += unhx(prefix) + ref.seal(c["c2a_key"], unhx(nonce), unhx(aad), unhx(chunk))
        elif kind == "d":
            _, st, pts = tokm.split("/")
            dead = dead or st == "D"
            if pts != ".":
                plain += sum(len(unhx(x)) for x in pts.split(","))
        elif kind == "c":
            dead = True
        ev = len([1 for k, ri, a, b in c["spans"] if k == "E" and b <= plain])
        rs = len([1 for k, ri, a, b in c["spans"] if k == "A" and b <= plain])
        out.append(dict(tok={"n": None}.get(kind, kind), written=written, ended=dead, events=ev, responses=rs, plain=plain))
    return out


def oracle_session(c, trace, final):
    """property level, independent of the model: (a) everything written, in order, must be decryptable by the strict
    reference accessory from the session's counter, to the requests that were emitted; a request that was neither
    cancelled nor refused on a live session must have been emitted; (b) what the reference receiver authenticates of the
    reads that reached a live session must arrive as exactly the events / responses the accessory sent."""
    # ---- (a)
    rx = ref.RefReceiver(c["c2a_key"], c["tx0"], max_frame=1024)
    rx.feed(final["written"])
    cancelled = {op[1] for op in c["ops"] if op[0] == "C"}
    issued = [op[1] for op in c["ops"] if op[0] == "S"]
    if rx.dead and rx.why == "auth":
        hdr, body = rx.bad_frame
        for old in range(c["tx0"], rx.ctr):
            if ref.open_(c["c2a_key"], ref.nonce(old), hdr, body) is not None:
                return ("send:session-nonce-reuse", f"frame {len(rx.delivered)} on the wire is sealed with counter {old}, already used")
        for new in range(rx.ctr + 1, rx.ctr + 400):
            if ref.open_(c["c2a_key"], ref.nonce(new), hdr, body) is not None:
                unsent = [i for i in issued if final["status"].get(i) != "ok" or i in cancelled][:12]
                return ("send:counter-skipped-after-unsent-request",
                        f"the session is {'still open' if not final['ended'] else 'closed'}; frame {len(rx.delivered)} on the wire is sealed "
                        f"with counter {new} but the accessory has only seen {rx.ctr - c['tx0']} frames (expects {rx.ctr}): request(s) "
                        f"{unsent} consumed counters without reaching the transport, later requests cannot be decrypted")
        return ("send:session-not-authentic", f"reference accessory fails to authenticate frame {len(rx.delivered)} on the wire")
    if rx.dead:
        return ("send:session-" + rx.why, "reference accessory rejects the written stream")
    got = b"".join(rx.delivered)
    o, emitted = 0, set()
    torn = False
    for i in issued:
        p = c["reqs"][i]
        if got[o:o + len(p)] == p:
            emitted.add(i)
            o += len(p)
        elif final["ended"] and o < len(got) and p.startswith(got[o:]):
            o, torn = len(got), True      # the session was torn down with this request partly unsent (the transport drops its buffer)
            break
    if o != len(got) or (rx.buf and not final["ended"]):
        return ("send:session-wrong-plaintext", f"the wire decrypts to {len(got)} bytes that are not a sequence of the issued requests")
    if not final["ended"]:
        for i in issued:
            if i not in emitted and i not in cancelled and final["status"].get(i) in ("ok", "pending"):
                return ("send:request-never-emitted", f"request {i} was neither cancelled nor refused, the session is open, yet it never reached the wire")
    # ---- (b) reads that reached the session before a cancellation closed it
    upto = len(c["ops"])
    for k, op in enumerate(c["ops"]):
        if (op[0] == "C" and op[1] in emitted) or op[0] == "X":
            upto = k
            break
    data = b"".join(op[1] for op in c["ops"][:upto] if op[0] == "R")
    rr = ref.RefReceiver(c["a2c_key"], c["rx0"])
    rr.feed(data)
    n = len(b"".join(rr.delivered))
    want_ev = [c["msgs"][j][1] for j, (k, ri, a, b) in enumerate(c["spans"]) if k == "E" and b <= n]
    if final["events"] != want_ev:
        return ("recv:session-events-differ",
                f"events delivered {[len(x) for x in final['events']]} != events the accessory sent in the authentic part of the "
                f"stream {[len(x) for x in want_ev]} (requests were issued between the reads; session end: {final['end']})")
    for j, (k, ri, a, b) in enumerate(c["spans"]):
        if k == "A" and b <= n and ri not in cancelled:
            if final["responses"].get(ri) != c["msgs"][j][2]:
                return ("recv:session-response-differs",
                        f"request {ri}: response of {len(c['msgs'][j][2])} bytes lies in the authentic part of the stream but the request "
                        f"future ended as {final['status'].get(ri)} / {len(final['responses'].get(ri, b''))} bytes")
    # "ends the session": at the read that carries the frame which fails authentication, not when a write backlog has drained
    rk = ref.RefReceiver(c["a2c_key"], c["rx0"])
    for k, op in enumerate(c["ops"][:upto]):
        if op[0] == "R":
            rk.feed(op[1])
            if rk.dead and k < len(trace) and not trace[k]["ended"]:
                return ("recv:auth-failure-session-not-ended-at-once",
                        f"read {k} ({len(op[1])} bytes) completes a frame that fails authentication, but after it the session is still open "
                        f"(transport closing / connection_lost delivered: {trace[k]['ended']}; accessory reading: {not trace[k]['paused']}; "
                        f"session end at the end of the script: {final['end']})")
            if rk.dead:
                break
    closed_by_cancel = upto < len(c["ops"])
    if not rr.dead and not closed_by_cancel and final["ended"]:
        return ("recv:session-ended-without-cause", f"no authentication failure, no cancellation, yet the session ended ({final['end']})")
    if rr.dead and not final["ended"]:
        return ("recv:auth-failure-session-not-ended", "a frame failed authentication but the session goes on")
    if rr.dead and final.get("peer_saw_close") is False:
        return ("recv:auth-failure-peer-not-disconnected",
                "a frame failed authentication but the accessory's end of the (real) connection is still open")
    return None


# ---------------------------------------------------------------- wire stream: the real asyncio transport
def gen_wire(tier, r):
    """session scripts for the real transport (no explicit pause/resume: flow control is the event loop's own)"""
    quick = tier == "quick"
    cases = []
    for _ in range(110 if quick else 1500):
        nreq = r.choice([0, 1, 2, 3])
        msgs, k = [], 0
        for _ in range(r.choice([1, 2, 3]) + nreq):
            if k < nreq and r.random() < 0.5:
                msgs.append(("A", k, rbytes(r, r.choice([0, 1, 30, 1000, 1500]))))
                k += 1
            else:
                msgs.append(("E", rbytes(r, r.choice([1, 30, 200, 1100, 2500]))))
        while k < nreq:
            msgs.append(("A", k, rbytes(r, r.choice([0, 1, 30, 1000]))))
            k += 1
        reqs = [rbytes(r, r.choice([1, 2, 100, 1023, 1024, 1025, 2049])) for _ in range(nreq)]
        approx = sum(len(m[-1]) + 90 for m in msgs)
        flip = (r.randrange(1 << 30), r.randrange(8)) if r.random() < 0.35 else None
        c = build_session(r, msgs, reqs, [], [r.randrange(1, approx * 2) for _ in range(r.choice([1, 2, 4, 8]))], flip=flip,
                          rx0=r.choice([0, 0, 7, (1 << 32) - 1]), tx0=r.choice([0, 0, 3, (1 << 32) - 1]))
        c["style"] = "wire-duplex" + ("+corrupt" if flip else "")
        m = r.random()
        if m < 0.2:
            add_extra_request(r, c, rbytes(r, r.choice([1, 100, 1025])), cancel=True, pause=False, resume_later=False)
            c["style"] = "wire-cancel"
        elif m < 0.35:
            c["ops"].append(("X",))                                     # the accessory closes the connection ...
            c["reqs"].append(rbytes(r, 10))
            c["ops"].append(("S", len(c["reqs"]) - 1))                  # ... a later request must be refused
            c["style"] = "wire-peer-close"
        elif m < 0.6:
            c["reqs"].append(rbytes(r, r.choice([1, 100, 1025])))
            c["ops"].append(("S", len(c["reqs"]) - 1))
        cases.append(c)
    for nev in ([40] if quick else [28, 40, 60]):
        msgs = [("E", rbytes(r, 2500)) for _ in range(nev)]
        msgs.append(("A", 0, rbytes(r, 1500)))
        c = build_session(r, msgs, [rbytes(r, 100)], [1024] * 400, [], send_at=[0])
        c["style"] = "wire-big-read"
        cases.append(c)
    # real back-pressure: the accessory stops reading while the controller keeps issuing large requests, until the
    # transport's write buffer is over its high-water mark (pause_writing() called by the event loop), then reads again
    for _ in range(10 if quick else 60):
        k = r.randrange(18, 30)
        reqs = [rbytes(r, r.choice([4096, 5000, 6000])) for _ in range(k)] + [rbytes(r, r.choice([1, 100, 1025])) for _ in range(3)]
        msgs = [("A", i, rbytes(r, r.choice([1, 30]))) for i in range(len(reqs))]
        c = build_session(r, msgs, reqs, [], [r.randrange(1, 3000) for _ in range(3)], send_at=[0] * len(reqs))
        ops = [("Z",)] + c["ops"][:k] + [("D",)] + c["ops"][k:]
        c["ops"] = ops
        c["sndbuf"] = 4096
        c["style"] = "wire-backpressure"
        cases.append(c)
    # ... and an inbound frame fails authentication WHILE unsent request bytes are queued (the accessory is not reading):
    # the session must end at once - asyncio's fatal-error path drops the buffer - not after the backlog has drained
    for _ in range(6 if quick else 40):
        k = r.randrange(14, 22)
        reqs = [rbytes(r, r.choice([4096, 5000, 6000])) for _ in range(k)]
        msgs = [("E", rbytes(r, r.choice([1, 30, 200]))) for _ in range(r.choice([1, 2, 3]))]
        msgs += [("A", i, rbytes(r, r.choice([1, 30]))) for i in range(len(reqs))]
        c = build_session(r, msgs, reqs, [], [r.randrange(1, 300) for _ in range(r.choice([0, 1, 2]))], send_at=[0] * len(reqs),
                          flip=(r.randrange(1 << 30), r.randrange(8)))
        c["ops"] = [("Z",)] + c["ops"]
        c["sndbuf"] = 4096
        c["style"] = "wire-backlog+corrupt"
        cases.append(c)
    return cases


# ---------------------------------------------------------------- kernel cross-check of the extracted driver
VM_PRELUDE = r"""From Coq Require Import List NArith Bool.
From AHK Require Import Lib.Res Lib.ByteStr Model.Frame.
Import ListNotations.
(* results are flattened to one [list N]; every byte string is preceded by its length *)
Definition show_bs (b : bytes) : list N := N.of_nat (length b) :: b.
Definition show_f (f : sframe) : list N :=
  show_bs (sf_prefix f) ++ show_bs (sf_nonce f) ++ [sf_ctr f] ++ show_bs (sf_aad f) ++ show_bs (sf_chunk f).
(* driver command "sends": ip_send folded over the payloads, counter threaded, stops at the first non-Ok *)
Fixpoint sends (ctr : N) (ps : list bytes) : list N :=
  match ps with
  | [] => []
  | p :: r =>
      match ip_send ctr p with
      | Ok (fs, c') => [0%N; c'; N.of_nat (length fs)] ++ concat (map show_f fs) ++ sends c' r
      | Crash => [1%N]
      | Err _ => [2%N]
      | OutOfFuel => [3%N]
      end
  end.
(* driver command "feed": open = the finite table (a later entry replaces an earlier one with the same key) *)
Fixpoint lookup (tbl : list (bytes * bytes * bytes * bytes)) (no aad ct : bytes) : option bytes :=
  match tbl with
  | [] => None
  | (n, a, c, p) :: r =>
      match lookup r no aad ct with
      | Some x => Some x
      | None => if beq_bytes n no && beq_bytes a aad && beq_bytes c ct then Some p else None
      end
  end.
Definition show_st (s : rstate) : list N :=
  match s with Dead => [1%N] | Live b c => [0%N] ++ show_bs b ++ [c] end.
Fixpoint feeds (opn : bytes -> bytes -> bytes -> option bytes) (st : rstate) (segs : list bytes) : list N :=
  match segs with
  | [] => show_st st
  | d :: r =>
      let so := ip_feed opn st d in
      [match fst so with Dead => 1%N | Live _ _ => 0%N end; N.of_nat (length (snd so))]
        ++ concat (map show_bs (snd so)) ++ feeds opn (fst so) r
  end.
(* driver command "sess": ip_sess_step folded over the script *)
Definition show_ev (s' : sess) (e : sev) : list N :=
  match e with
  | EWrote fs => [0%N; N.of_nat (length fs)] ++ concat (map show_f fs)
  | ERaise => [1%N]
  | ERefused => [2%N]
  | EDeliv ps => [3%N; match s_rx s' with Dead => 1%N | Live _ _ => 0%N end; N.of_nat (length ps)]
                   ++ concat (map show_bs ps)
  | EClosed => [4%N]
  | ENop => [5%N]
  end.
Fixpoint sessr (opn : bytes -> bytes -> bytes -> option bytes) (s : sess) (ops : list sop) : list N :=
  match ops with
  | [] => []
  | o :: r => let se := ip_sess_step opn s o in show_ev (fst se) (snd se) ++ sessr opn (fst se) r
  end.
"""


def coq_bytes(b):
    return "[" + "; ".join(f"{x}%N" for x in bytes(b)) + "]"


def coq_request(line):
    """one driver request line -> the Gallina term the driver evaluates for it (parsed the way ocaml/drv_c05.ml does)"""
    w = line.split()
    if w[0] == "sends":
        return "sends %s%%N [%s]" % (w[1], "; ".join(coq_bytes(unhx(p)) for p in w[2:]))
    if w[0] == "feed":
        n = int(w[3])
        ents, segs = w[4:4 + n], w[4 + n:]
        tbl = "; ".join("(%s, %s, %s, %s)" % tuple(coq_bytes(unhx(x)) for x in e.split(":")) for e in ents)
        return "feeds (lookup [%s]) (Live %s %s%%N) [%s]" % (tbl, coq_bytes(unhx(w[2])), w[1],
                                                             "; ".join(coq_bytes(unhx(s)) for s in segs))
    if w[0] == "sess":
        n = int(w[3])
        ents, ops = w[4:4 + n], w[4 + n:]
        tbl = "; ".join("(%s, %s, %s, %s)" % tuple(coq_bytes(unhx(x)) for x in e.split(":")) for e in ents)

        def op(tok):
            if tok in ("C", "P", "U"):
                return {"C": "OCancel", "P": "OPause", "U": "OResume"}[tok]
            k, h = tok.split(":")
            return ("OSend " if k == "S" else "ORecv ") + coq_bytes(unhx(h))
        return "sessr (lookup [%s]) (mkSess (Live [] %s%%N) %s%%N) [%s]" % (tbl, w[1], w[2], "; ".join(op(t) for t in ops))
    raise ValueError("unknown request kind " + w[0])


def flat_answer(line, ans):
    """the driver's answer line -> the flat number list `sends` / `feeds` above produce; None = unparseable answer"""
    def bs(h):
        b = unhx(h)
        return [len(b)] + list(b)
    try:
        out = []
        if line.startswith("sends"):
            for part in (ans.split(" | ") if ans else []):
                t = part.split(" ")
                if t[0] != "ok":
                    out += [{"crash": 1, "err": 2, "fuel": 3}[t[0]]]
                    continue
                out += [0, int(t[1]), len(t) - 2]
                for tok in t[2:]:
                    prefix, nonce, ctr, aad, chunk = tok.split(":")
                    out += bs(prefix) + bs(nonce) + [int(ctr)] + bs(aad) + bs(chunk)
            return out
        if line.startswith("sess"):
            for tok in ans.split(" "):
                if tok[0] == "w":
                    fr = [] if tok[2:] == "." else tok[2:].split(",")
                    out += [0, len(fr)]
                    for f in fr:
                        prefix, nonce, ctr, aad, chunk = f.split(":")
                        out += bs(prefix) + bs(nonce) + [int(ctr)] + bs(aad) + bs(chunk)
                elif tok[0] == "d":
                    _, st, o = tok.split("/")
                    pts = [] if o == "." else o.split(",")
                    out += [3, {"L": 0, "D": 1}[st], len(pts)]
                    for p_ in pts:
                        out += bs(p_)
                else:
                    out += [{"x": 1, "r": 2, "c": 4, "n": 5}[tok]]
            return out
        t = ans.split(" ")
        for tok in t[:-1]:
            st, o = tok.split("/")
            pts = [] if o == "." else o.split(",")
            out += [{"L": 0, "D": 1}[st], len(pts)]
            for p in pts:
                out += bs(p)
        if t[-1] == "dead":
            return out + [1]
        tag, buf, ctr = t[-1].split(":")
        if tag != "live":
            return None
        return out + [0] + bs(buf) + [int(ctr)]
    except (ValueError, KeyError, IndexError):
        return None


def vm_crosscheck(ctx, sample):
    """sample: (request line, driver answer) pairs from this run's request stream.  The same requests are evaluated
    inside Coq (`Eval vm_compute`, one per request, one generated file) with the model functions the driver calls
    (ip_send / ip_feed) and the complete structured answers are compared.  Takes extraction + ocaml/drv.ml +
    ocaml/drv_c05.ml out of the single-point-of-trust position.  -> (requests, [(line, coq, driver), ...])"""
    import re
    from common import coq_eval
    body = [VM_PRELUDE] + ["Eval vm_compute in (%s)." % coq_request(line) for line, _ in sample]
    out = coq_eval(ctx["verif"], "C05", "crosscheck", "\n".join(body) + "\n", timeout=600)
    blocks = re.split(r"^\s*= ", out, flags=re.M)[1:]
    bad = []
    for i, (line, ans) in enumerate(sample):
        got = [int(x) for x in re.findall(r"\d+", blocks[i].rsplit(":", 1)[0])] if i < len(blocks) else None
        want = flat_answer(line, ans)
        if got is None or want is None or got != want:
            bad.append((line, got, ans))
    return len(sample), bad


def vm_sample(send_lines, send_model, pipe_lines, pipe_model, recv_lines, recv_cases, recv_model):
    """deterministic sample of the real request stream: both request kinds (sends: single-request sessions, crash at
    2^64, pipelined sessions; feed: every generator style, clean and corrupted), small inputs only"""
    def spread(idx, k):
        if len(idx) <= k:
            return list(idx)
        return [idx[(j * (len(idx) - 1)) // (k - 1)] for j in range(k)] if k > 1 else [idx[0]]

    def small(line):        # hex digits / 2 bounds the number of list elements of the Gallina literal
        return len(line) <= 800

    def medium(line):       # admits one 1025-byte request (two frames); elaborating such literals costs ~0.3 s each
        return 800 < len(line) <= 2200
    picks = []
    s_small = [i for i, l in enumerate(send_lines) if small(l)]
    s_crash = [i for i in s_small if "crash" in send_model[i]]
    s_multi = [i for i in s_small if " | " in send_model[i] and "crash" not in send_model[i]]
    s_two = [i for i, l in enumerate(send_lines) if medium(l)
             and any(len(p.split(" ")) > 3 for p in send_model[i].split(" | "))]       # a request cut into >= 2 frames
    chosen = spread(s_small, 4) + spread(s_crash, 2) + spread(s_multi, 2) + spread(s_two, 3)
    picks += [(send_lines[i], send_model[i]) for i in sorted(set(chosen))]
    p_small = [i for i, l in enumerate(pipe_lines) if small(l)]
    p_med = [i for i, l in enumerate(pipe_lines) if medium(l)]
    picks += [(pipe_lines[i], pipe_model[i]) for i in spread(p_small, 2) + spread(p_med, 2)]
    by_style = {}
    for i, (l, c) in enumerate(zip(recv_lines, recv_cases)):
        if small(l) or (medium(l) and c["style"] == "random"):
            by_style.setdefault((c["style"], c["mut"] != "none"), []).append(i)
    for key in sorted(by_style):
        picks += [(recv_lines[i], recv_model[i]) for i in spread(by_style[key], 2)]
    return picks[:30]


def read_bucket(n):
    for lim, name in ((128, "<=128"), (1024, "<=1K"), (4096, "<=4K"), (16384, "<=16K"), (65553, "<=65553 (one max frame)")):
        if n <= lim:
            return name
    return "<=256K" if n <= 262144 else ">256K"


# ---------------------------------------------------------------- run
def run(ctx):
    tier, seed = ctx["tier"], ctx["seed"]
    drv = Driver(ctx["driver"])
    cov = Coverage("send: distinct (start counter, payload lengths) session with >= 1 non-empty payload; "
                   "pipelined-send: distinct (start counter, payload lengths, schedule) with >= 2 requests in flight; "
                   "session: distinct script of requests / reads / cancel / pause / resume on one protocol object; "
                   "wire: distinct session script run on the real asyncio transport; "
                   "recv: distinct (frame sizes, corruption, read boundaries) with >= 1 complete frame or a corruption; "
                   "event: distinct body-length lists")
    viols = []
    seen = {}

    def report(key, what, found, **payload):
        seen[key] = seen.get(key, 0) + 1
        if seen[key] == 1:
            viols.append(violation(key, what, found, **payload))

    send_cases = gen_send(tier, rng(seed, "c05send"))
    recv_cases = gen_recv(tier, rng(seed, "c05recv"))
    FakeConnection.UNKNOWN.clear()
    event_cases = gen_event(tier, rng(seed, "c05event"))
    pipe_cases = gen_pipe(tier, rng(seed, "c05pipe"))
    sess_cases = gen_session(tier, rng(seed, "c05sess"))
    wire_cases = gen_wire(tier, rng(seed, "c05wire"))
    Link.UNKNOWN.clear()

    send_lines = ["sends %d %s" % (c["ctr"], " ".join(hx(p) for p in c["payloads"])) for c in send_cases]
    recv_lines = [recv_line(c) for c in recv_cases]
    pipe_lines = ["sends %d %s" % (c["ctr"], " ".join(hx(p) for p in c["payloads"])) for c in pipe_cases]
    send_model = drv.batch(send_lines)
    recv_model = drv.batch(recv_lines)
    pipe_model = drv.batch(pipe_lines)
    sess_lines = [sess_line(c) for c in sess_cases]
    sess_model = drv.batch(sess_lines)
    wire_model = drv.batch([sess_line(c) for c in wire_cases])

    async def all_impl():
        s = [await impl_send_session(c) for c in send_cases]
        rv = [await impl_recv(c) for c in recv_cases]
        ev = [await impl_event(c) for c in event_cases]
        pp = [await impl_pipe(c) for c in pipe_cases]
        ss = [await impl_session(c) for c in sess_cases]
        ww = [(await impl_session(c, "wire"), await impl_session(c, "link")) for c in wire_cases]
        return s, rv, ev, pp, ss, ww

    loop = asyncio.new_event_loop()
    loop.set_exception_handler(lambda l, c: None)
    prev_disable = logging.root.manager.disable
    logging.disable(logging.CRITICAL)      # the code under test may log per corrupted frame
    try:
        send_impl, recv_impl, event_impl, pipe_impl, sess_impl, wire_impl = loop.run_until_complete(all_impl())
    finally:
        logging.disable(prev_disable)
        loop.close()

    # ---- send
    for ci, (c, m_ans, impl) in enumerate(zip(send_cases, send_model, send_impl)):
        m_parts = m_ans.split(" | ")
        ctr = c["ctr"]
        for idx, payload in enumerate(c["payloads"]):
            if idx >= len(m_parts) or idx >= len(impl):
                break
            m = model_send_bytes(m_parts[idx], c["c2a_key"])
            im = impl[idx]
            rep = dict(stream="send", start_counter=c["ctr"], counter_before=ctr, payload_index=idx,
                       payload_lens=[len(p) for p in c["payloads"]], payload=hx(payload)[:4200],
                       c2a_key=hx(c["c2a_key"]))
            if im[0] == "crash":
                expect_crash = len(payload) > 0 and ctr + (len(payload) + 1023) // 1024 > CTR_MAX
                if not expect_crash:
                    report("send:raises", f"send_bytes raised {im[1]} for a {len(payload)}-byte request at counter {ctr}", True,
                           impl=im[1], **rep)
                elif m[0] != "crash":
                    report("send:model-mismatch", f"implementation raised {im[1]}, model answers {m_parts[idx][:80]}", False, **rep)
                break
            written = im[1]
            orc = oracle_send(c, idx, ctr, written)
            if m[0] == "crash":
                report("send:counter-overflow-not-raised", f"a frame was sealed with a counter >= 2^64 (start {ctr})", True,
                       impl=hx(written)[:200], **rep)
                break
            if orc is not None:
                report("send:" + orc[0], f"send: {len(payload)}-byte request at counter {ctr}: {orc[1]}", True,
                       impl_written=hx(written)[:4400], expected=hx(m[1])[:4400], **rep)
            elif written != m[1]:
                report("send:model-mismatch", f"written bytes differ from the sealed model frames ({len(written)} vs {len(m[1])} bytes)",
                       False, impl_written=hx(written)[:4400], model=hx(m[1])[:4400],
                       broken="correspondence Model/Frame.v send <-> SecureHomeKitProtocol.send_bytes", **rep)
            # model-side sanity: frames <= 1024, consecutive counters, nonce layout (reference formula)
            for j, (prefix, nonce, fctr, aad, chunk) in enumerate(m[3]):
                if not (1 <= len(chunk) <= 1024 and prefix == aad == struct.pack("<H", len(chunk))
                        and fctr == ctr + j and nonce == ref.nonce(fctr)):
                    report("send:model-frame-shape", "model frame contradicts send_chunks_le_1024/send_counters", False, **rep)
            if im[3] != "ok":
                report("e2e:" + im[3], f"response to request {idx} (body {len(c['resp_bodies'][idx])} bytes, sealed by the reference "
                       f"accessory, random frames and reads) did not reach the request future: {im[3]}", True, **rep)
            cov.case(f"s{c['ctr']}/{idx}/{len(payload)}/{ci}", len(payload) > 0,
                     sample=dict(stream="send", start_counter=c["ctr"], payload_len=len(payload), frames=len(m[3]),
                                 written=len(written), write_calls=im[2]) if (ci % 41 == 0 and idx == 0) else None,
                     send_len=len(payload) if len(payload) in SEND_LENS else ("%dk+" % (len(payload) // 1024)),
                     send_write_calls=im[2], send_frames=len(m[3]))
            ctr = m[2]

    # ---- pipelined send: several requests in flight on one session; model = send applied sequentially, counter threaded
    for ci, (c, m_ans, im) in enumerate(zip(pipe_cases, pipe_model, pipe_impl)):
        m_parts = [model_send_bytes(x, c["c2a_key"]) for x in m_ans.split(" | ")]
        rep = dict(stream="pipelined-send", start_counter=c["ctr"], payload_lens=c["lens"], schedule=c["schedule"],
                   c2a_key=hx(c["c2a_key"]), payloads=[hx(p)[:4200] for p in c["payloads"]],
                   impl_written=[hx(w)[:4400] if w is not None else None for w in im["writes"]],
                   expected_written=[hx(m[1])[:4400] if m[0] == "ok" else m[0] for m in m_parts])
        orc = oracle_pipe(c, im["writes"])
        if orc is not None:
            report("send:" + orc[0], "send: " + orc[1], True, **rep)
        elif len(m_parts) != len(im["writes"]) or any(m[0] != "ok" or m[1] != w for m, w in zip(m_parts, im["writes"])):
            report("send:pipelined-model-mismatch", "bytes written for pipelined requests differ from the model's sequential send "
                   f"(lens {c['lens']}, schedule {c['schedule']})", False,
                   broken="correspondence Model/Frame.v send (counter threaded) <-> SecureHomeKitProtocol.send_bytes", **rep)
        bad = [x for x in im["e2e"] if x != "ok"]
        if bad and orc is None:
            report("e2e:pipelined-" + str(bad[0]), f"pipelined requests {c['lens']} (schedule {c['schedule']}): responses delivered in "
                   f"order by the reference accessory did not resolve the request futures in order: {im['e2e']}", True, **rep)
        cov.case(f"p{c['ctr']}/{c['lens']}/{c['schedule']}", True,
                 sample=dict(stream="pipelined-send", start_counter=c["ctr"], payload_lens=c["lens"], schedule=c["schedule"],
                             written=[len(w) if w is not None else None for w in im["writes"]]) if ci % 61 == 0 else None,
                 pipe_requests=len(c["lens"]),
                 pipe_schedule=c["schedule"])

    # ---- session / wire: requests, reads, cancellation and flow control interleaved on one live protocol
    def judge(stream, c, m_ans, trace, final, ci):
        mexp = model_session(c, m_ans)

        def show(op):
            return ("S%d:%d" % (op[1], len(c["reqs"][op[1]]))) if op[0] == "S" else ("R:%d" % len(op[1])) if op[0] == "R" else \
                   ("C%d" % op[1]) if op[0] == "C" else op[0]
        small = len(c["stream"]) <= 600
        rep = dict(stream=stream, style=c["style"], a2c_key=hx(c["a2c_key"]), c2a_key=hx(c["c2a_key"]),
                   a2c_counter=c["rx0"], c2a_counter=c["tx0"], script=[show(op) for op in c["ops"]][:80],
                   requests=[hx(p)[:200] for p in c["reqs"]][:40], answered_requests=c["answered"],
                   accessory_messages=[(m[0], len(m[-1])) for m in c["msgs"]][:40], frame_sizes=[len(f) for f in c["frames"]][:60],
                   reads=[hx(op[1]) for op in c["ops"] if op[0] == "R"] if small else [len(op[1]) for op in c["ops"] if op[0] == "R"],
                   corrupted=c["corrupted"], impl_final=dict(ended=final["ended"], end=final["end"], status=final["status"],
                                                             events=[len(e) for e in final["events"]], written=len(final["written"]),
                                                             peer_saw_close=final.get("peer_saw_close"),
                                                             max_write_buffer=final.get("max_buffered")),
                   impl_trace=[(t["tok"], len(t["written"]), t["ended"], t["events"], t["responses"]) for t in trace][:40],
                   model_trace=[(t["tok"], len(t["written"]), t["ended"], t["events"], t["responses"]) for t in mexp][:40])
        script = rep["script"] + ["..."] * len(c["ops"])
        orc = oracle_session(c, trace, final)
        if orc is not None:
            key = orc[0] if stream == "session" else orc[0].replace("send:", "send:wire-", 1).replace("recv:", "recv:wire-", 1)
            report(key, f"{stream} ({c['style']}, script {' '.join(rep['script'])[:160]}): {orc[1]}", True, **rep)
        else:
            for k, (ti, tm) in enumerate(zip(trace, mexp)):
                if ti["paused"]:
                    continue                       # a flow-controlled writer may legitimately hold data back while paused
                same = (ti["written"] == tm["written"] and ti["ended"] == tm["ended"] and ti["events"] == tm["events"]
                        and ti["responses"] == tm["responses"] and (tm["tok"] is None or ti["tok"] == tm["tok"]))
                if not same:
                    report(stream + ":model-mismatch", f"after op {k} ({script[k]}) of {c['style']} script: implementation "
                           f"{(ti['tok'], len(ti['written']), ti['ended'], ti['events'], ti['responses'])} != model "
                           f"{(tm['tok'], len(tm['written']), tm['ended'], tm['events'], tm['responses'])}", False,
                           broken="correspondence Model/Frame.v sess_step <-> SecureHomeKitProtocol on one live object", **rep)
                    break
        return rep, mexp

    for ci, (c, m_ans, (trace, final)) in enumerate(zip(sess_cases, sess_model, sess_impl)):
        rep, mexp = judge("session", c, m_ans, trace, final, ci)
        cov.case("x" + repr(rep["script"]) + hx(c["stream"][:32]), True,
                 sample=dict(stream="session", style=c["style"], script=rep["script"][:14], frames=rep["frame_sizes"][:8],
                             events=len(final["events"]), ended=final["end"]) if ci % 97 == 0 else None,
                 sess_style=c["style"].split("/")[0], sess_end=final["end"], sess_requests=len(c["reqs"]),
                 sess_largest_read=read_bucket(max([len(op[1]) for op in c["ops"] if op[0] == "R"] + [0])),
                 sess_send_mid_message=any(t["tok"] == "w" and any(a < t["plain"] < b for _, _, a, b in c["spans"]) for t in mexp))

    # the same scripts on the REAL asyncio transport (socketpair), and on Link: the emulation must agree with the real thing
    for ci, (c, m_ans, ((trace, final), (ltrace, lfinal))) in enumerate(zip(wire_cases, wire_model, wire_impl)):
        rep, mexp = judge("wire", c, m_ans, trace, final, ci)
        a = (final["events"], final["responses"], final["status"], final["written"], final["ended"], final["end"],
             [(t["ended"], t["events"], t["responses"]) for t in trace])
        b_ = (lfinal["events"], lfinal["responses"], lfinal["status"], lfinal["written"], lfinal["ended"], lfinal["end"],
              [(t["ended"], t["events"], t["responses"]) for t in ltrace])
        if c["style"] == "wire-backlog+corrupt":
            # the real transport drops its unsent buffer when the session is torn down; Link has no buffer: what the
            # accessory has READ differs by construction, everything else must agree
            a, b_ = a[:3] + a[4:], b_[:3] + b_[4:]
        if a != b_:
            names = ("events", "responses", "status", "written", "ended", "end", "per-op")
            if len(a) == 6:
                names = names[:3] + names[4:]
            which = [n for n, x, y in zip(names, a, b_) if x != y]
            report("wire:link-emulation-differs", f"the real asyncio transport and harness Link disagree on {which} for a "
                   f"{c['style']} script ({' '.join(rep['script'])[:120]}): real end={final['end']} status={final['status']}, "
                   f"Link end={lfinal['end']} status={lfinal['status']}"[:400], False,
                   broken="harness/c05.py::Link as an emulation of asyncio's selector transport", **rep)
        cov.case("w" + repr(rep["script"]) + hx(c["stream"][:32]), True,
                 sample=dict(stream="wire", style=c["style"], script=rep["script"][:14], ended=final["end"],
                             peer_saw_close=final["peer_saw_close"], max_write_buffer=final["max_buffered"]) if ci % 23 == 0 else None,
                 wire_style=c["style"], wire_end=final["end"], wire_peer_saw_close=final["peer_saw_close"],
                 wire_largest_read=read_bucket(max([len(op[1]) for op in c["ops"] if op[0] == "R"] + [0])),
                 wire_transport_paused_writing=final["max_buffered"] > 65536)

    # ---- recv
    for ci, (c, m_ans, (toks, info)) in enumerate(zip(recv_cases, recv_model, recv_impl)):
        m_toks, m_fin = model_recv_canon(m_ans)
        orc = oracle_recv(c, toks, info)
        rep = dict(stream="recv", a2c_key=hx(c["key"]), start_counter=c["ctr"], frame_sizes=[len(p) for p in c["frames"]],
                   corruption=c["mut"], reads=[hx(s) for s in c["segs"]] if len(c["stream"]) <= 400 else [len(s) for s in c["segs"]],
                   impl=[t[:80] for t in toks][:20], model=[t[:80] for t in m_toks][:20], model_final=m_fin[:40],
                   impl_session=info)
        if orc is not None:
            report("recv:" + orc[0], "recv: " + orc[1], True, **rep)
        elif toks != m_toks:
            report("recv:model-mismatch", f"per-read deliveries differ: impl {toks[:6]} model {m_toks[:6]}"[:300], False,
                   broken="correspondence Model/Frame.v feed <-> SecureHomeKitProtocol.data_received", **rep)
        delivered = sum(len(unhx(t.split('/')[1])) for t in toks)
        nontriv = delivered > 0 or c["mut"] != "none"
        cov.case("r" + hx(c["stream"][:64]) + repr([len(s) for s in c["segs"]]) + c["mut"], nontriv,
                 sample=dict(stream="recv", frame_sizes=[len(p) for p in c["frames"]], corruption=c["mut"],
                             read_sizes=[len(s) for s in c["segs"]][:10], result=[t[:24] for t in toks][:6]) if ci % 3001 == 0 else None,
                 recv_style=c["style"], recv_corruption=c["mut"], recv_reads=min(len(c["segs"]), 50),
                 recv_largest_read=read_bucket(max([len(x) for x in c["segs"]] + [0])),
                 recv_end=("dead" if toks and toks[-1][0] == "D" else "live"), recv_session_end=info["end"])

    # ---- event
    for ci, (c, (got, want, ended, rdead, nframes)) in enumerate(zip(event_cases, event_impl)):
        rep = dict(stream="event", body_lens=[len(b) for b in c["bodies"]], corrupted=c["flip"], seed=c["seed"], a2c_key=hx(c["key"]))
        if got != want:
            report("event:bodies-differ", f"event bodies delivered {[len(g) for g in got]} != sent (authentic prefix) {[len(w) for w in want]}",
                   True, **rep)
        elif ended != rdead:
            report("event:session-end-differs", f"transport closed={ended}, reference receiver dead={rdead}", True, **rep)
        cov.case("e" + repr(rep["body_lens"]) + str(c["seed"]), True,
                 sample=dict(stream="event", body_lens=rep["body_lens"], frames=nframes, corrupted=c["flip"]) if ci % 97 == 0 else None,
                 event_msgs=len(c["bodies"]), event_corrupted=c["flip"])

    if Link.UNKNOWN:
        report("harness:fake-transport-incomplete",
               f"the protocol used transport attribute(s) {sorted(Link.UNKNOWN)} that harness/c05.py::Link does not provide; the "
               f"resulting AttributeError may have been mistaken for a session teardown", False, attributes=sorted(Link.UNKNOWN))
    if FakeConnection.UNKNOWN:
        report("harness:fake-connection-incomplete",
               f"the protocol accessed connection attribute(s) {sorted(FakeConnection.UNKNOWN)} that harness/c05.py::FakeConnection "
               f"does not provide; the resulting AttributeError may have been mistaken for a session teardown", False,
               attributes=sorted(FakeConnection.UNKNOWN))
    if not ctx.get("replay"):
        vm_pairs = vm_sample(send_lines, send_model, pipe_lines, pipe_model, recv_lines, recv_cases, recv_model)
        # the "sess" command too: small scripts of every style (incl. cancel, pause/resume, refused and raising requests)
        by_style = {}
        for i, (l, c) in enumerate(zip(sess_lines, sess_cases)):
            if len(l) <= (2600 if c["style"] == "ctr-limit" else 1500):
                by_style.setdefault((c["style"].split("/")[0], "x" in sess_model[i].split(" "), "r" in sess_model[i].split(" ")), []).append(i)
        for key in sorted(by_style):
            idx = by_style[key]
            vm_pairs += [(sess_lines[i], sess_model[i]) for i in sorted({idx[0], idx[len(idx) // 2]})]
        vm_pairs = vm_pairs[:48]
        cov.extra["vm_compute_sess_styles"] = sorted({"%s%s%s" % (k[0], "+raise" if k[1] else "", "+refused" if k[2] else "") for k in by_style})
        import time as _time
        _t0 = _time.time()
        n_vm, bad_vm = vm_crosscheck(ctx, vm_pairs)
        _vm_s = round(_time.time() - _t0, 1)
        cov.extra["vm_compute_crosscheck"] = dict(requests=n_vm, disagreements=len(bad_vm), seconds=_vm_s,
                                                  sends_requests=sum(1 for l, _ in vm_pairs if l.startswith("sends")),
                                                  feed_requests=sum(1 for l, _ in vm_pairs if l.startswith("feed")),
                                                  sess_requests=sum(1 for l, _ in vm_pairs if l.startswith("sess")))
        if bad_vm:
            line, got, ans = bad_vm[0]
            report("extraction-vs-vm_compute", f"{len(bad_vm)} of {n_vm} sampled requests: extracted driver and vm_compute disagree "
                   f"(first: request {line[:120]} driver {ans[:120]} coq {str(got)[:120]})", False,
                   request=line[:4000], driver=ans[:4000], coq=got if got is None else got[:2000],
                   broken="extraction / ocaml driver glue (ocaml/drv.ml, ocaml/drv_c05.ml)")
            seen["extraction-vs-vm_compute"] = len(bad_vm)
    if not ctx.get("replay"):
        # the shared bit-exact cipher model against aiohomekit/crypto/chacha20poly1305.py, and the frame model instantiated at that
        # cipher (Proofs/FrameReal.v) against the real protocol, byte for byte; both evaluated inside Coq (vm_compute)
        import concurrent.futures as _cf
        import aeadtie, c05real
        import sys as _sys
        with _cf.ThreadPoolExecutor(2) as _ex:
            f1 = _ex.submit(aeadtie.run, ctx, "full")
            real_info, real_viols = c05real.run(ctx, _sys.modules[__name__])
            aead_info, aead_viols = f1.result()
        cov.extra["aead_bit_exact"] = aead_info
        cov.extra["realbytes"] = real_info
        for v in aead_viols + real_viols:
            seen[v["key"]] = seen.get(v["key"], 0) + 1
            viols.append(v)
        for i in range(real_info["out_cases"] + real_info["in_cases"]):
            cov.case("realbytes/%d" % i, True, sample=None, realbytes="out" if i < real_info["out_cases"] else "in")
    for v in viols:
        v["payload"]["occurrences"] = seen[v["key"]]
    cov.extra["exhaustive"] = True
    cov.extra["exhaustive_part"] = ("recv: every single and double read boundary (0..len, incl. empty reads) of %d streams <= 120 bytes; "
                                    "every single-bit flip of %d small streams; send: payload lengths %s at counter 0; "
                                    "session: a 2-frame EVENT split at every byte with a request issued between its two reads"
                                    % (len(SMALL_SETS[:4] if tier == "quick" else SMALL_SETS), 2 if tier == "quick" else 4, SEND_LENS))
    cov.extra["domain"] = ("inbound frame sizes 0..65535 (mostly 1..1024); counters up to and across 2^64; "
                           "authentication failure = real ChaCha20-Poly1305 rejection (model: entry absent from the finite open table)")
    cov.extra["trusted_base_extra"] = [
        "C05: session scripts: Link calls protocol.pause_writing()/resume_writing() as asyncio's transport would (writes are still "
        "accepted while paused, as the real transport buffers them); cancellation = task.cancel() on the send_bytes task; the driver "
        "command `sess` (ip_sess_step) is not covered by the vm_compute cross-check (it composes ip_send / ip_feed, which are)",
        "C05: asyncio fatal-error contract (data_received raises -> _fatal_error -> _force_close: no further reads, connection_lost) "
        "is emulated by harness/c05.py::Link, checked by reading CPython 3.12 asyncio/selector_events.py",
        "C05: plaintext handed to the HTTP layer is observed by replacing proto.current_response with a recorder (recv stream) and at "
        "request futures / connection.event_received through the real HttpResponse parser (send, event streams)",
        "C05: reference cipher = cryptography ChaCha20Poly1305; in the send/recv/session/wire streams the model's open is the finite table "
        "of the frames the reference sealed; in the realbytes stream the model runs the bit-exact RFC 8439 cipher of Model/ChaChaPoly.v "
        "itself (Proofs/FrameReal.v), evaluated by vm_compute, and that cipher model is tied to aiohomekit/crypto/chacha20poly1305.py by "
        "harness/aeadtie.py (info under aead_bit_exact)",
    ]
    return dict(coverage=cov.to_dict(), violations=viols)
